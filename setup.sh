#!/bin/bash
# MANIFEST.setup_cmd: offline set-up of the check environment.
here="$(cd "$(dirname "$0")" && pwd)"
cd "$here" || exit 2
PY="${VERIF_PYTHON:-/venv/bin/python}"
mkdir -p .deps evidence replays/found
export PYTHONPATH="/repo/lib/python:$here:$here/.deps"
if ! "$PY" -c 'import hypothesis' 2>/dev/null; then
    "$PY" -m pip install --no-index --find-links /opt/veriftools/wheels \
        --target "$here/.deps" hypothesis >/dev/null 2>&1
fi
if ! "$PY" -c 'import atheris' 2>/dev/null; then
    "$PY" -m pip install --no-index --find-links /opt/veriftools/wheels \
        --target "$here/.deps" atheris >/dev/null 2>&1 || \
        echo "setup: atheris not installable; byte-level fuzz tier will be skipped"
fi
"$PY" -W ignore -c '
import hypothesis, numpy, kazoo
import treadmill.scheduler
print("setup ok: hypothesis", hypothesis.__version__)
' 2> >(grep -v conda >&2) || exit 2
exit 0
