"""Regenerates the sensitivity tables of DESIGN.md (between the AUTO markers)
from mutants/results.json and seeded/*/meta.json."""
import glob
import json
import os
import re

HERE = os.path.dirname(os.path.abspath(__file__))


def mutant_table():
    res = json.load(open(os.path.join(HERE, 'mutants', 'results.json')))
    import sys
    sys.path.insert(0, os.path.join(HERE, 'mutants'))
    import catalog
    lines = ['| Mutant (mutants/catalog.py) | Target checks | Result | First bucket |',
             '|---|---|---|---|']
    for mid, fname, _old, _new, props in catalog.MUTANTS:
        r = res.get(mid)
        if not r:
            lines.append('| %s | %s | not run | |' % (mid, ' '.join(props)))
            continue
        if r['status'] == 'pattern-mismatch':
            lines.append('| %s | %s | pattern mismatch | |' % (mid, ' '.join(props)))
            continue
        bucket = ''
        caught_by = []
        for prop, v in r.get('checks', {}).items():
            if v['rc'] == 1:
                caught_by.append(prop)
                if not bucket and v.get('bucket'):
                    bucket = v['bucket'].split(' ')[0].replace('bucket=', '')
        lines.append('| %s | %s | %s | %s |' % (
            mid, ' '.join(props),
            'caught by ' + ' '.join(caught_by) if caught_by else '**missed**',
            bucket))
    return '\n'.join(lines)


def seeded_table():
    lines = ['| Seed | Property | Change / what it needs | Demo (with / without) | Caught by (quick) | Bucket |',
             '|---|---|---|---|---|---|']
    for path in sorted(glob.glob(os.path.join(HERE, 'seeded', '*', 'meta.json'))):
        m = json.load(open(path))
        caught = m.get('caught_by', [])
        bucket = ''
        for prop in caught:
            for line in m['checks'][prop]['lines']:
                if line.startswith('bucket='):
                    bucket = line.split(' ')[0].replace('bucket=', '')
                    break
        lines.append('| %s | %s | %s | rc %s / rc %s | %s | %s |' % (
            m['seed'], m.get('property', ''),
            m.get('change_and_what_it_needs', ''),
            m.get('demo_with_change', {}).get('rc'),
            m.get('demo_without_change', {}).get('rc'),
            ' '.join(caught) if caught else (
                'n/a (neutralised by %s)' % m['neutralised_by']
                if m.get('neutralised_by') else '**missed**'), bucket))
    return '\n'.join(lines)


def main():
    path = os.path.join(HERE, 'DESIGN.md')
    text = open(path).read()
    for tag, func in (('MUTANTS', mutant_table), ('SEEDED', seeded_table)):
        begin = '<!-- AUTO:%s:BEGIN -->' % tag
        end = '<!-- AUTO:%s:END -->' % tag
        if begin in text:
            text = re.sub(re.escape(begin) + '.*?' + re.escape(end),
                          lambda _m: begin + '\n' + func() + '\n' + end, text, flags=re.S)
    open(path, 'w').write(text)


if __name__ == '__main__':
    main()
