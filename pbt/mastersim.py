"""E2: histories over Master + ZkBackend + masterapi on the fake ZooKeeper.

The world outside the master acts only through the code that does so in
production (scheduler.masterapi, presence nodes of node agents, /scheduled
deletions by nodes, the blacklist node + event). The harness plays the part of
Master.run_loop with the schedule under generator control:

  * watch triggers on the four watched paths are modelled after kazoo's
    ChildrenWatch + Master.watch: a change under a watched path makes a trigger
    pending; triggers are served FIFO, one outstanding event at a time; the
    children snapshot is taken when the callback runs ('enq') and processed
    by Master.process later ('proc'), so it may be stale;
  * 'sched' runs reschedule()+check_placement_integrity() if not up_to_date,
    'cycle' first drains all pending events (quiescence);
  * 'restart' starts a fresh Master on the stored state, 'crashcycle'
    enumerates every write prefix of a publication step (C10).

An unhandled exception inside the master is what exit_on_unhandled turns into
process exit in production: the harness counts it (master_crashes) and starts a
new master on the stored state.
"""

import collections
import fnmatch
import json
import re

from treadmill import scheduler
from treadmill import zknamespace as z
from treadmill import zkutils
from treadmill.scheduler import loader as loader_mod
from treadmill.scheduler import master as master_mod
from treadmill.scheduler import masterapi
from treadmill.scheduler import zkbackend

from pbt import capture, fakezk, vclock
from pbt.run import Violation

WATCHED = (z.SERVER_PRESENCE, z.SCHEDULED, z.EVENTS, z.BLACKEDOUT_SERVERS)
TRAIT_NAMES = ['ta', 'tb', 'tc']
UNPUBLISHED_TRAIT = 'tx'
# weekday -> time of day, as cellsync stores utils.reboot_schedule() results
REBOOT_SCHEDULES = [
    None,
    {6: [23, 59, 59]},
    {0: [1, 0, 0], 3: [1, 0, 0]},
    {day: [0, 0, 1] for day in range(7)},
    {2: [12, 0, 0]},
    {5: [23, 59, 59], 6: [23, 59, 59]},
]
UNPUBLISHED_TRAITS = ['tx', 'ty']
PARTS = ['_default', 'partB', 'partC']
_TIME = {'s': 1, 'm': 60, 'h': 3600, 'd': 86400}


# ------------------------------------------------------------ reference parsers
def ref_mb(text):
    """Reference parser for memory/disk: integer x 1024^k, result in MB."""
    if text is None:
        return 0
    norm = str(text).strip().upper()
    if norm == '0':
        return 0
    scale = {'K': 1, 'M': 1024, 'G': 1024 ** 2, 'T': 1024 ** 3}[norm[-1]]
    return (int(norm[:-1]) * scale) // 1024


def ref_cpu(text):
    if text is None:
        return 0
    norm = str(text).strip()
    if norm.endswith('%'):
        norm = norm[:-1]
    return int(norm)


def ref_vector(record):
    return [ref_mb(record.get('memory', 0)), ref_cpu(record.get('cpu', 0)),
            ref_mb(record.get('disk', 0))]


def ref_seconds(text):
    norm = str(text).strip().lower()
    return int(norm[:-1]) * _TIME[norm[-1]]


def spell_mb(value, style):
    """Spell an integer number of MB in one of several equivalent ways."""
    if value == 0:
        return ['0', '0M', '0G', '0K'][style % 4]
    forms = ['%dM' % value, '%dK' % (value * 1024), '%dm' % value,
             ' %dM ' % value]
    if value % 1024 == 0:
        forms += ['%dG' % (value // 1024), '%dg' % (value // 1024)]
    if value % (1024 * 1024) == 0:
        forms += ['%dT' % (value // (1024 * 1024))]
    return forms[style % len(forms)]


def spell_cpu(value, style):
    forms = ['%d%%' % value, '%d' % value, value, ' %d%% ' % value]
    return forms[style % len(forms)]


class MasterSim(object):
    """Interpreter of E2 cases."""

    def __init__(self, case, observers=(), stats=None):
        scheduler.DIMENSION_COUNT = 3
        self.case = case
        self.stats = stats
        self.observers = list(observers)
        self.unit = case.get('unit', 1)
        self.clock = vclock.VClock(vclock.EPOCH0 + case.get('t0', 0))
        scheduler.time = self.clock
        loader_mod.time = self.clock
        master_mod.time = self.clock
        self.tree = fakezk.Tree(lambda: int(self.clock.peek() * 1000))
        order_salt = case.get('order', 0)
        if order_salt:
            self.tree.children_order = lambda path, kids: _permute(
                kids, order_salt)
        self.admin = fakezk.Client(self.tree)
        self.nodes = {}            # server name -> fakezk.Client (node agent)
        self.master = None
        self.master_client = None
        self.generation = 0
        self.master_crashes = 0
        self.armed = {}            # watched path -> cversion when armed
        self.triggers = []         # FIFO of watched paths with a pending trigger
        self.outstanding = None    # path whose event sits in master.queue

        self.decl_servers = {}     # as last loaded by the master
        self.server_records = {}   # name -> record as the world last wrote it
        self.decl_apps = {}        # name -> declared manifest facts
        self.app_order = []
        self.alloc_loaded = []     # allocations as last loaded by a master
        self.bl_loaded = []        # application blacklist, likewise
        self.arrival = {}          # instance -> order of first load by this master
        self.groups = {}
        self.groups_loaded = {}
        self.strict_integrity = False
        self.dirty = True
        self.dirty_kinds = {'init'}
        self.down_since = {}
        self.vanished = {}         # server -> time its presence vanished
        self.marked = set()        # (server, app) named in a freeze request
        self.last_info = None
        self._cycle_kind = 'init'
        self.cycles = 0
        self.quiescent_checks = list(
            getattr(self, 'quiescent_checks_init', []))
        self.on_restart = list(getattr(self, 'on_restart_init', []))
        self.srv_seq = 0
        self.alloc_list = []
        self.blacklist = []
        self.parent_of = {}
        self.announced = {}        # server -> capacity last announced by an admin event
        self.freeze_requested = set()   # frozen by the admin, event maybe pending
        self.frozen_by_admin = set()    # ... and processed (quiescence since)

        self._install_observers()
        self._build_world()
        self.start_master(first=True)

    # ---------------------------------------------------------------- set-up
    def count(self, key, amount=1):
        if self.stats is not None:
            self.stats.count(key, amount)

    def tick(self, millis=7):
        self.clock.advance(millis / 1000.0)
        if self.master is not None:
            self.note_triggers()

    def _install_observers(self):
        sim = self

        def declare(this, servername):
            """Ground truth of a server = its ZooKeeper record at the moment
            the master (re)loads it, parsed by the reference parsers."""
            if this is not sim.master:
                return
            if servername not in this.servers:
                sim.decl_servers.pop(servername, None)
                return
            data = zkutils.get_default(sim.admin, z.path.server(servername))
            if not data:
                return
            sim.decl_servers[servername] = {
                'cap': ref_vector(data),
                'label': data.get('partition') or '_default',
                'traits': sim.trait_mask(data.get('traits', [])),
                'trait_names': list(data.get('traits', [])),
                'parent': data.get('parent'),
            }

        orig_load = loader_mod.Loader.load_server

        def load_server(this, servername, *args, **kwargs):
            res = orig_load(this, servername, *args, **kwargs)
            declare(this, servername)
            return res

        orig_reload = loader_mod.Loader.reload_server

        def reload_server(this, servername, *args, **kwargs):
            res = orig_reload(this, servername, *args, **kwargs)
            declare(this, servername)
            return res

        loader_mod.Loader.reload_server = reload_server

        orig_remove = loader_mod.Loader.remove_server

        def remove_server(this, servername, *args, **kwargs):
            res = orig_remove(this, servername, *args, **kwargs)
            if this is sim.master:
                sim.decl_servers.pop(servername, None)
            return res

        orig_load_app = loader_mod.Loader.load_app

        def load_app(this, appname, *args, **kwargs):
            res = orig_load_app(this, appname, *args, **kwargs)
            # arrival order = the order in which this master first loaded
            # the instances (first come, first served)
            if this is sim.master and appname not in sim.arrival and \
                    appname in this.cell.apps:
                sim.arrival[appname] = len(sim.arrival)
            return res

        loader_mod.Loader.load_app = load_app

        orig_allocs = loader_mod.Loader.load_allocations

        def load_allocations(this):
            res = orig_allocs(this)
            if this is sim.master:
                data = zkutils.get_default(sim.admin, z.ALLOCATIONS,
                                           default=None)
                if data:
                    sim.alloc_loaded = data
            return res

        orig_freeze = master_mod.Master._freeze_server

        def freeze_server(this, servername, apps=None, *args, **kwargs):
            if this is sim.master:
                server = this.servers.get(servername)
                if server is not None and \
                        server.state is not scheduler.State.down:
                    for appname in apps or []:
                        if appname in server.apps:
                            sim.marked.add((servername, appname))
            return orig_freeze(this, servername, apps, *args, **kwargs)

        master_mod.Master._freeze_server = freeze_server

        orig_groups = loader_mod.Loader.load_identity_groups

        def load_identity_groups(this):
            res = orig_groups(this)
            if this is sim.master:
                loaded = {}
                for gname in sim.admin.get_children(z.IDENTITY_GROUPS):
                    data = zkutils.get_default(
                        sim.admin, z.path.identity_group(gname))
                    if data:
                        loaded[gname] = data.get('count', 0)
                    elif gname in sim.groups_loaded:
                        loaded[gname] = sim.groups_loaded[gname]
                sim.groups_loaded = loaded
            return res

        loader_mod.Loader.load_identity_groups = load_identity_groups

        self._patches = [
            (master_mod.Master, '_freeze_server', orig_freeze),
            (loader_mod.Loader, 'load_identity_groups', orig_groups),
            (loader_mod.Loader, 'reload_server', orig_reload),
            (loader_mod.Loader, 'load_server', orig_load),
            (loader_mod.Loader, 'remove_server', orig_remove),
            (loader_mod.Loader, 'load_allocations', orig_allocs),
            (loader_mod.Loader, 'load_app', orig_load_app),
        ]
        loader_mod.Loader.load_server = load_server
        loader_mod.Loader.remove_server = remove_server
        loader_mod.Loader.load_allocations = load_allocations

    def close(self):
        for klass, name, orig in self._patches:
            setattr(klass, name, orig)
        capture.deactivate()

    def trait_mask(self, names):
        """Reference trait coding: one bit per known name, bit 0 = invalid."""
        mask = 0
        for name in names:
            if name in self.trait_bits:
                mask |= self.trait_bits[name]
            else:
                mask |= 1
        return mask

    def _build_world(self):
        case = self.case
        zk = self.admin
        boot = zkbackend.ZkBackend(fakezk.Client(self.tree))
        master_mod.Master(boot, 'cell').create_rootns()
        self.trait_bits = {name: 2 << idx
                           for idx, name in enumerate(TRAIT_NAMES)}
        # a trait nodes detect themselves: never published in /traits, the
        # master learns it from server records only
        for pos, name in enumerate(UNPUBLISHED_TRAITS):
            self.trait_bits[name] = 2 << (len(TRAIT_NAMES) + pos)
        zkutils.put(zk, z.path.traits(), TRAIT_NAMES)
        for part in PARTS[1:case.get('nparts', 1)]:
            zkutils.put(zk, z.path.partition(part), {})
        self.racks = []
        for pi, pod in enumerate(case['topo']):
            pname = 'pod:%d' % pi
            masterapi.create_bucket(zk, pname, None)
            masterapi.cell_insert_bucket(zk, pname)
            for ri, _rack in enumerate(pod):
                rname = 'rack:%d.%d' % (pi, ri)
                masterapi.create_bucket(zk, rname, pname)
                self.racks.append(rname)
        ridx = 0
        for pod in case['topo']:
            for rack in pod:
                for spec in rack:
                    self.op_srv(ridx, spec)
                ridx += 1
        if case.get('allocs'):
            self.alloc_list = [self._alloc_record(a) for a in case['allocs']]
            masterapi.update_allocations(zk, self.alloc_list)
        for gi, cnt in enumerate(case.get('groups', [])):
            masterapi.update_identity_group(zk, 'g%d' % gi, cnt)
            self.groups['g%d' % gi] = cnt
        # events written during set-up are consumed by the first master
        for node in zk.get_children(z.EVENTS):
            zk.delete(z.path.event(node))

    def _alloc_record(self, decl):
        style = decl.get('style', 0)
        res = decl['reserved'] or [0, 0, 0]
        rec = {
            'name': decl['name'],
            'partition': PARTS[decl['part'] % self.case.get('nparts', 1)],
            'rank': decl['rank'],
            'rank_adjustment': decl['adj'],
            'memory': spell_mb(res[0] * self.unit, style),
            'cpu': spell_cpu(res[1], style),
            'disk': spell_mb(res[2] * self.unit, style + 1),
            # bits 0-2: published traits; bits 3-4: traits nodes detect
            # themselves (never published in /traits)
            'traits': [TRAIT_NAMES[i] for i in range(3)
                       if decl['traits'] & (1 << i)] +
                      [name for pos, name in enumerate(UNPUBLISHED_TRAITS)
                       if decl['traits'] & (8 << pos)],
            'assignments': [
                {'pattern': pat, 'priority': prio}
                for pat, prio in decl['assign']
            ],
        }
        if decl['maxutil'] is not None:
            rec['max_utilization'] = decl['maxutil']
        return rec

    # ------------------------------------------------------------ declarations
    def group_count(self, gname):
        return self.groups_loaded.get(gname) or 0

    def assignment_of(self, name):
        """Reference re-implementation of assignment matching over the
        allocations the master last loaded: -> (label, traits mask, prio)."""
        key = name[:name.find('.')]
        for rec in self.alloc_loaded or []:
            for assign in rec.get('assignments', []):
                pat = assign['pattern']
                pkey = pat[pat.find('@') + 1:pat.find('.')] if '@' in pat \
                    else pat[:pat.find('.')]
                if pkey != key:
                    continue
                if fnmatch.fnmatchcase(name, pat + '[#]' + '[0-9]' * 10):
                    traits = 0
                    for tname in rec.get('traits', []):
                        traits |= self.trait_bits.get(tname, 0)
                    self._last_alloc_name = '/'.join(
                        re.split('[/:]', rec['name']))
                    return rec.get('partition'), traits, assign['priority']
        self._last_alloc_name = '_default/%s' % key
        return '_default', 0, 1

    def reference_allocation(self, alloc_name):
        """Declared parameters of an allocation (path joined by '/') as the
        master last loaded them; the default allocations have none."""
        for rec in self.alloc_loaded or []:
            if '/'.join(re.split('[/:]', rec['name'])) == alloc_name:
                reserved = ref_vector(rec)
                return {
                    'reserved': reserved if any(reserved) else None,
                    'rank': rec['rank'],
                    'adj': rec.get('rank_adjustment') or 0,
                    'maxutil': rec.get('max_utilization'),
                }
        return {'reserved': None, 'rank': 100, 'adj': 0, 'maxutil': None}

    def reference_assignment(self, name):
        """(allocation path, priority) the loader must give the instance."""
        _label, _traits, prio = self.assignment_of(name)
        alloc = self._last_alloc_name
        declared = self.decl_apps[name].get('prio')
        if declared is not None and int(declared) != -1:
            prio = int(declared)
        return alloc, prio

    def refresh_app_decl(self):
        """Recompute label/traits of every instance from the loaded
        allocations (called before the oracles look)."""
        gone = getattr(self, 'gone', ())
        for name, decl in self.decl_apps.items():
            if name in gone:
                # unscheduled by the world; the master re-assigns only what
                # is still scheduled, so its last assignment stands
                continue
            label, traits, _prio = self.assignment_of(name)
            decl['label'] = label
            decl['traits'] = decl['inst_traits'] | traits

    @property
    def cell(self):
        return self.master.cell

    def servers(self):
        return capture.walk_servers(self.master.cell)

    # ------------------------------------------------------------ master side
    def start_master(self, first=False, on_phase=None):
        """A newly elected master: create_rootns, load_model, init_schedule,
        attach watchers."""
        self.generation += 1
        self.master_client = fakezk.Client(self.tree)
        backend = zkbackend.ZkBackend(self.master_client)
        self.decl_servers = {}
        self.alloc_loaded = []
        self.groups_loaded = {}
        self.arrival = {}
        self.master = master_mod.Master(backend, 'cell')
        self.outstanding = None
        self.triggers = []
        capture.activate(self)
        self.master.create_rootns()
        for callback in self.on_restart:
            callback(self, 'starting')
        self.master.load_model()
        self._observe_presence()
        self._observe_blacklist()
        if on_phase:
            on_phase(self, 'loaded')
        for callback in self.on_restart:
            callback(self, 'loaded')
        self._cycle_kind = 'init'
        self.master.init_schedule()
        if on_phase:
            on_phase(self, 'scheduled')
        for callback in self.on_restart:
            callback(self, 'scheduled')
        # attach_watchers: first invocation of each watch enqueues at once
        for path in WATCHED:
            children = self.master_client.get_children(path)
            self.armed[path] = self.tree.nodes[path].cversion
            self.master.queue.append((path, children))
        self.count('master_starts')

    def restart_master(self):
        try:
            self.start_master()
        except Violation:
            raise
        except Exception as err:  # pylint: disable=broad-except
            raise Violation(
                'startup.crash.%s.%s' % (type(err).__name__,
                                         capture.where(err)),
                'a newly started master failed: %r at %s' %
                (err, capture.where(err)))

    def _guard(self, func, *args):
        """Run a master step; an unhandled exception = crash + new master."""
        try:
            return func(*args)
        except Violation:
            raise
        except Exception as err:  # pylint: disable=broad-except
            if _raised_in_harness(err):
                raise       # a harness bug must not pass for a master crash
            self.master_crashes += 1
            self.count('master_crashes')
            self.count('master_crash:%s.%s' % (type(err).__name__,
                                               capture.where(err)))
            self.last_crash = err
            self.restart_master()
            return None

    def _observe_blacklist(self):
        """Ground truth of the application blacklist = the ZooKeeper node
        at the moment the master (re)loads it (start, apps_blacklist
        event)."""
        data = zkutils.get_default(self.admin, z.BLACKEDOUT_APPS)
        self.bl_loaded = list(data) if data else []

    def blacklisted_by_truth(self, appname):
        basename = appname.split('#')[0]
        return any(fnmatch.fnmatchcase(basename, pattern) or
                   fnmatch.fnmatch(basename, pattern)
                   for pattern in self.bl_loaded)

    def note_triggers(self):
        for path in WATCHED:
            node = self.tree.nodes.get(path)
            if node is None:
                continue
            if node.cversion != self.armed.get(path) and \
                    path not in self.triggers and path != self.outstanding:
                self.triggers.append(path)

    def enqueue_one(self):
        """The kazoo callback thread runs the next triggered watch."""
        if self.master.queue:
            return False
        self.note_triggers()
        if not self.triggers:
            return False
        path = self.triggers.pop(0)
        children = self.master_client.get_children(path)
        self.armed[path] = self.tree.nodes[path].cversion
        self.master.queue.append((path, children))
        self.outstanding = path
        return True

    def process_one(self):
        if not self.master.queue:
            return False
        event = self.master.queue.popleft()
        self.outstanding = None
        generation = self.generation
        self.master.process_complete.setdefault(
            event[0], self.master.backend.event_object())
        self._guard(master_mod.Master.process.__wrapped__, self.master, event)
        if self.generation == generation and event[0] == z.SERVER_PRESENCE:
            self._observe_presence(set(event[1]))
        if self.generation == generation and event[0] == z.EVENTS and \
                any('-apps_blacklist-' in name for name in event[1]):
            self._observe_blacklist()
        self.count('events_processed')
        return True

    def drain(self, limit=200):
        for _ in range(limit):
            if self.master.queue:
                self.process_one()
                continue
            if not self.enqueue_one():
                return True
        raise Violation('harness.livelock', 'event queue does not drain')

    def schedule(self, kind='sched'):
        if self.master.up_to_date:
            return False
        generation = self.generation

        def step():
            self.master.reschedule()
            try:
                self.master.check_placement_integrity()
            except AssertionError as err:
                if self.strict_integrity and kind == 'cycle':
                    raise Violation(
                        'c09.integrity-check',
                        'check_placement_integrity failed right after '
                        'reschedule(): %r' % (err,))
                raise

        self._cycle_kind = kind
        self._guard(step)
        return True

    def on_cycle(self, info):
        """Called by the capture wrapper as soon as Cell.schedule() returns
        (inside reschedule()/init_schedule(), before publication): the model
        level oracles run here, so a master that dies while publishing does
        not hide what the cycle computed."""
        self.last_info = info
        self._after_cycle(kind=self._cycle_kind)

    def _observe_presence(self, present=None):
        """The master has just looked at presence (processed a presence event
        with that children list, or loaded the model): open/close down
        episodes by ground truth (presence node absent = server is down)."""
        now = self.clock.peek()
        if present is None:
            present = set(self.tree.nodes[z.SERVER_PRESENCE].children)
        for name in list(self.master.servers):
            if name not in present:
                if name not in self.down_since:
                    t_lo = self.vanished.get(name, now)
                    self.down_since[name] = (min(t_lo, now), now)
            else:
                self.down_since.pop(name, None)
                self.vanished.pop(name, None)
        for name in list(self.down_since):
            if name not in self.master.servers:
                self.down_since.pop(name)

    def _after_cycle(self, kind):
        info = self.last_info
        if info is None:
            return
        self.last_info = None
        self.cycles += 1
        self.count('cycles')
        self.count('cycle:' + kind)
        self.refresh_app_decl()
        info.kind = kind
        for name, (srv, _exp, _ident) in info.after.items():
            bsrv = info.before.get(name, (None,))[0]
            if bsrv != srv:
                if bsrv is None:
                    self.count('placed')
                elif srv is None:
                    self.count('lost_placement')
                else:
                    self.count('moved')
        for obs in self.observers:
            obs(self, info)
        self.marked = {
            (srv, name) for srv, name in self.marked
            if name in self.master.cell.apps and
            self.master.cell.apps[name].server == srv
        }

    def kick(self):
        """An event that changes nothing (unsupported resource): the master
        computes a cycle after it, as after any other event."""
        masterapi.create_event(self.admin, 0, 'noop', None)

    def quiescent(self, kick=True):
        """Everything delivered and a cycle computed."""
        if kick:
            self.kick()
        self.drain()
        self.schedule(kind='cycle')
        self.drain()
        if not self.master.up_to_date:
            self.schedule(kind='cycle')
            self.drain()
        self.dirty = False
        self.dirty_kinds = set()
        # every event has been processed: what the admin froze is frozen
        self.frozen_by_admin |= self.freeze_requested
        for check in self.quiescent_checks:
            check(self)

    # ------------------------------------------------------------ world side
    def _server_names(self):
        return sorted(self.server_records)

    def _pick_server(self, idx):
        names = self._server_names()
        if not names:
            return None
        return names[idx % len(names)]

    def _pick_app(self, idx):
        if not self.app_order:
            return None
        return self.app_order[idx % len(self.app_order)]

    def _node_record(self, spec, up_since):
        style = spec.get('style', 0)
        cap = spec['cap']
        return {
            'memory': spell_mb(cap[0] * self.unit, style),
            'cpu': spell_cpu(cap[1], style + 1),
            'disk': spell_mb(cap[2] * self.unit, style + 2),
            'up_since': up_since,
            'traits': [TRAIT_NAMES[i] for i in range(3)
                       if spec['traits'] & (2 << i)] +
                      [name for name in UNPUBLISHED_TRAITS if spec.get(name)],
        }

    def op_srv(self, rack_idx, spec):
        """Admin configures a server; its node agent registers and comes up
        (unless spec['up'] is False)."""
        name = 's%d' % self.srv_seq
        self.srv_seq += 1
        rack = self.racks[rack_idx % len(self.racks)]
        part = PARTS[spec['part'] % self.case.get('nparts', 1)]
        self.tick()
        masterapi.create_server(self.admin, name, rack, part)
        self.server_records[name] = dict(spec)
        self.parent_of[name] = rack
        if spec.get('up', True):
            self._node_up(name, spec)
        return name

    def _node_up(self, name, spec):
        self.tick()
        client = fakezk.Client(self.tree)
        self.nodes[name] = client
        path = z.path.server(name)
        data = zkutils.get(client, path)
        data.update(self._node_record(
            spec, int(self.clock.peek()) - spec.get('age', 0)))
        zkutils.update(client, path, data)
        self.tick()
        zkutils.put(client, z.path.server_presence(name), {'seen': False},
                    acl=[client.make_host_acl(name, 'rwcda')], ephemeral=True)
        self.server_records[name] = dict(spec)
        if name not in self.down_since:
            self.vanished.pop(name, None)

    def _pick_loaded(self, idx):
        name = self._pick_server(idx)
        loaded = sorted(
            srv for srv in self.nodes
            if self.master is not None and srv in self.master.servers and
            self.master.servers[srv].apps)
        if loaded and idx % 4:
            name = loaded[idx % len(loaded)]
        return name

    def _down(self, name):
        if name is None or name not in self.nodes:
            return
        self.tick()
        self.vanished.setdefault(name, self.clock.peek())
        self.tree.expire(self.nodes.pop(name))
        self.last_down = name

    def _up(self, name, spec=None):
        if name is None or name in self.nodes:
            return
        if self.tree.nodes.get(z.path.server(name)) is None:
            return
        new = dict(self.server_records[name])
        if spec:
            new.update({'cap': spec['cap'], 'traits': spec['traits'],
                        'style': spec.get('style', 0)})
        self._node_up(name, new)

    def op_down(self, idx):
        """The node dies: its session expires, the presence node vanishes."""
        self._down(self._pick_loaded(idx))

    def op_up(self, idx, spec=None):
        """The node (re)boots, possibly with other capacity/traits."""
        self._up(self._pick_server(idx), spec)

    def op_uptrait(self, idx, mask):
        """The node that went down last comes back rebuilt: same capacity,
        other traits (bits as in a server spec: published traits only)."""
        name = getattr(self, 'last_down', None)
        if name is None or name in self.nodes or \
                name not in self.server_records:
            return self.op_up(idx)
        old = self.server_records[name]
        self.count('uptrait')
        if mask is None:
            # plain bounce: the very same record
            mask = old['traits']
        return self._up(name, {'cap': old['cap'], 'traits': mask,
                               'style': old.get('style', 0)})

    def op_reboot(self, idx, spec=None):
        name = self._pick_loaded(idx)
        self._down(name)
        self._up(name, spec)

    def op_resize(self, idx, cap, style):
        name = self._pick_loaded(idx)
        if name is None or self.tree.nodes.get(z.path.server(name)) is None:
            return
        self.tick()
        masterapi.update_server_capacity(
            self.admin, name,
            memory=spell_mb(cap[0] * self.unit, style),
            cpu=spell_cpu(cap[1], style),
            disk=spell_mb(cap[2] * self.unit, style + 1))
        self.server_records[name]['cap'] = list(cap)
        self.announced[name] = ref_vector(
            zkutils.get_default(self.admin, z.path.server(name)) or {})

    def op_shave(self, idx, dim, delta):
        """A tiny downward resize of one dimension (a few MB / cpu units off
        whatever is declared now), announced like any other resize."""
        name = self._pick_loaded(idx)
        if name is None or self.tree.nodes.get(z.path.server(name)) is None:
            return
        record = zkutils.get_default(self.admin, z.path.server(name)) or {}
        cur = ref_vector(record)
        if cur[dim % 3] - delta < 0:
            return
        cur[dim % 3] -= delta
        self.tick()
        masterapi.update_server_capacity(
            self.admin, name, memory='%dM' % cur[0], cpu='%d%%' % cur[1],
            disk='%dM' % cur[2])
        self.announced[name] = list(cur)
        self.count('shaved')

    def op_repart(self, idx, part):
        name = self._pick_server(idx)
        if name is None or self.tree.nodes.get(z.path.server(name)) is None:
            return
        self.tick()
        masterapi.update_server_attrs(
            self.admin, name, PARTS[part % self.case.get('nparts', 1)])
        self.server_records[name]['part'] = part

    def op_flap(self, idx, spec, wait):
        """One server: down (observed), back up with a changed record
        (observed), a long time passes, down again (observed)."""
        name = self._pick_loaded(idx)
        if name is None or name not in self.nodes:
            return
        self._down(name)
        self.quiescent()
        self._up(name, spec)
        self.quiescent()
        self.clock.advance(wait)
        self._down(name)
        self.quiescent()
        self.count('flaps')

    def op_reparent(self, idx, rack_idx):
        name = self._pick_loaded(idx)
        if name is None or self.tree.nodes.get(z.path.server(name)) is None:
            return
        self.tick()
        rack = self.racks[rack_idx % len(self.racks)]
        if rack_idx % 3:
            # aim: a rack that already hosts an instance of an application
            # this server hosts too (affinity counters of the new ancestors)
            def hosted(server):
                node = self.tree.nodes.get(z.path.placement(server))
                return {inst.split('#')[0] for inst in node.children} \
                    if node is not None else set()
            mine = hosted(name)
            cands = sorted({
                self.parent_of[other] for other in self.parent_of
                if other != name and
                self.parent_of[other] != self.parent_of.get(name) and
                mine & hosted(other)})
            if cands:
                rack = cands[rack_idx % len(cands)]
                self.count('reparent_aimed')
        if rack_idx == 8:
            # an admin's typo: update_server_parent does not validate the
            # bucket, the record now names a rack nobody ever defined
            rack = 'rack:undefined'
            self.count('reparent_to_undefined_rack')
        masterapi.update_server_parent(self.admin, name, rack)
        self.parent_of[name] = rack

    def op_rmsrv(self, idx):
        name = self._pick_server(idx)
        if name is None:
            return
        self.tick()
        masterapi.delete_server(self.admin, name)
        if name in self.nodes:
            self.tree.expire(self.nodes.pop(name))
        self.server_records.pop(name)
        self.vanished.pop(name, None)

    def op_state(self, idx, state, app_idxs):
        name = self._pick_server(idx)
        if name is None:
            return
        apps = None
        if state == 'frozen' and app_idxs:
            placed = sorted(
                self.tree.nodes[z.path.placement(name)].children) \
                if z.path.placement(name) in self.tree.nodes else []
            apps = [placed[i % len(placed)] for i in app_idxs] \
                if placed else None
        self.tick()
        masterapi.update_server_state(self.admin, name, state, apps)
        if state == 'frozen' and name in self.nodes:
            self.freeze_requested.add(name)
        else:
            self.freeze_requested.discard(name)
            self.frozen_by_admin.discard(name)

    def op_app(self, proid, aff_i, demand, prio, lease, retention, group,
               traits, once, count, style):
        aff = self.case['affs'][aff_i % len(self.case['affs'])]
        manifest = {
            'memory': spell_mb(demand[0] * self.unit, style),
            'cpu': spell_cpu(demand[1], style),
            'disk': spell_mb(demand[2] * self.unit, style + 1),
            'affinity': aff['name'],
        }
        if aff['limits']:
            manifest['affinity_limits'] = dict(aff['limits'])
        if prio is not None:
            manifest['priority'] = prio
        if lease:
            manifest['lease'] = lease
        if retention is not None:
            manifest['data_retention_timeout'] = retention
        if group is not None:
            manifest['identity_group'] = 'g%d' % group
        if traits:
            manifest['traits'] = traits
        if once:
            manifest['schedule_once'] = True
        self.tick()
        ids = masterapi.create_apps(self.admin, '%s.%s' % (proid, aff['name']),
                                    manifest, count, created_by='pbt')
        for name in ids:
            self.decl_apps[name] = {
                'demand': ref_vector(manifest), 'aff': aff['name'],
                'limits': dict(aff['limits'] or {}),
                'lease': ref_seconds(lease) if lease else 0,
                'retention': None if retention is None
                else ref_seconds(retention),
                'group': manifest.get('identity_group'),
                'inst_traits': self.trait_mask(traits or []),
                'once': bool(once), 'label': '_default', 'traits': 0,
                'prio': prio,
            }
            self.app_order.append(name)
            self.last_app = name
        return ids

    def op_rm(self, idx):
        name = self._pick_app(idx)
        if name is None:
            return
        self.tick()
        masterapi.delete_apps(self.admin, [name], deleted_by='pbt')
        self._forget_app(name)

    def op_finish(self, idx):
        """The node reports the instance finished and unschedules it."""
        name = self._pick_app(idx)
        if name is None:
            return
        self.tick()
        zkutils.put(self.admin, z.path.finished(name),
                    {'state': 'finished', 'when': self.clock.peek(),
                     'host': None, 'data': 0})
        zkutils.ensure_deleted(self.admin, z.path.scheduled(name))
        self._forget_app(name)

    def _forget_app(self, name):
        if name in self.app_order:
            self.app_order.remove(name)
        # the assignment in effect now (by the allocations the master has
        # loaded) is the last one this instance gets
        if name in self.decl_apps and name not in getattr(self, 'gone', ()):
            label, traits, _prio = self.assignment_of(name)
            self.decl_apps[name]['label'] = label
            self.decl_apps[name]['traits'] = \
                self.decl_apps[name]['inst_traits'] | traits
        self.gone = getattr(self, 'gone', set())
        self.gone.add(name)

    def op_prio(self, idx, prio):
        name = self._pick_app(idx)
        if name is None:
            return
        self.tick()
        masterapi.update_app_priorities(self.admin, {name: prio})
        self.decl_apps[name]['prio'] = prio
        self.last_app = name

    def op_rmlast(self):
        """Delete the instance most recently touched by another request
        (two requests about one instance racing through different watches).
        """
        name = getattr(self, 'last_app', None)
        if name is None or name not in self.app_order:
            return
        self.tick()
        masterapi.delete_apps(self.admin, [name], deleted_by='pbt')
        self._forget_app(name)

    def op_allocs(self, allocs):
        self.tick()
        self.alloc_list = [self._alloc_record(a) for a in allocs]
        masterapi.update_allocations(self.admin, self.alloc_list)

    def op_idg(self, gidx, count):
        self.tick()
        masterapi.update_identity_group(self.admin, 'g%d' % gidx, count)
        self.groups['g%d' % gidx] = count

    def op_rmidg(self, gidx):
        self.tick()
        masterapi.delete_identity_group(self.admin, 'g%d' % gidx)
        self.groups['g%d' % gidx] = None

    def op_bl(self, patterns):
        self.tick()
        self.blacklist = list(patterns)
        zkutils.put(self.admin, z.BLACKEDOUT_APPS, self.blacklist)
        masterapi.create_event(self.admin, 0, 'apps_blacklist', None)

    def op_blackout(self, idx, flag):
        name = self._pick_server(idx)
        if name is None:
            return
        self.tick()
        path = z.path.blackedout_server(name)
        if flag:
            zkutils.ensure_exists(self.admin, path)
        else:
            zkutils.ensure_deleted(self.admin, path)

    def op_cellev(self, pod_idx, insert):
        pods = sorted({'pod:%d' % i for i in range(len(self.case['topo']))})
        pod = pods[pod_idx % len(pods)]
        outside = [name for name in pods
                   if not self.admin.exists(z.path.cell(name))]
        if insert and outside:
            # aim: a bucket that was taken out of the cell comes back
            pod = outside[pod_idx % len(outside)]
        self.tick()
        if insert:
            if self.admin.exists(z.path.cell(pod)):
                # re-announce: the 'cell' event with an unchanged bucket list
                masterapi.create_event(self.admin, 0, 'cell', None)
            else:
                masterapi.cell_insert_bucket(self.admin, pod)
        else:
            masterapi.create_event(self.admin, 0, 'cell', None)

    def op_partsched(self, part_idx, sched_idx):
        """The reboot schedule of a partition changes (cellsync writes the
        partition node; masters read it when they start)."""
        part = PARTS[part_idx % self.case.get('nparts', 1)]
        schedule = REBOOT_SCHEDULES[sched_idx % len(REBOOT_SCHEDULES)]
        data = {} if schedule is None else {'reboot-schedule': schedule}
        self.tick()
        zkutils.put(self.admin, z.path.partition(part), data)

    def op_duprecord(self, idx, sidx):
        """A stale second placement record of a placed instance appears
        under another server (what an interrupted publication of an older
        master, or an operator, can leave behind). Loader.restore_placements
        has a branch for exactly this state."""
        stored = sorted(self.stored_placement())
        root = self.tree.nodes.get(z.PLACEMENT)
        if not stored or root is None:
            return
        server, inst = stored[idx % len(stored)]
        others = sorted(name for name in root.children if name != server)
        if not others:
            return
        other = others[sidx % len(others)]
        data = zkutils.get_default(self.admin,
                                   z.path.placement(server, inst))
        self.tick()
        zkutils.put(self.admin, z.path.placement(other, inst), data)
        self.count('duplicate_record_injected')

    def op_cellrm(self, pod_idx):
        """An admin takes a top level bucket out of the cell (it can be put
        back with cellev)."""
        inside = sorted(self.admin.get_children(z.CELL))
        if len(inside) < 2:
            return
        self.tick()
        masterapi.cell_remove_bucket(self.admin, inside[pod_idx % len(inside)])

    def op_rebucket(self, rack_idx, pod_idx):
        """An admin re-defines a rack under another pod (create_bucket on an
        existing bucket rewrites it and posts a 'buckets' event). Masters of
        this snapshot treat the bucket topology as constant while they run;
        a new master builds the new topology."""
        rack = self.racks[rack_idx % len(self.racks)]
        if rack_idx % 3:
            # aim: the rack that hosts most instances
            load = {}
            for server, parent in self.parent_of.items():
                node = self.tree.nodes.get(z.path.placement(server))
                if node is not None:
                    load[parent] = load.get(parent, 0) + len(node.children)
            cands = sorted((-cnt, name) for name, cnt in load.items()
                           if cnt and name in self.racks)
            if cands:
                rack = cands[0][1]
        if not self.admin.exists(z.path.bucket(rack)):
            return
        pods = sorted(name for name in self.admin.get_children(z.BUCKETS)
                      if name.startswith('pod:'))
        current = (zkutils.get_default(self.admin, z.path.bucket(rack)) or
                   {}).get('parent')
        others = [name for name in pods if name != current]
        if not others:
            return
        self.tick()
        masterapi.create_bucket(self.admin, rack,
                                others[pod_idx % len(others)])
        self.count('rack_redefined_under_pod')

    def op_rmbucket(self, rack_idx):
        """An admin deletes the definition of a rack that may still hold
        servers (masterapi.delete_bucket: no event, the running master keeps
        its in-memory bucket; a new master cannot load the rack's servers,
        which stay listed under /servers)."""
        rack = self.racks[rack_idx % len(self.racks)]
        if not self.admin.exists(z.path.bucket(rack)):
            return
        self.tick()
        masterapi.delete_bucket(self.admin, rack)
        self.count('rack_definitions_deleted')

    def op_running(self, idx):
        name = self._pick_app(idx)
        if name is None:
            return
        if self.admin.exists(z.path.running(name)):
            return
        self.tick()
        zkutils.put(self.admin, z.path.running(name), 'host', ephemeral=True)

    def op_adv(self, seconds):
        self.clock.advance(seconds)

    def op_adv_ret(self, idx, delta):
        cands = []
        for name in self.app_order:
            app = self.master.cell.apps.get(name)
            if app is None or not app.server:
                continue
            server = self.master.servers.get(app.server)
            if server is None or (
                    server.state is not scheduler.State.down and
                    server.name not in self.down_since):
                continue
            if self.decl_apps[name]['retention']:
                cands.append((name, server))
        if not cands:
            return
        name, server = cands[idx % len(cands)]
        app = self.master.cell.apps[name]
        _state, since = server.get_state()
        if server.name in self.down_since:
            # ground truth (when a master first saw it down), not the model
            since = self.down_since[server.name][1]
        target = since + self.decl_apps[name]['retention'] + delta
        now = self.clock.peek()
        if target > now:
            self.clock.advance(target - now)

    def op_renew(self, idx):
        """Lease renewal request on a placed instance (nothing in this
        snapshot sets the flag; driven as scheduler_test.test_renew does)."""
        name = self._pick_app(idx)
        app = self.master.cell.apps.get(name) if name else None
        if app is not None and app.server:
            app.renew = True
            self.master.up_to_date = False

    # master periodic tasks and control
    def op_tickreboots(self):
        self._guard(self.master.tick_reboots)

    def op_checkreboot(self):
        self._guard(self.master.check_reboot)

    def op_integrity(self):
        self._guard(self.master.check_integrity)

    def op_enq(self):
        self.enqueue_one()

    def op_proc(self):
        self.process_one()

    def op_ev(self):
        if not self.master.queue:
            self.enqueue_one()
        self.process_one()

    def op_sched(self):
        self.schedule()

    def op_cycle(self):
        self.quiescent()

    def op_restart(self):
        self.restart_master()
        self.count('restarts')

    MASTER_OPS = ('renew', 'enq', 'proc', 'ev', 'sched', 'cycle', 'restart',
                  'tickreboots', 'checkreboot', 'integrity', 'adv', 'adv_ret',
                  'crashcycle', 'crashrestart')

    def apply(self, op):
        self.count('op:' + op[0])
        if op[0] not in self.MASTER_OPS:
            self.dirty = True
            self.dirty_kinds.add(op[0])
            if op[0] not in ('state', 'app', 'rm', 'rmlast', 'finish', 'prio',
                             'running', 'bl'):
                # anything that may touch a server (presence, record,
                # topology, restart of the node) ends what the harness knows
                # about admin-requested freezes
                self.freeze_requested.clear()
                self.frozen_by_admin.clear()
        return getattr(self, 'op_' + op[0])(*op[1:])

    # ------------------------------------------------------- crash prefixes
    def scratch_master(self):
        """Start a throw-away master on the current stored state (does not
        replace self.master). Returns it; exceptions propagate."""
        capture.deactivate()
        try:
            client = fakezk.Client(self.tree)
            scratch = master_mod.Master(zkbackend.ZkBackend(client), 'cell')
            scratch.create_rootns()
            scratch.load_model()
            scratch.init_schedule()
            scratch.check_placement_integrity()
            return scratch
        finally:
            capture.activate(self)

    def explore_prefixes(self, step, check):
        """Run step() recording its storage writes W, then for every prefix
        W[:j] rebuild snapshot+W[:j] as pure data and call check(j, W)."""
        snap = self.tree.snapshot()
        self.tree.writelog = []
        try:
            step()
        finally:
            writes = self.tree.writelog
            self.tree.writelog = None
        final = self.tree.snapshot()
        clock_us = self.clock.us
        try:
            for j in range(len(writes) + 1):
                if j and writes[j - 1][0] == 'set_acls':
                    # same data as the previous prefix
                    self.count('crash_points_acl_only')
                    continue
                self.tree.restore(snap)
                for rec in writes[:j]:
                    self.tree.apply_write(rec)
                check(j, writes)
                self.count('crash_points')
        finally:
            self.tree.restore(final)
            self.clock.us = max(self.clock.us, clock_us)
        return writes

    def run(self):
        try:
            for op in self.case['ops']:
                self.apply(op)
            self.quiescent()
        finally:
            self.close()
        return self

    # ------------------------------------------------------------- ZK views
    def stored_placement(self):
        """{(server, instance): data} as stored under /placement."""
        res = {}
        root = self.tree.nodes.get(z.PLACEMENT)
        if root is None:
            return res
        for server in root.children:
            snode = self.tree.nodes[z.path.placement(server)]
            for inst in snode.children:
                node = self.tree.nodes[z.path.placement(server, inst)]
                try:
                    data = json.loads(node.data.decode()) if node.data \
                        else None
                except ValueError:
                    data = node.data
                res[(server, inst)] = (data, node.ctime)
        return res


def _raised_in_harness(err):
    """The innermost frame of the exception is harness code (pbt/), or it is
    a TypeError about one of the harness's wrappers."""
    tback = err.__traceback__
    last = None
    while tback is not None:
        last = tback.tb_frame.f_code.co_filename
        tback = tback.tb_next
    if last and '/pbt/' in last:
        return True
    return isinstance(err, TypeError) and '_install_observers' in str(err)


def _permute(items, salt):
    """Deterministic permutation of a children list (ZooKeeper promises no
    order)."""
    import hashlib
    return sorted(items, key=lambda item: hashlib.md5(
        ('%s/%s' % (salt, item)).encode()).hexdigest())
