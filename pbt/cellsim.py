"""E1: histories over the pure scheduler API (Cell/Bucket/Server/Allocation).

A case is a JSON object

  {"t0": secs, "topo": [[[srv, ...] racks ...] pods ...], "affs": [...],
   "allocs": [...], "groups": [...], "ops": [[kind, args...], ...]}

interpreted by CellSim. The cell is built the way loader.py builds it (buckets
first, then servers through add_node + Partition.add; allocations through
get_sub_alloc/update/set_traits; instances through Cell.add_app). Operations
reference entities by index modulo the number of live entities so that every
generated op list is interpretable and shrinks well.

The engine keeps its own record of what was *declared* (capacities, demands,
limits, labels, traits) so that oracles never need the scheduler's aggregates.
"""

import numpy as np

from treadmill import scheduler

from pbt import capture, vclock
from pbt.run import Violation

LEVELS = ('server', 'rack', 'pod', 'cell')

walk_servers = capture.walk_servers
_where = capture.where
CycleInfo = capture.CycleInfo


def ancestors(node):
    """Parents of a node up to the root."""
    res = []
    node = node.parent
    while node is not None:
        res.append(node)
        node = node.parent
    return res


class CellSim(object):
    """Interpreter of E1 cases."""

    def __init__(self, case, observers=()):
        scheduler.DIMENSION_COUNT = 3
        self.case = case
        self.clock = vclock.VClock(vclock.EPOCH0 + case.get('t0', 0))
        scheduler.time = self.clock
        self.observers = list(observers)

        self.cell = scheduler.Cell('top')
        self.buckets = []          # all buckets, pods first then racks
        self.racks = []
        self.decl_servers = {}     # name -> dict(cap, label, traits, rack)
        self.removed_servers = {}  # name -> Server object (detached)
        self.decl_apps = {}        # name -> dict
        self.app_order = []        # live app names in creation order
        self.allocs = []           # [(Allocation, decl)]
        self.affs = case['affs']
        self.groups = {}           # name -> declared count (None = removed)
        self.down_since = {}       # server -> (t_lo, t_hi) of current episode
        self.marked = set()        # (server, app) named in a freeze request
        self.seq = 0
        self.srv_seq = 0
        self.cycles = 0
        self.stats = None
        self.last_info = None
        self.pending_cycle_obs = []

        for pi, pod in enumerate(case['topo']):
            pbucket = scheduler.Bucket('pod:%d' % pi, level='pod')
            self.buckets.append(pbucket)
            for ri, _rack in enumerate(pod):
                rbucket = scheduler.Bucket('rack:%d.%d' % (pi, ri),
                                           level='rack')
                pbucket.add_node(rbucket)
                self.buckets.append(rbucket)
                self.racks.append(rbucket)
            self.cell.add_node(pbucket)
        ridx = 0
        for pod in case['topo']:
            for rack in pod:
                for spec in rack:
                    self.add_server(ridx, spec)
                ridx += 1

        for decl in case['allocs']:
            self.add_alloc(decl)
        for gi, count in enumerate(case.get('groups', [])):
            self.cell.configure_identity_group('g%d' % gi, count)
            self.groups['g%d' % gi] = count

    # -- declared model -------------------------------------------------
    def part_label(self, idx):
        return 'part%d' % idx

    def servers(self):
        return walk_servers(self.cell)

    def add_alloc(self, decl):
        label = self.part_label(decl['part'])
        alloc = self.cell.partitions[label].allocation
        for part in decl['path']:
            alloc = alloc.get_sub_alloc(part)
        alloc.update(list(decl['reserved']) if decl['reserved'] else None,
                     decl['rank'], decl['adj'], decl['maxutil'])
        alloc.set_traits(decl['traits'])
        self.allocs.append((alloc, decl))

    def add_server(self, rack_idx, spec, name=None):
        rack = self.racks[rack_idx % len(self.racks)]
        if name is None:
            name = 's%d' % self.srv_seq
            self.srv_seq += 1
        label = self.part_label(spec['part'])
        server = scheduler.Server(
            name, list(spec['cap']),
            up_since=self.clock.time() - spec.get('age', 0),
            label=label, traits=spec['traits'])
        rack.add_node(server)
        server.state = scheduler.State.up
        self.cell.partitions[label].add(server, None)
        self.decl_servers[name] = {
            'cap': list(spec['cap']), 'label': label,
            'traits': spec['traits'], 'rack': rack.name,
        }
        self.removed_servers.pop(name, None)
        return server

    def group_count(self, gname):
        return self.groups.get(gname) or 0

    def live_apps(self):
        return self.app_order

    def _app(self, idx):
        if not self.app_order:
            return None
        return self.cell.apps[self.app_order[idx % len(self.app_order)]]

    def _server(self, idx):
        servers = self.servers()
        if not servers:
            return None
        names = sorted(servers)
        return servers[names[idx % len(names)]]

    # -- operations -----------------------------------------------------
    def apply(self, op):
        kind = op[0]
        handler = getattr(self, 'op_' + kind)
        res = handler(*op[1:])
        if kind != 'cycle':
            self._prune_marks()
        return res

    def op_app(self, alloc_i, aff_i, demand, prio, lease, retention, group,
               traits, once, limits=None):
        alloc, adecl = self.allocs[alloc_i % len(self.allocs)]
        aff = self.affs[aff_i % len(self.affs)]
        if limits is not None:
            # C02 probes only: limits of its own under a shared affinity name
            aff = dict(aff, limits=limits)
        self.seq += 1
        name = 'pr%d.%s#%010d' % (alloc_i % len(self.allocs), aff['name'],
                                   self.seq)
        gname = None if group is None else 'g%d' % group
        app = scheduler.Application(
            name, prio, list(demand), affinity=aff['name'],
            affinity_limits=dict(aff['limits']) if aff['limits'] else None,
            data_retention_timeout=retention, lease=lease,
            identity_group=gname, traits=traits, schedule_once=once)
        self.cell.add_app(alloc, app)
        self.decl_apps[name] = {
            'demand': list(demand), 'aff': aff['name'],
            'limits': dict(aff['limits'] or {}), 'lease': lease,
            'retention': retention, 'group': gname, 'traits': traits,
            'once': once, 'alloc': alloc_i % len(self.allocs),
            'created': self.clock.peek(), 'inst_traits': traits,
            'label': self.part_label(adecl['part']),
        }
        self.decl_apps[name]['traits'] = traits | adecl['traits']
        self.app_order.append(name)
        return name

    def op_clone(self, idx, prio, shrink):
        """Submit an instance of the same shape as an existing one (same
        allocation, affinity, lease, traits), with demand <= and the given
        priority."""
        placed = [n for n in self.app_order if self.cell.apps[n].server]
        pool = placed if placed and idx % 3 else self.app_order
        if not pool:
            return None
        src = self.decl_apps[pool[idx % len(pool)]]
        demand = [max(0, d - s) for d, s in zip(src['demand'], shrink)]
        aff_i = [a['name'] for a in self.affs].index(src['aff'])
        group = None if src['group'] is None else int(src['group'][1:])
        return self.op_app(src['alloc'], aff_i, demand, prio, src['lease'],
                           src['retention'], group, src['inst_traits'],
                           src['once'])

    def op_capclone(self, idx, prio):
        """Like clone (same shape, same demand), aimed at a placed member of
        an identity group whose allocation has a utilisation cap: the clone
        outranks it inside the allocation and pushes it over the cap."""
        cands = []
        for pos, name in enumerate(self.app_order):
            decl = self.decl_apps[name]
            capped = self.allocs[decl['alloc']][1].get('maxutil') is not None
            if self.cell.apps[name].server and capped:
                cands.append((0 if decl['group'] is not None else 1, pos))
        if not cands:
            return self.op_clone(idx, prio, [0, 0, 0])
        best = min(c[0] for c in cands)
        pool = [pos for kind, pos in cands if kind == best]
        src = self.decl_apps[self.app_order[pool[idx % len(pool)]]]
        aff_i = [a['name'] for a in self.affs].index(src['aff'])
        group = None if src['group'] is None else int(src['group'][1:])
        self.stats_count('capclone_aimed')
        return self.op_app(src['alloc'], aff_i, list(src['demand']), prio,
                           src['lease'], src['retention'], group,
                           src['inst_traits'], src['once'])

    def op_rm(self, idx):
        app = self._app(idx)
        # aim: instances that lost their server outside a cycle and still
        # hold an identity
        orphans = [n for n in self.app_order
                   if self.cell.apps[n].identity is not None and
                   self.cell.apps[n].server is None]
        if orphans and idx % 2:
            app = self.cell.apps[orphans[idx % len(orphans)]]
        if app is None:
            return None
        self.cell.remove_app(app.name)
        self.app_order.remove(app.name)
        self.decl_apps.pop(app.name)
        return app.name

    def op_prio(self, idx, prio):
        app = self._app(idx)
        if app is not None:
            app.priority = prio

    def op_move(self, idx, alloc_i):
        app = self._app(idx)
        if app is None:
            return
        alloc, adecl = self.allocs[alloc_i % len(self.allocs)]
        # what Loader.load_app does for an instance it already knows
        self.cell.add_app(alloc, app)
        decl = self.decl_apps[app.name]
        decl['alloc'] = alloc_i % len(self.allocs)
        decl['label'] = self.part_label(adecl['part'])
        decl['traits'] = decl['inst_traits'] | adecl['traits']
        self.stats_count('moved_alloc')

    def op_xmove(self, idx, alloc_i):
        """Like move, aimed at an instance sitting on a server that is not
        up (frozen, or down within the retention time)."""
        servers = self.servers()
        cands = [n for n in self.app_order
                 if self.cell.apps[n].server in servers and
                 servers[self.cell.apps[n].server].state is not
                 scheduler.State.up]
        if not cands:
            return self.op_move(idx, alloc_i)
        pos = self.app_order.index(cands[idx % len(cands)])
        return self.op_move(pos, alloc_i)

    def op_lfreeze(self, idx, app_idxs):
        """Like freeze, aimed at an up server that hosts instances."""
        servers = self.servers()
        loaded = sorted(n for n, srv in servers.items()
                        if srv.apps and srv.state is scheduler.State.up)
        if not loaded:
            return self.op_freeze(idx, app_idxs)
        name = loaded[idx % len(loaded)]
        pos = sorted(servers).index(name)
        return self.op_freeze(pos, app_idxs)

    def op_fill(self, aff_i, pieces):
        """Capacity pressure: for every up server, low-priority instances
        whose demands add up to the room that is free there (by declared
        values) are submitted to the default allocation of its partition."""
        servers = self.servers()
        for sname in sorted(servers):
            server = servers[sname]
            sdecl = self.decl_servers.get(sname)
            if sdecl is None or server.state is not scheduler.State.up:
                continue
            room = list(sdecl['cap'])
            for other in server.apps:
                for dim in range(3):
                    room[dim] -= self.decl_apps[other]['demand'][dim]
            demand = [max(0, int(r)) // pieces for r in room]
            if not any(demand):
                continue
            alloc_i = int(sdecl['label'][4:])
            for _ in range(pieces):
                self.op_app(alloc_i, aff_i, demand, 1, 0, None, None, 0,
                            False)

    # -- rack-local shifts (aimed): the largest server of a rack fails, a
    # smaller one joins, work lands on what is left
    def _rack_ups(self, idx, least=1):
        racks = []
        for ridx, rack in enumerate(self.racks):
            ups = [node for node in rack.children_iter()
                   if node.state is scheduler.State.up and
                   node.name in self.decl_servers]
            if len(ups) >= least:
                racks.append((ridx, ups))
        if not racks:
            return None, []
        return racks[idx % len(racks)]

    def _room(self, server):
        room = list(self.decl_servers[server.name]['cap'])
        for other in server.apps:
            for dim in range(3):
                room[dim] -= self.decl_apps[other]['demand'][dim]
        return [max(0, int(r)) for r in room]

    def op_downbig(self, idx):
        ridx, ups = self._rack_ups(idx, least=2)
        if ridx is None:
            return self.op_down(idx)
        self.last_rack = ridx
        big = max(ups, key=lambda srv: (sum(self._room(srv)), srv.name))
        return self._down(big)

    def op_srvsmall(self, idx, shrink):
        ridx = getattr(self, 'last_rack', None)
        ups = []
        if ridx is not None:
            ups = [node for node in self.racks[ridx].children_iter()
                   if node.state is scheduler.State.up and
                   node.name in self.decl_servers]
        if not ups:
            ridx, ups = self._rack_ups(idx)
        if ridx is None:
            return None
        self.last_rack = ridx
        rooms = [self._room(srv) for srv in ups]
        cap = [max(1, min(room[dim] for room in rooms) - shrink)
               for dim in range(3)]
        sdecl = self.decl_servers[ups[0].name]
        return self.add_server(ridx, {'cap': cap, 'traits': sdecl['traits'],
                                      'part': int(sdecl['label'][4:]),
                                      'age': 0})

    def op_appbig(self, idx, leave):
        ridx = getattr(self, 'last_rack', None)
        ups = []
        if ridx is not None:
            ups = [node for node in self.racks[ridx].children_iter()
                   if node.state is scheduler.State.up and
                   node.name in self.decl_servers]
        if not ups:
            ridx, ups = self._rack_ups(idx)
        if ridx is None:
            return None
        big = max(ups, key=lambda srv: (sum(self._room(srv)), srv.name))
        demand = [max(0, r - leave) for r in self._room(big)]
        part = int(self.decl_servers[big.name]['label'][4:])
        return self.op_app(part, idx, demand, 1, 0, None, None, 0, False)

    def op_srv(self, rack_idx, spec):
        self.add_server(rack_idx, spec)

    def op_rmsrv(self, idx):
        server = self._server(idx)
        servers = self.servers()
        loaded = sorted(n for n, srv in servers.items() if srv.apps)
        if loaded and idx % 4:
            server = servers[loaded[idx % len(loaded)]]
        if server is None:
            return
        # Loader.remove_server
        server.remove_all()
        server.parent.remove_node(server)
        for label in server.labels:
            self.cell.partitions[label].remove(server)
        self.removed_servers[server.name] = server
        self.decl_servers.pop(server.name)
        self.down_since.pop(server.name, None)

    def op_readd(self, idx, rack_idx):
        """Re-register a removed server under its old name."""
        if not self.removed_servers:
            return
        names = sorted(self.removed_servers)
        name = names[idx % len(names)]
        old = self.removed_servers[name]
        spec = {'cap': [int(x) for x in old.init_capacity],
                'part': int(list(old.labels)[0][4:]),
                'traits': old.traits.self_traits}
        self.add_server(rack_idx, spec, name=name)

    def op_down(self, idx):
        servers = self.servers()
        loaded = sorted(n for n, srv in servers.items()
                        if srv.apps and srv.state is not scheduler.State.down)
        if loaded and idx % 4:
            server = servers[loaded[idx % len(loaded)]]
        else:
            server = self._server(idx)
        self._down(server)

    def _down(self, server):
        if server is None or server.state is scheduler.State.down:
            return
        t_lo = self.clock.peek()
        # Loader.adjust_presence / adjust_server_state for a vanished node
        server.state = scheduler.State.down
        for label in server.labels:
            self.cell.partitions[label].remove(server)
        self.down_since[server.name] = (t_lo, self.clock.peek())

    def op_fdown(self, idx):
        """Like down, aimed at a frozen server that hosts instances."""
        servers = self.servers()
        frozen = sorted(n for n, srv in servers.items()
                        if srv.apps and srv.state is scheduler.State.frozen)
        if not frozen:
            return self.op_down(idx)
        return self._down(servers[frozen[idx % len(frozen)]])

    def op_up(self, idx):
        server = self._server(idx)
        if server is None or server.state is not scheduler.State.down:
            return
        server.state = scheduler.State.up
        for label in server.labels:
            self.cell.partitions[label].add(server, None)
        self.down_since.pop(server.name, None)

    def op_reslot(self, idx, day):
        """The reboot slot of an up server is assigned again, the way
        Loader.set_server_valid_until does after a presence change: with the
        date found in the presence node (any reboot date an earlier master
        chose; here: 23:59:59 UTC `day` days from today) or, if there is no
        such slot, wherever Partition.add puts it. Aimed at servers that host
        instances with a lease."""
        servers = self.servers()
        leased = sorted(
            n for n, srv in servers.items()
            if srv.state is scheduler.State.up and any(
                self.decl_apps[a]['lease'] for a in srv.apps))
        if leased and idx % 4:
            server = servers[leased[idx % len(leased)]]
        else:
            server = self._server(idx)
        if server is None or server.state is not scheduler.State.up:
            return
        now = self.clock.peek()
        stamp = None
        if day is not None:
            stamp = float(int(now // 86400) * 86400 + day * 86400 + 86399)
        for label in server.labels:
            self.cell.partitions[label].remove(server)
            self.cell.partitions[label].add(server, stamp)
        self.stats_count('reslot')

    def op_freeze(self, idx, app_idxs):
        server = self._server(idx)
        if server is None or server.state is scheduler.State.down:
            return
        # Master._freeze_server
        names = sorted(server.apps)
        for aidx in app_idxs:
            if names:
                server.apps[names[aidx % len(names)]].unschedule = True
                self.marked.add((server.name, names[aidx % len(names)]))
        server.set_state(scheduler.State.frozen, self.clock.time())

    def op_unfreeze(self, idx):
        server = self._server(idx)
        if server is None or server.state is not scheduler.State.frozen:
            return
        server.set_state(scheduler.State.up, self.clock.time())

    def op_bl(self, idx, flag):
        app = self._app(idx)
        # aim: instances that hold an identity (and, first of all, those that
        # lost their server outside a cycle) are the interesting targets
        holders = [n for n in self.app_order
                   if self.cell.apps[n].identity is not None]
        orphans = [n for n in holders if self.cell.apps[n].server is None]
        if orphans and idx % 2:
            app = self.cell.apps[orphans[idx % len(orphans)]]
        elif holders and idx % 3:
            app = self.cell.apps[holders[idx % len(holders)]]
        if app is not None:
            app.blacklisted = bool(flag)

    def op_renew(self, idx):
        app = self._app(idx)
        # aim: placed instances that asked for a lease (a renewal can fail
        # only for them), identity holders first
        leased = [n for n in self.app_order
                  if self.cell.apps[n].server and self.decl_apps[n]['lease']]
        holders = [n for n in leased
                   if self.cell.apps[n].identity is not None]
        if holders and idx % 4 in (1, 2):
            app = self.cell.apps[holders[idx % len(holders)]]
        elif leased and idx % 4 == 3:
            app = self.cell.apps[leased[idx % len(leased)]]
        if app is not None and app.server:
            app.renew = True

    def op_idg(self, gidx, count):
        name = 'g%d' % gidx
        self.cell.configure_identity_group(name, count)
        self.groups[name] = count

    def op_rmidg(self, gidx):
        name = 'g%d' % gidx
        self.cell.remove_identity_group(name)
        self.groups[name] = None

    def op_strat(self, bidx, aff_i, kind):
        nodes = [self.cell] + self.buckets
        node = nodes[bidx % len(nodes)]
        aff = self.affs[aff_i % len(self.affs)]
        strategy = (scheduler.PackStrategy if kind == 'pack'
                    else scheduler.SpreadStrategy)
        node.set_affinity_strategy(aff['name'], strategy)

    def op_adv(self, seconds):
        self.clock.advance(seconds)

    def op_adv_ret(self, idx, delta):
        """Advance to delta seconds around the retention expiry of an app on
        a down server."""
        servers = self.servers()
        cands = [name for name in self.app_order
                 if self.cell.apps[name].server in servers and
                 servers[self.cell.apps[name].server].state is
                 scheduler.State.down and
                 self.cell.apps[name].data_retention_timeout]
        if not cands:
            return
        app = self.cell.apps[cands[idx % len(cands)]]
        server = servers[app.server]
        ret = app.data_retention_timeout
        if ret is None:
            return
        _state, since = server.get_state()
        target = since + ret + delta
        now = self.clock.peek()
        if target > now:
            self.clock.advance(target - now)

    def op_tick(self):
        now = self.clock.time()
        for partition in self.cell.partitions.values():
            partition.tick(now)

    def op_cycle(self):
        return self.cycle()

    # -- cycle with capture ------------------------------------------------
    def stats_count(self, key, amount=1):
        if self.stats is not None:
            self.stats.count(key, amount)

    def on_cycle(self, info):
        self.last_info = info

    def _prune_marks(self):
        """A mark is about an instance on a server; it ends when the instance
        leaves that server."""
        self.marked = {
            (srv, name) for srv, name in self.marked
            if name in self.cell.apps and self.cell.apps[name].server == srv
        }

    def cycle(self):
        capture.activate(self)
        try:
            self.cell.schedule()
        except Violation:
            raise
        except Exception as err:  # pylint: disable=broad-except
            raise Violation(
                'crash.%s.%s' % (type(err).__name__, _where(err)),
                'scheduling cycle did not complete: %r at %s' %
                (err, _where(err)))
        finally:
            capture.deactivate()
        info = self.last_info
        self.cycles += 1
        self.stats_count('cycles')
        for name, (srv, _exp, _ident) in info.after.items():
            bsrv = info.before[name][0]
            if bsrv != srv:
                if bsrv is None:
                    self.stats_count('placed')
                elif srv is None:
                    self.stats_count('lost_placement')
                else:
                    self.stats_count('moved')
        for obs in self.observers:
            obs(self, info)
        self._prune_marks()
        return info

    def run(self, stats=None):
        self.stats = stats
        for op in self.case['ops']:
            self.stats_count('op:' + op[0])
            self.apply(op)
        return self


def demand_of(sim, name):
    return np.array(sim.decl_apps[name]['demand'], dtype=float)
