"""Oracles for the scheduler properties, recomputed from the leaves.

Every function takes a *view* of the model and raises run.Violation. The view
(pbt.cellsim.CellSim or pbt.mastersim.MasterSim) provides

    view.cell                 the scheduler.Cell under test
    view.decl_servers[name]   {'cap': [m, c, d], 'label': str, 'traits': int}
    view.decl_apps[name]      {'demand', 'aff', 'limits', 'lease', 'retention',
                               'group', 'traits' (instance|allocation),
                               'label' (partition of its allocation)}
    view.group_count(name)    declared size of an identity group (0 if absent)

None of the checks reads the scheduler's aggregates (bucket free capacity,
affinity counters, identity sets) except to compare them with the recomputed
truth.
"""

import collections
import sys

import numpy as np

from treadmill import scheduler

from pbt.run import Violation

UNPLACED = sys.maxsize
INF = float('inf')


def walk(node, servers, buckets):
    for child in node.children:
        if child is None:
            continue
        if isinstance(child, scheduler.Server):
            servers[child.name] = child
        else:
            buckets.append(child)
            walk(child, servers, buckets)


def tree(cell):
    servers, buckets = {}, [cell]
    walk(cell, servers, buckets)
    return servers, buckets


def subtree_servers(node):
    if isinstance(node, scheduler.Server):
        return [node]
    res = []
    for child in node.children:
        if child is not None:
            res.extend(subtree_servers(child))
    return res


# ---------------------------------------------------------------- C01
def c01(view, info=None):
    """No oversubscription; the two placement views agree."""
    cell = view.cell
    servers, _ = tree(cell)
    seen = {}
    for sname, server in sorted(servers.items()):
        decl = view.decl_servers.get(sname)
        if decl is None:
            raise Violation('c01.unknown-server',
                            'server %s in the tree was never declared' % sname)
        cap = np.array(decl['cap'], dtype=float)
        total = np.zeros(3)
        for aname, app in sorted(server.apps.items()):
            if aname not in cell.apps:
                raise Violation(
                    'c01.lingering',
                    '%s is on %s but is not a scheduled instance' %
                    (aname, sname))
            if cell.apps[aname] is not app:
                raise Violation('c01.alias',
                                '%s on %s is a stale object' % (aname, sname))
            if app.server != sname:
                raise Violation(
                    'c01.views',
                    '%s is in %s.apps but says server=%r' %
                    (aname, sname, app.server))
            if aname in seen:
                raise Violation(
                    'c01.twice',
                    '%s is on two servers: %s and %s' %
                    (aname, seen[aname], sname))
            seen[aname] = sname
            total = total + np.array(view.decl_apps[aname]['demand'],
                                     dtype=float)
        for dim in range(3):
            if total[dim] > cap[dim]:
                raise Violation(
                    'c01.oversubscribed',
                    '%s dim %d: demand %s > capacity %s (apps %s)' %
                    (sname, dim, total[dim], cap[dim], sorted(server.apps)))
        free = np.array(server.free_capacity, dtype=float)
        if not np.array_equal(free, cap - total):
            raise Violation(
                'c01.free',
                '%s reports free %s, declared capacity %s minus placed %s' %
                (sname, free.tolist(), cap.tolist(), total.tolist()))
    for aname, app in sorted(cell.apps.items()):
        if app.server is None:
            continue
        if app.server not in servers:
            raise Violation(
                'c01.ghost-server',
                '%s says server=%s which is not in the cell' %
                (aname, app.server))
        if aname not in servers[app.server].apps:
            raise Violation(
                'c01.views',
                '%s says server=%s but is not in its apps' %
                (aname, app.server))


# ---------------------------------------------------------------- C03
def app_label(view, name):
    return view.decl_apps[name]['label']


def app_traits(view, name):
    return view.decl_apps[name]['traits']


def server_ok_for(view, sname, aname):
    """Partition label and traits of the declared server suit the app."""
    sdecl = view.decl_servers[sname]
    if sdecl['label'] != app_label(view, aname):
        return 'partition %s != %s' % (sdecl['label'], app_label(view, aname))
    need = app_traits(view, aname)
    if (sdecl['traits'] & need) != need:
        return 'traits %s lack %s' % (sdecl['traits'], need)
    return None


def c03(view, info):
    """Placements honour partition, traits, state and lease."""
    cell = view.cell
    servers, _ = tree(cell)
    for aname, (srv, exp, _ident) in sorted(info.after.items()):
        if srv is None:
            continue
        bsrv, bexp, _ = info.before.get(aname, (None, None, None))
        assigned = (srv != bsrv)
        if assigned:
            server = servers.get(srv)
            if server is None:
                raise Violation('c03.ghost', '%s assigned to unknown %s' %
                                (aname, srv))
            if server.state is not scheduler.State.up:
                raise Violation(
                    'c03.state',
                    '%s was assigned to %s which is %s' %
                    (aname, srv, server.state.value))
            why = server_ok_for(view, srv, aname)
            if why:
                raise Violation('c03.assign',
                                '%s was assigned to %s: %s' %
                                (aname, srv, why))
        lease = view.decl_apps[aname]['lease']
        if lease and (assigned or exp != bexp):
            server = servers[srv]
            if exp is None or not exp < server.valid_until:
                raise Violation(
                    'c03.lease',
                    '%s on %s: lease ends %s, server reboots %s' %
                    (aname, srv, exp, server.valid_until))
            # the lease the instance asked for, counted from this cycle
            if not info.c0 + lease < server.valid_until:
                raise Violation(
                    'c03.lease-short',
                    '%s asked for a lease of %ss and was %s %s at %s, but '
                    'the server is due for reboot at %s' % (
                        aname, lease, 'assigned to' if assigned else
                        'renewed on', srv, info.c0, server.valid_until))
    for aname, app in sorted(cell.apps.items()):
        if app.server is None or app.server not in servers:
            continue
        why = server_ok_for(view, app.server, aname)
        if why:
            raise Violation(
                'c03.stays',
                '%s is on %s after the cycle: %s' % (aname, app.server, why))


# ---------------------------------------------------------------- C04
def c04(view, info=None):
    """Affinity limits at every level; counters equal true counts."""
    cell = view.cell
    servers, buckets = tree(cell)
    limits = {}
    for aname, app in cell.apps.items():
        if app.server is not None:
            decl = view.decl_apps[aname]
            cur = limits.setdefault(decl['aff'], {})
            for level, lim in decl['limits'].items():
                cur[level] = min(cur.get(level, INF), lim)
    for node in list(servers.values()) + buckets:
        true = collections.Counter()
        for server in subtree_servers(node):
            for aname in server.apps:
                true[view.decl_apps[aname]['aff']] += 1
        for aff, cnt in sorted(true.items()):
            lim = limits.get(aff, {}).get(node.level, INF)
            if cnt > lim:
                raise Violation(
                    'c04.limit.%s' % node.level,
                    '%s (%s) holds %d instances of %s, limit %s' %
                    (node.name, node.level, cnt, aff, lim))
        for aff in set(true) | set(node.affinity_counters):
            if node.affinity_counters[aff] != true[aff]:
                raise Violation(
                    'c04.counter',
                    '%s (%s) counter[%s]=%d, true count %d' %
                    (node.name, node.level, aff,
                     node.affinity_counters[aff], true[aff]))
        # ... and by the instances' own view (where each instance says it is)
        below = {server.name for server in subtree_servers(node)}
        mine = collections.Counter(
            view.decl_apps[aname]['aff']
            for aname, app in cell.apps.items() if app.server in below)
        for aff in set(mine) | set(node.affinity_counters):
            if node.affinity_counters[aff] != mine[aff]:
                raise Violation(
                    'c04.counter',
                    '%s (%s) counter[%s]=%d, but %d instances say they are '
                    'placed below it' %
                    (node.name, node.level, aff,
                     node.affinity_counters[aff], mine[aff]))


# ---------------------------------------------------------------- C05
def c05(view, info=None):
    """Identities unique, in range, held only by placed instances."""
    cell = view.cell
    by_group = collections.defaultdict(list)
    for aname, app in sorted(cell.apps.items()):
        gname = view.decl_apps[aname]['group']
        if gname is None:
            if app.identity is not None:
                raise Violation('c05.nogroup', '%s has identity %r but no '
                                'group' % (aname, app.identity))
            continue
        by_group[gname].append(app)
    for gname, apps in sorted(by_group.items()):
        count = view.group_count(gname)
        held = {}
        for app in apps:
            if app.server is not None and app.identity is None:
                raise Violation(
                    'c05.placed-without',
                    '%s is placed on %s without an identity of %s' %
                    (app.name, app.server, gname))
            if app.server is None and app.identity is not None:
                raise Violation(
                    'c05.leak',
                    '%s is not placed but holds identity %s of %s' %
                    (app.name, app.identity, gname))
            if app.identity is None:
                continue
            if app.identity in held:
                raise Violation(
                    'c05.duplicate',
                    '%s and %s both hold identity %s of %s' %
                    (held[app.identity], app.name, app.identity, gname))
            held[app.identity] = app.name
            if not 0 <= app.identity < count:
                raise Violation(
                    'c05.range',
                    '%s holds identity %s of %s, count %s' %
                    (app.name, app.identity, gname, count))
        group = cell.identity_groups.get(gname)
        if group is not None:
            expect = set(range(count)) - set(held)
            if set(group.available) != expect:
                raise Violation(
                    'c05.available',
                    'group %s (count %s): available %s, free by truth %s' %
                    (gname, count, sorted(group.available), sorted(expect)))


# ---------------------------------------------------------------- helpers
def queue_rank(info):
    ranks = {}
    for _label, entries in info.queues:
        for name, rank, _srv in entries:
            ranks[name] = rank
    return ranks


def eligible(view, info, aname, ranks):
    """The instance is not one a cycle may remove for its own reasons."""
    flags = info.flags_before.get(aname)
    if flags is None or aname not in view.cell.apps:
        return False
    if flags['blacklisted']:
        return False
    if flags['renew'] and view.decl_apps[aname]['lease']:
        # a requested lease renewal may fail; without a lease there is
        # nothing that can fail
        return False
    if ranks.get(aname) == UNPLACED or aname not in ranks:
        return False
    decl = view.decl_apps[aname]
    ident = info.before[aname][2]
    if decl['group'] is not None:
        if ident is None or ident >= view.group_count(decl['group']):
            return False
    return True


# ---------------------------------------------------------------- C07
def c07(view, info):
    """A running instance is displaced only for one ahead of it."""
    ranks = queue_rank(info)
    for _label, entries in info.queues:
        gained = False
        for name, _rank, _srv in entries:
            before = info.before[name][0]
            after = info.after[name][0] if name in info.after else None
            if before is not None and before != after:
                state = info.server_state_before.get(before)
                if (state is not None and
                        state[0] is scheduler.State.up and
                        eligible(view, info, name, ranks) and
                        server_ok_for(view, before, name) is None and
                        not gained):
                    raise Violation(
                        'c07.displaced',
                        '%s was on %s (up) and is now on %r although no '
                        'instance ahead of it in the queue gained a '
                        'placement' % (name, before, after))
            if after is not None and after != before:
                gained = True


# ---------------------------------------------------------------- C08
def c08(view, info):
    """Retention on down servers, frozen servers, blacklist."""
    cell = view.cell
    servers, _ = tree(cell)
    ranks = queue_rank(info)
    for aname, (bsrv, _bexp, _bid) in sorted(info.before.items()):
        if aname not in cell.apps:
            continue
        asrv = info.after[aname][0]
        flags = info.flags_before[aname]
        if asrv is not None and flags['blacklisted']:
            raise Violation('c08.blacklisted',
                            '%s is blacklisted but on %s after the cycle' %
                            (aname, asrv))
        truth = getattr(view, 'blacklisted_by_truth', None)
        if asrv is not None and truth is not None and truth(aname):
            raise Violation('c08.blacklisted',
                            '%s matches the blacklist the master loaded (%s) '
                            'but is on %s after the cycle' %
                            (aname, view.bl_loaded, asrv))
        if asrv is not None and asrv != bsrv and \
                asrv in getattr(view, 'frozen_by_admin', ()):
            # ground truth: the admin froze the server and every event had
            # been processed before this cycle
            raise Violation(
                'c08.new-on-frozen-by-admin',
                '%s was placed on %s, which the admin froze (the event was '
                'processed before this cycle); the model has it %s' %
                (aname, asrv, servers[asrv].state.value))
        if asrv is not None and asrv != bsrv:
            if servers[asrv].state is not scheduler.State.up:
                raise Violation(
                    'c08.new-on-not-up',
                    '%s was placed on %s which is %s' %
                    (aname, asrv, servers[asrv].state.value))
        if bsrv is None or bsrv not in info.server_state_before:
            continue
        state, _since = info.server_state_before[bsrv]
        if not eligible(view, info, aname, ranks):
            continue
        if server_ok_for(view, bsrv, aname) is not None:
            continue
        episode = view.down_since.get(bsrv)
        if episode is not None:
            # ground truth: the server is down (whatever the model thinks)
            ret = view.decl_apps[aname]['retention']
            t_lo, t_hi = episode
            if ret is not None and t_lo + ret > info.c1:
                if asrv != bsrv:
                    raise Violation(
                        'c08.retention-early',
                        '%s left %s (down since >= %s, retention %s) at '
                        '%s: now on %r' % (aname, bsrv, t_lo, ret,
                                           info.c1, asrv))
            elif ret is None or t_hi + ret <= info.c0:
                if asrv == bsrv:
                    raise Violation(
                        'c08.retention-late',
                        '%s is still on %s (down since <= %s, retention %s, '
                        'model state %s) at %s' % (
                            aname, bsrv, t_hi, ret, state.value, info.c0))
        elif state is scheduler.State.frozen:
            marked = flags['unschedule']
            if hasattr(view, 'marked'):
                # ground truth: named in a freeze request while on this server
                marked = (bsrv, aname) in view.marked
            if not marked and asrv != bsrv:
                raise Violation(
                    'c08.frozen-moved',
                    '%s left frozen server %s (now %r) without being '
                    'marked' % (aname, bsrv, asrv))


# ---------------------------------------------------------------- C02
def fits(view, aname, now):
    """Name of a leaf server that can take the instance, by ground truth
    recomputed from the leaves, or None."""
    found = fitting(view, aname, now)
    return found[0] if found else None


def fitting(view, aname, now):
    """All leaf servers that can take the instance, by ground truth."""
    cell = view.cell
    servers, _ = tree(cell)
    decl = view.decl_apps[aname]
    demand = decl['demand']
    gname = decl['group']
    if gname is not None:
        held = set()
        for other, app in cell.apps.items():
            if other != aname and app.server is not None and \
                    view.decl_apps[other]['group'] == gname and \
                    app.identity is not None:
                held.add(app.identity)
        if not set(range(view.group_count(gname))) - held:
            return []
    found = []
    for sname, server in sorted(servers.items()):
        if server.state is not scheduler.State.up:
            continue
        sdecl = view.decl_servers.get(sname)
        if sdecl is None:
            continue
        if server_ok_for(view, sname, aname) is not None:
            continue
        if decl['lease'] and not now + decl['lease'] < server.valid_until:
            continue
        used = [0, 0, 0]
        for other in server.apps:
            for dim in range(3):
                used[dim] += view.decl_apps[other]['demand'][dim]
        if any(used[d] + demand[d] > sdecl['cap'][d] for d in range(3)):
            continue
        node = server
        ok = True
        while node is not None:
            limit = decl['limits'].get(node.level, INF)
            if limit != INF:
                count = 0
                for leaf in subtree_servers(node):
                    for other in leaf.apps:
                        if view.decl_apps[other]['aff'] == decl['aff']:
                            count += 1
                if not count < limit:
                    ok = False
                    break
            node = node.parent
        if ok:
            found.append(sname)
    return found
