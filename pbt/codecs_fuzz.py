"""atheris driver for the C15 string decoders (thorough tier only).

    python -m pbt.codecs_fuzz <decoder> <result.json> [libFuzzer flags]

Runs coverage-guided search over ``codecs.fuzz_one(decoder, text)`` and writes
{"execs", "ok", "reject", "raises", "flagged", "findings": [text, ...]} to
result.json.  A flagged input does not stop the search; the caller turns each
finding into an ordinary ``{"codec": "fuzz", ...}`` case, so it is judged,
reported and replayed by ./check without atheris.
"""

import atexit
import json
import logging
import os
import sys


def main(argv):
    decoder, out_path = argv[1], argv[2]
    flags = argv[3:]
    logging.disable(logging.CRITICAL)

    import atheris

    with atheris.instrument_imports(
            include=['treadmill.rulefile', 'treadmill.firewall',
                     'treadmill.appcfg', 'treadmill.utils',
                     'treadmill.trace.app.events',
                     'treadmill.trace.server.events', 'treadmill.zkutils']):
        from treadmill import rulefile  # noqa: F401
        from treadmill import appcfg  # noqa: F401
        from treadmill import zkutils  # noqa: F401
        from treadmill.trace.app import events as _a  # noqa: F401
        from treadmill.trace.server import events as _s  # noqa: F401

    from pbt import codecs
    from pbt.run import Violation

    result = {'decoder': decoder, 'execs': 0, 'ok': 0, 'reject': 0,
              'raises': 0, 'flagged': 0, 'findings': []}

    def _flush():
        tmp = out_path + '.tmp'
        with open(tmp, 'w') as fh:
            json.dump(result, fh)
        os.replace(tmp, out_path)

    atexit.register(_flush)

    def one_input(data):
        # plain utf-8 so that libFuzzer's byte mutations (and the dictionary)
        # act directly on the grammar of the names
        text = data.decode('utf-8', 'ignore')
        result['execs'] += 1
        if result['execs'] % 2000 == 0:
            # libFuzzer leaves through _exit(): no atexit, no finally
            _flush()
        try:
            verdict = codecs.fuzz_one(decoder, text)
            result[verdict] += 1
        except Violation:
            result['flagged'] += 1
            if len(result['findings']) < 20 and \
                    text not in result['findings']:
                result['findings'].append(text)
                _flush()

    seeds = [text for name, text in codecs.FUZZ_SEEDS if name == decoder]
    corpus = out_path + '.corpus'
    os.makedirs(corpus, exist_ok=True)
    for idx, text in enumerate(seeds):
        with open(os.path.join(corpus, 'seed-%d' % idx), 'wb') as fh:
            fh.write(text.encode('utf-8'))
    tokens = out_path + '.dict'
    with open(tokens, 'w') as fh:
        for token in codecs.FUZZ_TOKENS:
            fh.write('"%s"\n' % token.replace('\\', '\\\\').replace(
                '"', '\\"'))
    atheris.Setup([argv[0]] + flags + ['-dict=' + tokens, corpus], one_input)
    try:
        atheris.Fuzz()
    finally:
        _flush()


if __name__ == '__main__':
    main(sys.argv)
