"""Runner shared by every property check.

A property module (pbt/props/cNN.py) exposes

    ID, LEVEL, RULE, ASSUMPTIONS           -- strings / lists for the evidence
    BUDGET = {'quick': n, 'thorough': n}   -- generated cases in total
    strategy(tier)                         -- hypothesis strategy of JSON-able cases
    execute(case, stats)                   -- runs one case against /repo; raises
                                              Violation(bucket, message); returns
                                              True iff the case was non-trivial
    fixed_cases()                          -- optional: [(name, case)] aimed cases

The runner
  1. replays committed regression inputs (replays/<ID>-*.json) and the aimed
     cases without Hypothesis,
  2. runs the generated search in N shard processes, each seeded from
     (VERIF_SEED, shard), database=None, deadline=None,
  3. buckets violations: buckets listed as status=known in known_findings.json
     are counted and skipped (KNOWN-FINDING lines), anything else is shrunk by
     Hypothesis, written to replays/ and reported as VIOLATION (exit 1),
  4. writes evidence/<ID>.json.

Exit codes: 0 held, 1 violation, 2 harness error (never prints VIOLATION).
"""

import collections
import hashlib
import importlib
import json
import multiprocessing
import os
import sys
import time
import traceback

VERIF = os.path.dirname(os.path.dirname(os.path.abspath(__file__)))
REPO = os.environ.get('VERIF_REPO', '/repo')

QUICK_SHARDS = 8
THOROUGH_SHARDS = 16


class Violation(Exception):
    """A property violation found on the code under test."""

    def __init__(self, bucket, message, detail=None):
        super(Violation, self).__init__('%s: %s' % (bucket, message))
        self.bucket = bucket
        self.message = message
        self.detail = detail


class Discard(Exception):
    """The generated case is outside the property's domain (counted)."""


class Stats(object):
    """Counters, non-trivial digests and samples of one shard."""

    def __init__(self):
        self.counters = collections.Counter()
        self.digests = set()
        self.samples = []
        self.known = collections.Counter()
        self.known_examples = {}

    def count(self, key, amount=1):
        self.counters[key] += amount

    def nontrivial(self, case, klass=None):
        dig = digest(case)
        if dig not in self.digests:
            self.digests.add(dig)
            if len(self.samples) < 3:
                self.samples.append(case)
        if klass:
            self.counters['class:' + klass] += 1

    def export(self):
        return {
            'counters': dict(self.counters),
            'digests': list(self.digests),
            'samples': self.samples,
            'known': dict(self.known),
            'known_examples': self.known_examples,
        }


def canon(case):
    return json.dumps(case, sort_keys=True, separators=(',', ':'),
                      default=repr)


def digest(case):
    return hashlib.sha1(canon(case).encode()).hexdigest()[:16]


def derive_seed(seed, shard):
    raw = hashlib.sha256(('%d/%d' % (seed, shard)).encode()).digest()
    return int.from_bytes(raw[:8], 'big')


def load_known(prop_id):
    path = os.path.join(VERIF, 'known_findings.json')
    try:
        with open(path) as fh:
            data = json.load(fh)
    except IOError:
        return {}
    known = {}
    for entry in data.get('findings', []):
        if entry.get('status') == 'known' and entry.get('property') == prop_id:
            known[entry['bucket']] = entry
    return known


def _prepare_env():
    os.environ['TZ'] = 'UTC'
    time.tzset()
    import logging
    logging.disable(logging.CRITICAL)
    import warnings
    warnings.simplefilter('ignore')


def _load(prop_id):
    return importlib.import_module('pbt.props.%s' % prop_id.lower())


def _shard_main(args):
    """Runs in a worker process; returns a plain dict."""
    prop_id, tier, seed, shard, n_cases, known_buckets = args
    try:
        _prepare_env()
        mod = _load(prop_id)
        import hypothesis
        from hypothesis import HealthCheck, Phase, settings

        stats = Stats()
        found = {}

        def body(case):
            stats.count('evaluations')
            try:
                nontrivial = mod.execute(case, stats)
            except Discard:
                stats.count('discarded')
                return
            except Violation as vio:
                if vio.bucket in known_buckets:
                    stats.known[vio.bucket] += 1
                    stats.known_examples.setdefault(vio.bucket, vio.message)
                    stats.count('excluded_known')
                    return
                found['case'] = case
                found['bucket'] = vio.bucket
                found['message'] = vio.message
                raise
            if nontrivial:
                stats.nontrivial(case)

        phases = [Phase.generate, Phase.shrink]
        if os.environ.get('VERIF_NOSHRINK'):
            # sensitivity sweeps (mutants/automut.py) only need the verdict
            phases = [Phase.generate]
        sett = settings(
            max_examples=n_cases, database=None, deadline=None,
            report_multiple_bugs=False, phases=phases,
            suppress_health_check=list(HealthCheck), derandomize=False,
            print_blob=False,
        )
        test = hypothesis.seed(derive_seed(seed, shard))(
            sett(hypothesis.given(mod.strategy(tier))(body))
        )
        t0 = time.time()
        try:
            test()
        except Violation:
            pass
        except BaseException as err:  # pylint: disable=broad-except
            # Hypothesis reports a failure it cannot reproduce (Flaky...) when
            # the code under test carries state from one case to the next.
            # A violation was observed on real code: report it, and say so.
            if not found or 'lak' not in type(err).__name__:
                raise
            found['message'] = (
                '%s [not reproducible in isolation: the code under test '
                'carries state across cases (%s)]' % (
                    found['message'], type(err).__name__))
        out = stats.export()
        out['wall_s'] = time.time() - t0
        out['shard'] = shard
        if found:
            out['found'] = found
        return out
    except BaseException:  # pylint: disable=broad-except
        return {'error': traceback.format_exc(), 'shard': shard}


def run_one(mod, case, known):
    """Execute one explicit case. Returns (status, bucket, message)."""
    stats = Stats()
    try:
        mod.execute(case, stats)
    except Discard:
        return 'discard', None, None, stats
    except Violation as vio:
        if vio.bucket in known:
            return 'known', vio.bucket, vio.message, stats
        return 'violation', vio.bucket, vio.message, stats
    return 'ok', None, None, stats


def write_replay(prop_id, case, bucket, message, seed):
    rdir = os.environ.get('VERIF_REPLAY_DIR') or \
        os.path.join(VERIF, 'replays', 'found')
    os.makedirs(rdir, exist_ok=True)
    name = '%s-%s.json' % (prop_id, digest(case))
    path = os.path.join(rdir, name)
    with open(path, 'w') as fh:
        json.dump({
            'property': prop_id,
            'bucket': bucket,
            'message': message,
            'seed': seed,
            'pythonhashseed': os.environ.get('PYTHONHASHSEED'),
            'case': case,
        }, fh, indent=1, sort_keys=True, default=repr)
    return path


def regression_files(prop_id):
    rdir = os.path.join(VERIF, 'replays')
    if not os.path.isdir(rdir):
        return []
    return sorted(
        os.path.join(rdir, name) for name in os.listdir(rdir)
        if name.startswith(prop_id + '-') and name.endswith('.json')
    )


def main(argv=None):
    argv = list(sys.argv[1:] if argv is None else argv)
    if len(argv) < 2:
        print('usage: run.py <Cxx> <quick|thorough> | <Cxx> --replay FILE')
        return 2
    prop_id = argv[0].upper()
    seed = int(os.environ.get('VERIF_SEED', '1') or '1')

    sys.path.insert(0, os.path.join(REPO, 'lib', 'python'))
    _prepare_env()
    try:
        mod = _load(prop_id)
    except BaseException:  # pylint: disable=broad-except
        traceback.print_exc()
        print('HARNESS-ERROR property=%s cannot import check' % prop_id)
        return 2

    known = load_known(prop_id)

    if argv[1] == '--replay':
        with open(argv[2]) as fh:
            data = json.load(fh)
        case = data['case'] if isinstance(data, dict) and 'case' in data \
            else data
        try:
            status, bucket, message, _ = run_one(mod, case, {})
        except BaseException:  # pylint: disable=broad-except
            traceback.print_exc()
            return 2
        if status == 'violation':
            print('bucket=%s %s' % (bucket, message))
            print('VIOLATION property=%s replay=%s' % (prop_id, argv[2]))
            return 1
        print('replay ok: property=%s (%s)' % (prop_id, status))
        return 0

    tier = argv[1]
    assert tier in ('quick', 'thorough')
    t_start = time.time()
    total = Stats()
    violations = []
    known_hits = collections.Counter()
    known_msgs = {}

    # 1. regression tier: committed replays and aimed cases, no Hypothesis.
    explicit = []
    for path in regression_files(prop_id):
        with open(path) as fh:
            data = json.load(fh)
        explicit.append((os.path.relpath(path, VERIF), data['case']))
    if hasattr(mod, 'fixed_cases'):
        explicit.extend(mod.fixed_cases())
    for name, case in explicit:
        try:
            status, bucket, message, stats = run_one(mod, case, known)
        except BaseException:  # pylint: disable=broad-except
            traceback.print_exc()
            print('HARNESS-ERROR property=%s regression case %s' %
                  (prop_id, name))
            return 2
        total.count('regression_cases')
        total.counters.update(stats.counters)
        if status == 'known':
            known_hits[bucket] += 1
            known_msgs.setdefault(bucket, message)
        elif status == 'violation':
            path = write_replay(prop_id, case, bucket, message, seed)
            violations.append((bucket, message, path))

    # 2. generated search.
    n_total = mod.BUDGET[tier]
    scale = float(os.environ.get('VERIF_SCALE', '1'))
    n_total = max(1, int(n_total * scale))
    nshards = QUICK_SHARDS if tier == 'quick' else THOROUGH_SHARDS
    nshards = int(os.environ.get('VERIF_SHARDS', nshards))
    per_shard = max(1, n_total // nshards)
    jobs = [(prop_id, tier, seed, shard, per_shard, set(known))
            for shard in range(nshards)]
    procs = min(nshards, os.cpu_count() or 1)
    if not violations:
        ctx = multiprocessing.get_context('fork')
        with ctx.Pool(procs) as pool:
            results = pool.map(_shard_main, jobs, chunksize=1)
    else:
        results = []

    digests = set()
    samples = []
    for res in results:
        if 'error' in res:
            print(res['error'])
            print('HARNESS-ERROR property=%s shard=%s' %
                  (prop_id, res['shard']))
            return 2
        total.counters.update(res['counters'])
        digests.update(res['digests'])
        for smp in res['samples']:
            if len(samples) < 4:
                samples.append(smp)
        for bucket, cnt in res['known'].items():
            known_hits[bucket] += cnt
            known_msgs.setdefault(bucket, res['known_examples'].get(bucket))
        if 'found' in res:
            fnd = res['found']
            path = write_replay(prop_id, fnd['case'], fnd['bucket'],
                                fnd['message'], seed)
            violations.append((fnd['bucket'], fnd['message'], path))

    wall = time.time() - t_start
    counters = dict(total.counters)
    evaluations = counters.get('evaluations', 0) + \
        counters.get('regression_cases', 0)
    if not samples and explicit:
        samples = [explicit[0][1]]
    coverage = {
        'evaluations': evaluations,
        'distinct_nontrivial': len(digests),
        'rule': mod.RULE,
        'samples': samples,
        'generated_cases': counters.get('evaluations', 0),
        'regression_cases': counters.get('regression_cases', 0),
        'shards': nshards,
        'counters': {k: v for k, v in sorted(counters.items())},
        'excluded_known': counters.get('excluded_known', 0),
        'known_finding_hits': dict(known_hits),
        'trusted_base': getattr(mod, 'TRUSTED', []),
    }
    if hasattr(mod, 'extra_coverage'):
        coverage.update(mod.extra_coverage(counters))
    evidence = {
        'property_id': prop_id,
        'tier': tier,
        'seed': seed,
        'level': mod.LEVEL,
        'coverage': coverage,
        'assumptions': list(mod.ASSUMPTIONS),
        'wall_s': round(wall, 2),
        'violations': len(violations),
    }
    evdir = os.environ.get('VERIF_EVIDENCE_DIR') or \
        os.path.join(VERIF, 'evidence')
    os.makedirs(evdir, exist_ok=True)
    with open(os.path.join(evdir, '%s.json' % prop_id), 'w') as fh:
        json.dump(evidence, fh, indent=1, sort_keys=True, default=repr)

    for bucket, cnt in sorted(known_hits.items()):
        entry = known.get(bucket, {})
        print('KNOWN-FINDING: property=%s %s [bucket=%s hits=%d]' % (
            prop_id, entry.get('what', known_msgs.get(bucket)), bucket, cnt))
    print('%s %s: %d cases (%d distinct non-trivial), %d known-finding hits, '
          '%d violation(s), %.1fs' % (
              prop_id, tier, evaluations, len(digests),
              sum(known_hits.values()), len(violations), wall))
    if violations:
        seen = set()
        for bucket, message, path in violations:
            if bucket in seen:
                continue
            seen.add(bucket)
            print('bucket=%s %s' % (bucket, message))
            print('VIOLATION property=%s replay=%s' % (
                prop_id, os.path.relpath(path, VERIF)))
        return 1
    if len(digests) < 2:
        print('HARNESS-ERROR property=%s generator produced %d non-trivial '
              'cases' % (prop_id, len(digests)))
        return 2
    return 0


if __name__ == '__main__':
    sys.exit(main())
