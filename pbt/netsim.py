"""E3 (network part): one node's host-side network registrations.

A `World` holds a temp treadmill root with a real `rulefile.RuleMgr` and a real
`endpoints.EndpointsMgr`, and drives the two real entry points

    treadmill.runtime.linux._run.run(tm_env, runtime_config, data_dir, manifest)
    treadmill.runtime.linux._finish.finish(tm_env, container_dir)

exactly as `LinuxRuntime._run / _finish` (called by `treadmill sproc run` /
`sproc finish`) do.  Everything behind a process / kernel boundary is an
in-memory stand-in, and EVERY call that crosses such a boundary first goes
through `World.boundary(label)`, which counts it and can inject a fault there:

  label                     stand-in
  ------------------------  -------------------------------------------------
  cgroup|localdisk|presence `FakeRsrcClient` behind `tm_env.svc_*.make_client`
    .put/.wait/.get/.delete
  net.put/.wait/.get/.delete `FakeNetClient`: vip pool, lowest free vip first,
                            `get` returns None after `delete`, `wait` for a
                            resource nobody requested times out (as the real
                            client does after DEFAULT_TIMEOUT)
  cgroups.join              `_run.cgroups`
  image.get / image.unpack  `_run.image`
  socket.bind               `FakeSocketModule` = the name `socket` in
                            `treadmill.runtime` (EADDRINUSE for busy / bound)
  (none)                    `FakeSampler` = the name `random` in
                            `treadmill.runtime`; `sample(pool, k)` returns a
                            permutation whose head is chosen by the case
  rules.create_rule/.unlink_rule, endpoints.create_spec/.unlink_spec/.unlink_all
                            the REAL managers behind a counting proxy
  ipset.add / ipset.rm      `iptables.add_ip_set / rm_ip_set` (`-exist`)
  conntrack.flush           `iptables.flush_cnt_conntrack_table`
  resolve                   `FakeResolver` = `socket` in _run / _finish
  plugin.apply/.cleanup     firewall plugin from `plugin_manager.load` (or
                            load raising, as on a node without the plugin)
  newnet                    `newnet.create_newnet`
  fs.blk_fs_test/.blk_fs_create/.mount/.cleanup_mounts, unshare
                            `_run.fs_linux`, `_run.unshare`
  apphook.configure/.cleanup `_run.apphook`, `_finish.apphook`
  exec_pid1                 `_run.subproc.exec_pid1` (the process becomes pid 1)
  rrd.flush, archive_logs, trace.post
                            `_finish.rrdutils`, `runtime.archive_logs`,
                            `trace.post` as seen by _finish and appcfg.abort
  (none)                    `OsProxy`: `os` in _run with a per-container pid

A fault is an `InjectedFault` (an OSError(EIO): that one call fails before it
has any effect - the firewall plugin's cleanup excepted, see there - and the
code under test propagates or handles it as it decides) or, for a finish, also
a `Crash` (BaseException: the finishing process is killed there).  A fault
marked `native` raises what the real boundary raises when it fails
(`native_error`: a resource service client's wait() raises
`services.ResourceServiceTimeoutError`; labels without a known native failure
keep the EIO).  A start goes through the real `LinuxRuntime._run` (which turns
some exception types into `ContainerSetupError` with an abort reason), and after
a failed run `start()` does what `sproc run` does: flag the container aborted
with `err.reason` of a ContainerSetupError, 'unknown' for anything else;
the process is gone, so its sockets are closed.  What follows a finish (retry
when it raised, removal of the container directory when it returned) is the
caller's business: see props/c16.py.

Nothing here decides what is right or wrong: the oracle lives in props/c16.py
and only reads `World.snapshot()` / `World.services()`.
"""

import collections
import copy
import errno
import json
import os
import shutil
import tempfile

from treadmill import appcfg
from treadmill import endpoints as tm_endpoints
from treadmill import iptables
from treadmill import newnet
from treadmill import rulefile
from treadmill import runtime
from treadmill import services
from treadmill import utils

from treadmill import exc as tm_exc
from treadmill.appcfg import abort as app_abort
from treadmill.runtime.linux import _finish
from treadmill.runtime.linux import _run
from treadmill.runtime.linux import runtime as linux_runtime

EXT_IP = '172.31.81.67'
GATEWAY = '192.168.254.254'
VIP_FMT = '192.168.0.%d'
VIP_FIRST = 2


class Crash(BaseException):
    """The finishing process is killed (not an Exception on purpose)."""


class InjectedFault(OSError):
    """A boundary call of the start path fails."""

    def __init__(self, label):
        super(InjectedFault, self).__init__(
            errno.EIO, 'injected fault at %s' % label)
        self.label = label


def native_error(label):
    """What the real call behind a boundary label raises when it fails, for
    the labels where that is known and differs from a plain OSError: the
    wait() of every resource service client ends in ResourceServiceTimeoutError
    when the service does not answer in time.  None = no special type."""
    if label.endswith('.wait'):
        return services.ResourceServiceTimeoutError(
            'Resource %s not available in time' % label.split('.')[0])
    return None


class _Service(object):
    """What LinuxRuntime uses of supervisor.Service."""

    def __init__(self, directory, data_dir):
        self.directory = directory
        self.data_dir = data_dir


# --------------------------------------------------------------------------
# sockets / port sampling
# --------------------------------------------------------------------------

class FakeSocketModule(object):
    """Stand-in for the `socket` module as used by runtime._allocate_sockets."""

    AF_INET = 2
    SOCK_STREAM = 1
    SOCK_DGRAM = 2
    SOL_SOCKET = 1
    SO_REUSEADDR = 2
    error = OSError

    def __init__(self, busy, hook):
        # busy: set of (proto, port) held by processes outside the history
        self.busy = set(busy)
        self.bound = {}          # (proto, port) -> FakeSocket
        self.refused = 0         # EADDRINUSE answers given
        self.refused_bound = 0   # ... because a container of the history holds it
        self.created = []
        mod = self

        class FakeSocket(object):
            """One socket."""

            def __init__(self, family, sock_type):
                assert family == mod.AF_INET
                assert sock_type in (mod.SOCK_STREAM, mod.SOCK_DGRAM)
                self.proto = 'tcp' if sock_type == mod.SOCK_STREAM else 'udp'
                self.addr = None
                self.closed = False
                self.listening = False
                self.inheritable = False
                mod.created.append(self)

            def bind(self, addr):
                host, port = addr
                assert not self.closed and self.addr is None
                assert isinstance(port, int) and 0 < port < 65536
                hook('socket.bind')
                key = (self.proto, port)
                if key in mod.busy or key in mod.bound:
                    mod.refused += 1
                    if key in mod.bound:
                        mod.refused_bound += 1
                    raise OSError(errno.EADDRINUSE, 'Address already in use')
                mod.bound[key] = self
                self.addr = (host, port)

            def setsockopt(self, *_args):
                pass

            def listen(self, _backlog):
                assert self.proto == 'tcp' and self.addr is not None
                self.listening = True

            def set_inheritable(self, flag):
                self.inheritable = bool(flag)

            def getsockname(self):
                # an unbound AF_INET socket reports ('0.0.0.0', 0)
                return self.addr if self.addr is not None \
                    else ('0.0.0.0', 0)

            def close(self):
                if self.closed:
                    return
                self.closed = True
                if self.addr is not None:
                    key = (self.proto, self.addr[1])
                    if mod.bound.get(key) is self:
                        del mod.bound[key]

        self.socket = FakeSocket


class FakeSampler(object):
    """Stand-in for the `random` module as used by runtime._allocate_sockets.

    Any permutation is a possible answer of random.sample(pool, len(pool));
    the case chooses which ports come first (offsets into the pool, counted
    from the low end when >= 0 and from the high end when < 0).
    """

    def __init__(self):
        self.queue = []
        self.calls = 0

    def prime(self, orders):
        self.queue = [list(order) for order in orders]

    def sample(self, population, k):
        pool = list(population)
        self.calls += 1
        order = self.queue.pop(0) if self.queue else []
        head = []
        seen = set()
        for off in order:
            if -len(pool) <= off < len(pool):
                port = pool[off]
                if port not in seen:
                    seen.add(port)
                    head.append(port)
        for port in head:
            pool.remove(port)
        return (head + pool)[:k]


class FakeResolver(object):
    """Stand-in for `socket` in _run/_finish: only gethostbyname is used."""

    error = OSError

    def __init__(self, table, hook):
        self.table = dict(table)
        self.hook = hook

    def gethostbyname(self, host):
        self.hook('resolve')
        if host in self.table:
            return self.table[host]
        parts = host.split('.')
        if len(parts) == 4 and all(p.isdigit() for p in parts):
            return host
        raise OSError(errno.ENOENT, 'unknown host %r' % host)


# --------------------------------------------------------------------------
# kernel side: ip sets, conntrack; services: resource clients; plugin
# --------------------------------------------------------------------------

class IpSets(object):
    """`ipset -exist add/del` on named sets."""

    def __init__(self, hook):
        self.sets = {}
        self.flushed = []
        self.hook = hook

    def add_ip_set(self, target_set, add_ip):
        self.hook('ipset.add')
        self.sets.setdefault(target_set, set()).add(str(add_ip))

    def rm_ip_set(self, target_set, del_ip):
        self.hook('ipset.rm')
        self.sets.setdefault(target_set, set()).discard(str(del_ip))

    def flush_cnt_conntrack_table(self, vip):
        self.hook('conntrack.flush')
        self.flushed.append(vip)


class FakeRsrcClient(object):
    """Client of one node resource service (cgroup, localdisk, presence).

    Doubles as the service object: `tm_env.svc_x.make_client(dir)` gives it.
    """

    def __init__(self, name, reply, hook):
        self.name = name
        self.reply = reply
        self.hook = hook
        self.replies = {}

    def make_client(self, _clientdir):
        return self

    def put(self, rsrc_id, rsrc_data):
        self.hook(self.name + '.put')
        if rsrc_id not in self.replies:
            self.replies[rsrc_id] = self.allocate(rsrc_id, rsrc_data)

    def allocate(self, _rsrc_id, _rsrc_data):
        return copy.deepcopy(self.reply)

    def wait(self, rsrc_id, timeout=None):  # pylint: disable=unused-argument
        self.hook(self.name + '.wait')
        if rsrc_id not in self.replies:
            # what the real client raises once its timeout has passed
            raise services.ResourceServiceTimeoutError(
                'Resource %r not available in time' % rsrc_id)
        return copy.deepcopy(self.replies[rsrc_id])

    def get(self, rsrc_id):
        self.hook(self.name + '.get')
        rep = self.replies.get(rsrc_id)
        return copy.deepcopy(rep) if rep is not None else None

    def delete(self, rsrc_id):
        self.hook(self.name + '.delete')
        self.replies.pop(rsrc_id, None)


class FakeNetClient(FakeRsrcClient):
    """Network resource client over a vip pool (lowest free address first)."""

    def __init__(self, hook):
        super(FakeNetClient, self).__init__('net', None, hook)
        self.history = []     # (unique_name, vip) in allocation order

    def allocate(self, rsrc_id, _rsrc_data):
        used = {rep['vip'] for rep in self.replies.values()}
        idx = VIP_FIRST
        while VIP_FMT % idx in used:
            idx += 1
        vip = VIP_FMT % idx
        uniqueid = rsrc_id.rsplit('-', 1)[1]
        self.history.append((rsrc_id, vip))
        return {
            'vip': vip,
            'veth': '{id:>013s}.1'.format(id=uniqueid),
            'gateway': GATEWAY,
            'external_ip': EXT_IP,
        }


class FakePluginManager(object):
    """`plugin_manager.load` for the firewall plugin."""

    def __init__(self, mode, hook):
        self.mode = mode          # 'ok' | 'missing'
        self.rules = {}           # unique_name -> 1
        outer = self

        class Plugin(object):
            """Records exception rules by container."""

            @staticmethod
            def apply_exception_rules(_tm_env, _container_dir, app):
                hook('plugin.apply')
                outer.rules[appcfg.app_unique_name(app)] = 1

            @staticmethod
            def cleanup_exception_rules(_tm_env, _container_dir, app):
                # The plugin lives outside the repository and both call
                # sites deliberately swallow whatever it raises, so what a
                # failing plugin leaves behind is not treadmill's to answer
                # for: the 'plugin' area of the snapshot only shows whether
                # the hook was called.  Hence effect first, fault after.
                outer.rules.pop(appcfg.app_unique_name(app), None)
                hook('plugin.cleanup')

        self.plugin = Plugin

    def load(self, namespace, name):
        assert (namespace, name) == ('treadmill.firewall.plugins', 'firewall')
        if self.mode == 'missing':
            raise KeyError('no firewall plugin on this node')
        return self.plugin


class OsProxy(object):
    """`os` as seen by _run: everything real except getpid.

    In production every container is set up by its own `run` process, so the
    pid written into the endpoint spec name differs per container; the harness
    runs them all in one process, so the pid is supplied by the world.
    """

    def __init__(self):
        self.pid = 1

    def getpid(self):
        return self.pid

    def __getattr__(self, name):
        return getattr(os, name)


class _Recorder(object):
    """A module stand-in: every listed function is a counted boundary call."""

    def __init__(self, hook, functions, **constants):
        self.calls = []
        for attr, (label, result) in functions.items():
            setattr(self, attr, self._make(hook, label, result))
        for key, val in constants.items():
            setattr(self, key, val)

    def _make(self, hook, label, result):
        def call(*args, **kwargs):
            hook(label)
            self.calls.append((label, args, kwargs))
            return result(*args, **kwargs) if callable(result) else result
        return call


class _Hooked(object):
    """Delegates to a real manager; calls the world's hook before mutations."""

    def __init__(self, real, prefix, mutators, world):
        self._real = real
        self._prefix = prefix
        self._mutators = mutators
        self._world = world

    def __getattr__(self, name):
        attr = getattr(self._real, name)
        if name in self._mutators:
            world = self._world
            label = '%s.%s' % (self._prefix, name)

            def call(*args, **kwargs):
                world.boundary(label)
                return attr(*args, **kwargs)
            return call
        return attr


class TmEnv(object):
    """The attributes of appenv.AppEnvironment that the code under test uses."""

    def __init__(self, root, world):
        self.root = root
        self.data = None
        self.apps_dir = os.path.join(root, 'apps')
        self.rules_dir = os.path.join(root, 'rules')
        self.endpoints_dir = os.path.join(root, 'endpoints')
        self.metrics_dir = os.path.join(root, 'metrics')
        self.archives_dir = os.path.join(root, 'archives')
        self.app_events_dir = os.path.join(root, 'appevents')
        for path in (self.apps_dir, self.rules_dir, self.endpoints_dir):
            os.makedirs(path)
        # exactly as appenv/linux: RuleMgr(rules_dir, apps_dir),
        # EndpointsMgr(endpoints_dir)
        self.real_rules = rulefile.RuleMgr(self.rules_dir, self.apps_dir)
        self.real_endpoints = tm_endpoints.EndpointsMgr(self.endpoints_dir)
        self.rules = _Hooked(self.real_rules, 'rules',
                             ('create_rule', 'unlink_rule'), world)
        self.endpoints = _Hooked(self.real_endpoints, 'endpoints',
                                 ('create_spec', 'unlink_spec', 'unlink_all'),
                                 world)
        hook = world.boundary
        self.svc_cgroup = FakeRsrcClient(
            'cgroup', {'cpu': '/fake/cpu', 'memory': '/fake/memory'}, hook)
        self.svc_localdisk = FakeRsrcClient(
            'localdisk', {'block_dev': '/dev/fake/vol'}, hook)
        self.svc_presence = FakeRsrcClient('presence', {}, hook)
        self.svc_network = FakeNetClient(hook)


# --------------------------------------------------------------------------
# the world
# --------------------------------------------------------------------------

_PATCHES = (
    # (module object, attribute, key in World.fakes)
    (runtime, 'socket', 'socket'),
    (runtime, 'random', 'random'),
    (runtime, 'archive_logs', 'archive_logs'),
    (_run, 'socket', 'resolver'),
    (_run, 'os', 'os'),
    (_run, 'cgroups', 'cgroups'),
    (_run, 'image', 'image'),
    (_run, 'fs_linux', 'fs_linux'),
    (_run, 'unshare', 'unshare'),
    (_run, 'apphook', 'apphook'),
    (_run, 'subproc', 'subproc'),
    (_run, 'plugin_manager', 'plugins'),
    (_finish, 'socket', 'resolver'),
    (_finish, 'plugin_manager', 'plugins'),
    (_finish, 'apphook', 'apphook'),
    (_finish, 'rrdutils', 'rrdutils'),
    (_finish, 'trace', 'trace'),
    (app_abort, 'trace', 'trace'),
    (iptables, 'add_ip_set', 'add_ip_set'),
    (iptables, 'rm_ip_set', 'rm_ip_set'),
    (iptables, 'flush_cnt_conntrack_table', 'flush'),
    (newnet, 'create_newnet', 'create_newnet'),
)


def port_ranges():
    """(prod, nonprod) inclusive ranges the node's firewall is built with."""
    return ((iptables.PROD_PORT_LOW, iptables.PROD_PORT_HIGH),
            (iptables.NONPROD_PORT_LOW, iptables.NONPROD_PORT_HIGH))


def env_class(environment):
    """The statement of the port policy, independent of the code."""
    return 'prod' if environment in ('prod', 'uat') else 'nonprod'


def unique_name_of(spec):
    return '{app}-{id:>013s}'.format(app=spec['name'].replace('#', '-'),
                                     id=spec['uid'])


def build_manifest(spec):
    """The manifest as appcfg.manifest.load + add_linux_system_services
    leave it for the fields the start / finish code reads."""
    vring = {'cells': list(spec['vring']['cells'])}
    if spec['vring'].get('rules'):
        vring['rules'] = copy.deepcopy(spec['vring']['rules'])
    return {
        'type': 'native',
        'name': spec['name'],
        'app': spec['name'].split('#')[0],
        'task': spec['name'].split('#')[1],
        'proid': spec['name'].split('.')[0],
        'uniqueid': spec['uid'],
        'environment': spec['env'],
        'shared_network': bool(spec['shared_network']),
        'shared_ip': bool(spec['shared_ip']),
        'endpoints': [
            {
                'name': ep['name'],
                'port': int(ep['port']),
                'type': ep.get('type'),
                'proto': ep.get('proto', 'tcp'),
            }
            for ep in spec['endpoints']
        ],
        'ephemeral_ports': {'tcp': int(spec['eph']['tcp']),
                            'udp': int(spec['eph']['udp'])},
        'passthrough': list(spec['passthrough']),
        'vring': vring,
        'cpu': 10, 'memory': '100M', 'disk': '100M',
        'services': [], 'system_services': [],
        'identity_group': None, 'identity': None,
    }


def tmp_base():
    """Where the per-case treadmill root is made.

    /tmp is on a disk here (rmdir/symlink cost 0.5-3 ms each under load, which
    dominated the run time); a tmpfs is 30x faster.  VERIF_TMPDIR overrides;
    otherwise /dev/shm when writable, else the default of tempfile (/tmp).
    The directory is removed at the end of every case either way.
    """
    base = os.environ.get('VERIF_TMPDIR')
    if base:
        return base
    if os.path.isdir('/dev/shm') and os.access('/dev/shm', os.W_OK | os.X_OK):
        return '/dev/shm'
    return None


class Container(object):
    """Book-keeping of one container of the history (harness side only)."""

    def __init__(self, idx, spec):
        self.idx = idx
        self.spec = spec
        self.unique_name = unique_name_of(spec)
        self.container_dir = None
        self.data_dir = None
        self.sockets = []
        self.manifest = None       # the dict run() worked on (mutated by it)
        self.exited = False
        self.start_error = None    # exception that ended run(), if any
        self.abort_reason = None   # 'why' written to the aborted flag
        self.fault_label = None    # boundary label where a fault was injected
        self.fault_native = False  # ... with the real exception type
        self.start_log = []        # boundary labels crossed by the start

    @property
    def state_saved(self):
        return os.path.exists(os.path.join(self.data_dir, 'state.json'))


class World(object):
    """One node."""

    def __init__(self, hosts, busy, plugin_mode):
        self.root = tempfile.mkdtemp(prefix='verif-c16-', dir=tmp_base())
        self.fault = None
        self.fault_hit = None
        self.fault_native = False
        self.crossings = 0
        self.label_counts = collections.Counter()
        self.log = []
        hook = self.boundary
        self.env = TmEnv(self.root, self)
        self.net = self.env.svc_network
        self.ipsets = IpSets(hook)
        self.plugins = FakePluginManager(plugin_mode, hook)
        self.sockmod = FakeSocketModule(busy, hook)
        self.sampler = FakeSampler()
        self.resolver = FakeResolver(hosts, hook)
        self.osproxy = OsProxy()
        self.events = []
        self.execs = []

        def get_image(_tm_env, _manifest):
            return _Recorder(hook, {'unpack': ('image.unpack', None)})

        self.fakes = {
            'socket': self.sockmod,
            'random': self.sampler,
            'archive_logs': _Recorder(
                hook, {'f': ('archive_logs', None)}).f,
            'resolver': self.resolver,
            'os': self.osproxy,
            'cgroups': _Recorder(hook, {'join': ('cgroups.join', None)}),
            'image': _Recorder(hook, {'get_image': ('image.get', get_image)}),
            'fs_linux': _Recorder(hook, {
                'blk_fs_test': ('fs.blk_fs_test', False),
                'blk_fs_create': ('fs.blk_fs_create', None),
                'mount_filesystem': ('fs.mount', None),
                'cleanup_mounts': ('fs.cleanup_mounts', None),
            }),
            'unshare': _Recorder(hook, {'unshare': ('unshare', None)},
                                 CLONE_NEWNS=0x20000),
            'apphook': _Recorder(hook, {
                'configure': ('apphook.configure', None),
                'cleanup': ('apphook.cleanup', None),
            }),
            'subproc': _Recorder(hook, {
                'exec_pid1': ('exec_pid1',
                              lambda *a, **k: self.execs.append(a)),
            }),
            'rrdutils': _Recorder(hook, {'flush_noexc': ('rrd.flush', None)}),
            'trace': _Recorder(hook, {
                'post': ('trace.post',
                         lambda _dir, event: self.events.append(event)),
            }),
            'plugins': self.plugins,
            'add_ip_set': self.ipsets.add_ip_set,
            'rm_ip_set': self.ipsets.rm_ip_set,
            'flush': self.ipsets.flush_cnt_conntrack_table,
            'create_newnet': _Recorder(
                hook, {'f': ('newnet', None)}).f,
        }
        self.runtime_config = utils.to_obj({'host_mount_whitelist': []})
        self._saved = []
        self.containers = {}

    # -- plumbing ----------------------------------------------------------
    def boundary(self, label):
        """Called before every call that leaves the process under test."""
        self.crossings += 1
        self.label_counts[label] += 1
        self.log.append(label)
        fault = self.fault
        if fault is None:
            return
        if 'at' in fault:
            hit = fault['at'] == self.crossings
        else:
            hit = (fault['label'] == label and
                   fault['nth'] == self.label_counts[label])
        if hit:
            self.fault = None
            self.fault_hit = label
            native = native_error(label) if fault.get('native') else None
            if native is not None and fault['exc'] is InjectedFault:
                self.fault_native = True
                raise native
            raise fault['exc'](label)

    def _arm(self, fault):
        self.crossings = 0
        self.label_counts = collections.Counter()
        self.log = []
        self.fault = fault
        self.fault_hit = None
        self.fault_native = False

    def __enter__(self):
        for mod, attr, key in _PATCHES:
            self._saved.append((mod, attr, getattr(mod, attr)))
            setattr(mod, attr, self.fakes[key])
        return self

    def __exit__(self, *_exc):
        for mod, attr, value in reversed(self._saved):
            setattr(mod, attr, value)
        self._saved = []
        for sock in self.sockmod.created:
            sock.close()
        shutil.rmtree(self.root, ignore_errors=True)
        return False

    # -- observation -------------------------------------------------------
    def snapshot(self):
        """{area: {entry: value}} of everything a container registers."""
        snap = {'rules': {}, 'endpoints': {}, 'plugin': dict(self.plugins.rules)}
        for name in os.listdir(self.env.rules_dir):
            snap['rules'][name] = _readlink(
                os.path.join(self.env.rules_dir, name))
        for name in os.listdir(self.env.endpoints_dir):
            snap['endpoints'][name] = _readlink(
                os.path.join(self.env.endpoints_dir, name))
        for set_name, members in self.ipsets.sets.items():
            snap['ipset:' + set_name] = {member: 1 for member in members}
        return snap

    def services(self):
        """{service: {rsrc_id: reply}} held by the node resource services."""
        return {
            svc.name: copy.deepcopy(svc.replies)
            for svc in (self.env.svc_cgroup, self.env.svc_localdisk,
                        self.env.svc_network, self.env.svc_presence)
        }

    # -- seeding of entries owned by containers outside the history -------
    def seed_rule(self, filename, owner):
        os.makedirs(os.path.join(self.env.apps_dir, owner), exist_ok=True)
        os.symlink(os.path.join('..', 'apps', owner),
                   os.path.join(self.env.rules_dir, filename))

    def seed_endpoint(self, filename, owner):
        os.makedirs(os.path.join(self.env.apps_dir, owner), exist_ok=True)
        os.symlink(os.path.join(self.env.apps_dir, owner),
                   os.path.join(self.env.endpoints_dir, filename))

    def seed_ipset(self, set_name, member):
        self.ipsets.sets.setdefault(set_name, set()).add(member)

    # -- the two halves of a container's life ------------------------------
    def start(self, idx, spec, fault=None):
        """`treadmill sproc run` of container idx through the real run().

        fault: None | {'at': k} | {'label': L, 'nth': n} -- the k-th boundary
        call of this start (or the n-th one labelled L) fails; with
        'native': True it fails with the exception type of the real call
        (see native_error).
        Returns the Container; `start_error` is the exception that ended
        run(), `fault_label` where the fault was injected (it may have been
        handled by the code, in which case start_error stays None)."""
        cont = Container(idx, spec)
        self.containers[idx] = cont
        cont.container_dir = os.path.join(self.env.apps_dir, cont.unique_name)
        cont.data_dir = os.path.join(cont.container_dir, 'data')
        os.makedirs(cont.data_dir)

        manifest = build_manifest(spec)
        assert appcfg.manifest_unique_name(manifest) == cont.unique_name
        cont.manifest = manifest

        self.sampler.prime([spec['order']['tcp'], spec['order']['udp']])
        self.osproxy.pid = 1000 + idx
        first_socket = len(self.sockmod.created)
        armed = None
        if fault is not None:
            armed = dict(fault, exc=InjectedFault)
        self._arm(armed)
        # LinuxRuntime without its __init__ (which reads the node's runtime
        # config file and opens the s6 service directory)
        rtime = linux_runtime.LinuxRuntime.__new__(linux_runtime.LinuxRuntime)
        rtime._tm_env = self.env  # pylint: disable=protected-access
        rtime._param = {}  # pylint: disable=protected-access
        rtime._service = _Service(  # pylint: disable=protected-access
            cont.container_dir, cont.data_dir)
        rtime._config = self.runtime_config  # pylint: disable=protected-access
        try:
            rtime._run(manifest)  # pylint: disable=protected-access
        except Exception as err:  # pylint: disable=broad-except
            # as treadmill.sproc.run: a ContainerSetupError aborts the app
            # with its reason, any other failure with 'unknown'.
            if isinstance(err, tm_exc.ContainerSetupError):
                why = err.reason
            else:
                why = app_abort.AbortedReason.UNKNOWN
            # the oracle side wants the exception that ended run() itself
            cause = err
            if isinstance(err, tm_exc.ContainerSetupError) and isinstance(
                    err.__context__, services.ResourceServiceTimeoutError):
                cause = err.__context__
            cont.start_error = cause
            app_abort.flag_aborted(cont.data_dir, why=why,
                                   payload=type(cause).__name__)
            cont.abort_reason = _read_why(cont.data_dir)
        finally:
            cont.fault_label = self.fault_hit
            cont.fault_native = self.fault_native
            self.fault = None
            cont.start_log = list(self.log)

        new_sockets = self.sockmod.created[first_socket:]
        if cont.start_error is not None:
            # the run process is gone
            for sock in new_sockets:
                sock.close()
            cont.exited = True
        else:
            cont.sockets = [s for s in new_sockets
                            if s.addr is not None and not s.closed]
        return cont

    def network_of(self, cont):
        """The network the node's service holds / held for the container."""
        net = cont.manifest.get('network') if cont.manifest else None
        return net or self.net.replies.get(cont.unique_name)

    def exit_container(self, idx):
        """The container's processes are gone: its sockets are closed."""
        cont = self.containers[idx]
        if not cont.exited:
            cont.exited = True
            for sock in cont.sockets:
                sock.close()

    def finish(self, idx, fault=None, kill=False):
        """The real finish() of container idx, as LinuxRuntime._finish calls
        it from the cleanup service.

        fault: None | {'at': k} | {'label': L, 'nth': n}: that boundary call
        of this finish fails (InjectedFault, an OSError) or, with kill=True,
        the finishing process is killed there (Crash).
        Returns (outcome, detail): ('returned', None) | ('killed', label) |
        ('raised', exception).  `fault_hit` tells whether / where the fault
        was injected."""
        cont = self.containers[idx]
        self.exit_container(idx)
        armed = None
        if fault is not None:
            armed = dict(fault, exc=Crash if kill else InjectedFault)
        self._arm(armed)
        try:
            _finish.finish(self.env, cont.container_dir)
        except Crash as crash:
            return 'killed', str(crash)
        except Exception as err:  # pylint: disable=broad-except
            return 'raised', err
        finally:
            self.fault = None
        return 'returned', None

    def remove_container_dir(self, idx):
        """What RuntimeBase.finish does once _finish() has returned."""
        shutil.rmtree(self.containers[idx].container_dir)

    def container_dir_exists(self, idx):
        return os.path.isdir(self.containers[idx].container_dir)


def _read_why(data_dir):
    """The reason in the container's aborted flag, as finish will read it."""
    try:
        with open(os.path.join(data_dir, 'aborted')) as flag:
            return json.load(flag).get('why')
    except (OSError, ValueError):
        return None


def _readlink(path):
    try:
        return os.readlink(path)
    except OSError:
        return '<file>'
