"""E3 (network part): one node's host-side network registrations.

A `World` holds a temp treadmill root with a real `rulefile.RuleMgr` and a real
`endpoints.EndpointsMgr`, and in-memory stand-ins for everything behind a
process / kernel boundary:

  * `FakeSocketModule`   -- replaces the name `socket` in `treadmill.runtime`
                            (bind/listen/getsockname/close, EADDRINUSE for
                            busy or already bound (proto, port) pairs)
  * `FakeSampler`        -- replaces the name `random` in `treadmill.runtime`;
                            `sample(pool, k)` returns a permutation of the pool
                            whose first elements are chosen by the case
  * `FakeResolver`       -- replaces the name `socket` in `_run` / `_finish`
                            (`gethostbyname` from a table in the case)
  * `IpSets`             -- `iptables.add_ip_set / rm_ip_set` (`-exist`
                            semantics) and `flush_cnt_conntrack_table`
  * `FakeNetClient`      -- network resource client: vip pool, lowest free vip
                            first, `get` returns None after `delete`
  * `FakePluginManager`  -- `plugin_manager.load` giving a firewall plugin that
                            records exception rules per container (or raising,
                            as on a node without the plugin)
  * `newnet.create_newnet` -- recorded, no effect.
  * `OsProxy`            -- `os` in _run with a per-container getpid().

`World.start(spec)` performs the network relevant statements of
`runtime.linux._run.run` in the same order; `World.finish(idx)` those of
`_finish.finish/_cleanup` (load the saved state, `_cleanup_network` unless the
network is shared).  A finish can be killed at its k-th host-side mutation
(`Crash`, a BaseException, so no `except Exception` in the code swallows it).

Nothing here decides what is right or wrong: the oracle lives in props/c16.py
and only reads `World.snapshot()`.
"""

import copy
import errno
import os
import shutil
import tempfile

from treadmill import appcfg
from treadmill import endpoints as tm_endpoints
from treadmill import iptables
from treadmill import newnet
from treadmill import rulefile
from treadmill import runtime

from treadmill.runtime.linux import _finish
from treadmill.runtime.linux import _run

EXT_IP = '172.31.81.67'
GATEWAY = '192.168.254.254'
VIP_FMT = '192.168.0.%d'
VIP_FIRST = 2


class Crash(BaseException):
    """The finishing process is killed (not an Exception on purpose)."""


# --------------------------------------------------------------------------
# sockets / port sampling
# --------------------------------------------------------------------------

class FakeSocketModule(object):
    """Stand-in for the `socket` module as used by runtime._allocate_sockets."""

    AF_INET = 2
    SOCK_STREAM = 1
    SOCK_DGRAM = 2
    SOL_SOCKET = 1
    SO_REUSEADDR = 2
    error = OSError

    def __init__(self, busy):
        # busy: set of (proto, port) held by processes outside the history
        self.busy = set(busy)
        self.bound = {}          # (proto, port) -> FakeSocket
        self.refused = 0         # EADDRINUSE answers given
        self.refused_bound = 0   # ... because a container of the history holds it
        self.created = []
        mod = self

        class FakeSocket(object):
            """One socket."""

            def __init__(self, family, sock_type):
                assert family == mod.AF_INET
                assert sock_type in (mod.SOCK_STREAM, mod.SOCK_DGRAM)
                self.proto = 'tcp' if sock_type == mod.SOCK_STREAM else 'udp'
                self.addr = None
                self.closed = False
                self.listening = False
                self.inheritable = False
                mod.created.append(self)

            def bind(self, addr):
                host, port = addr
                assert not self.closed and self.addr is None
                assert isinstance(port, int) and 0 < port < 65536
                key = (self.proto, port)
                if key in mod.busy or key in mod.bound:
                    mod.refused += 1
                    if key in mod.bound:
                        mod.refused_bound += 1
                    raise OSError(errno.EADDRINUSE, 'Address already in use')
                mod.bound[key] = self
                self.addr = (host, port)

            def setsockopt(self, *_args):
                pass

            def listen(self, _backlog):
                assert self.proto == 'tcp' and self.addr is not None
                self.listening = True

            def set_inheritable(self, flag):
                self.inheritable = bool(flag)

            def getsockname(self):
                # an unbound AF_INET socket reports ('0.0.0.0', 0)
                return self.addr if self.addr is not None \
                    else ('0.0.0.0', 0)

            def close(self):
                if self.closed:
                    return
                self.closed = True
                if self.addr is not None:
                    key = (self.proto, self.addr[1])
                    if mod.bound.get(key) is self:
                        del mod.bound[key]

        self.socket = FakeSocket


class FakeSampler(object):
    """Stand-in for the `random` module as used by runtime._allocate_sockets.

    Any permutation is a possible answer of random.sample(pool, len(pool));
    the case chooses which ports come first (offsets into the pool, counted
    from the low end when >= 0 and from the high end when < 0).
    """

    def __init__(self):
        self.queue = []
        self.calls = 0

    def prime(self, orders):
        self.queue = [list(order) for order in orders]

    def sample(self, population, k):
        pool = list(population)
        self.calls += 1
        order = self.queue.pop(0) if self.queue else []
        head = []
        seen = set()
        for off in order:
            if -len(pool) <= off < len(pool):
                port = pool[off]
                if port not in seen:
                    seen.add(port)
                    head.append(port)
        result = head + [port for port in pool if port not in seen]
        return result[:k]


class FakeResolver(object):
    """Stand-in for `socket` in _run/_finish: only gethostbyname is used."""

    error = OSError

    def __init__(self, table):
        self.table = dict(table)
        self.lookups = 0

    def gethostbyname(self, host):
        self.lookups += 1
        if host in self.table:
            return self.table[host]
        parts = host.split('.')
        if len(parts) == 4 and all(p.isdigit() for p in parts):
            return host
        raise OSError(errno.ENOENT, 'unknown host %r' % host)


# --------------------------------------------------------------------------
# kernel side: ip sets, conntrack; services: network client; plugin
# --------------------------------------------------------------------------

class IpSets(object):
    """`ipset -exist add/del` on named sets."""

    def __init__(self):
        self.sets = {}
        self.flushed = []
        self.hook = None

    def add_ip_set(self, target_set, add_ip):
        if self.hook:
            self.hook('ipset.add')
        self.sets.setdefault(target_set, set()).add(str(add_ip))

    def rm_ip_set(self, target_set, del_ip):
        if self.hook:
            self.hook('ipset.rm')
        self.sets.setdefault(target_set, set()).discard(str(del_ip))

    def flush_cnt_conntrack_table(self, vip):
        self.flushed.append(vip)


class FakeNetClient(object):
    """Network resource client over a vip pool (lowest free address first)."""

    def __init__(self):
        self.replies = {}
        self.history = []     # (unique_name, vip) in allocation order
        self.hook = None

    def put(self, rsrc_id, _rsrc_data):
        if rsrc_id in self.replies:
            return
        used = {rep['vip'] for rep in self.replies.values()}
        idx = VIP_FIRST
        while VIP_FMT % idx in used:
            idx += 1
        vip = VIP_FMT % idx
        uniqueid = rsrc_id.rsplit('-', 1)[1]
        self.replies[rsrc_id] = {
            'vip': vip,
            'veth': '{id:>013s}.1'.format(id=uniqueid),
            'gateway': GATEWAY,
            'external_ip': EXT_IP,
        }
        self.history.append((rsrc_id, vip))

    def wait(self, rsrc_id, timeout=None):  # pylint: disable=unused-argument
        return copy.deepcopy(self.replies[rsrc_id])

    def get(self, rsrc_id):
        rep = self.replies.get(rsrc_id)
        return copy.deepcopy(rep) if rep is not None else None

    def delete(self, rsrc_id):
        if self.hook:
            self.hook('net.delete')
        self.replies.pop(rsrc_id, None)


class FakePluginManager(object):
    """`plugin_manager.load` for the firewall plugin."""

    def __init__(self, mode):
        self.mode = mode          # 'ok' | 'missing'
        self.rules = {}           # unique_name -> 1
        self.hook = None
        outer = self

        class Plugin(object):
            """Records exception rules by container."""

            @staticmethod
            def apply_exception_rules(_tm_env, _container_dir, app):
                outer.rules[appcfg.app_unique_name(app)] = 1

            @staticmethod
            def cleanup_exception_rules(_tm_env, _container_dir, app):
                if outer.hook:
                    outer.hook('plugin.cleanup')
                outer.rules.pop(appcfg.app_unique_name(app), None)

        self.plugin = Plugin

    def load(self, namespace, name):
        assert (namespace, name) == ('treadmill.firewall.plugins', 'firewall')
        if self.mode == 'missing':
            raise KeyError('no firewall plugin on this node')
        return self.plugin


class OsProxy(object):
    """`os` as seen by _run: everything real except getpid.

    In production every container is set up by its own `run` process, so the
    pid written into the endpoint spec name differs per container; the harness
    runs them all in one process, so the pid is supplied by the world.
    """

    def __init__(self):
        self.pid = 1

    def getpid(self):
        return self.pid

    def __getattr__(self, name):
        return getattr(os, name)


class _Hooked(object):
    """Delegates to a real manager; calls the world's hook before mutations."""

    def __init__(self, real, prefix, mutators, world):
        self._real = real
        self._prefix = prefix
        self._mutators = mutators
        self._world = world

    def __getattr__(self, name):
        attr = getattr(self._real, name)
        if name in self._mutators:
            world = self._world
            label = '%s.%s' % (self._prefix, name)

            def call(*args, **kwargs):
                world.mutation(label)
                return attr(*args, **kwargs)
            return call
        return attr


class TmEnv(object):
    """The attributes of appenv.AppEnvironment that the code under test uses."""

    def __init__(self, root, world):
        self.root = root
        self.apps_dir = os.path.join(root, 'apps')
        self.rules_dir = os.path.join(root, 'rules')
        self.endpoints_dir = os.path.join(root, 'endpoints')
        for path in (self.apps_dir, self.rules_dir, self.endpoints_dir):
            os.makedirs(path)
        # exactly as appenv/linux: RuleMgr(rules_dir, apps_dir),
        # EndpointsMgr(endpoints_dir)
        self.real_rules = rulefile.RuleMgr(self.rules_dir, self.apps_dir)
        self.real_endpoints = tm_endpoints.EndpointsMgr(self.endpoints_dir)
        self.rules = _Hooked(self.real_rules, 'rules',
                             ('create_rule', 'unlink_rule'), world)
        self.endpoints = _Hooked(self.real_endpoints, 'endpoints',
                                 ('create_spec', 'unlink_spec', 'unlink_all'),
                                 world)


# --------------------------------------------------------------------------
# the world
# --------------------------------------------------------------------------

_PATCHES = (
    # (module object, attribute, key in World.fakes)
    (runtime, 'socket', 'socket'),
    (runtime, 'random', 'random'),
    (_run, 'socket', 'resolver'),
    (_run, 'os', 'os'),
    (_finish, 'socket', 'resolver'),
    (_run, 'plugin_manager', 'plugins'),
    (_finish, 'plugin_manager', 'plugins'),
    (iptables, 'add_ip_set', 'add_ip_set'),
    (iptables, 'rm_ip_set', 'rm_ip_set'),
    (iptables, 'flush_cnt_conntrack_table', 'flush'),
    (newnet, 'create_newnet', 'create_newnet'),
)


def port_ranges():
    """(prod, nonprod) inclusive ranges the node's firewall is built with."""
    return ((iptables.PROD_PORT_LOW, iptables.PROD_PORT_HIGH),
            (iptables.NONPROD_PORT_LOW, iptables.NONPROD_PORT_HIGH))


def env_class(environment):
    """The statement of the port policy, independent of the code."""
    return 'prod' if environment in ('prod', 'uat') else 'nonprod'


def unique_name_of(spec):
    return '{app}-{id:>013s}'.format(app=spec['name'].replace('#', '-'),
                                     id=spec['uid'])


def build_manifest(spec):
    """The manifest as appcfg.manifest.load + add_linux_system_services
    leave it for the fields the network code reads."""
    vring = {'cells': list(spec['vring']['cells'])}
    if spec['vring'].get('rules'):
        vring['rules'] = copy.deepcopy(spec['vring']['rules'])
    return {
        'type': 'native',
        'name': spec['name'],
        'app': spec['name'].split('#')[0],
        'task': spec['name'].split('#')[1],
        'proid': spec['name'].split('.')[0],
        'uniqueid': spec['uid'],
        'environment': spec['env'],
        'shared_network': bool(spec['shared_network']),
        'shared_ip': bool(spec['shared_ip']),
        'endpoints': [
            {
                'name': ep['name'],
                'port': int(ep['port']),
                'type': ep.get('type'),
                'proto': ep.get('proto', 'tcp'),
            }
            for ep in spec['endpoints']
        ],
        'ephemeral_ports': {'tcp': int(spec['eph']['tcp']),
                            'udp': int(spec['eph']['udp'])},
        'passthrough': list(spec['passthrough']),
        'vring': vring,
        'cpu': 10, 'memory': '100M', 'disk': '100M',
        'services': [], 'system_services': [],
    }


class Container(object):
    """Book-keeping of one container of the history (harness side only)."""

    def __init__(self, idx, spec):
        self.idx = idx
        self.spec = spec
        self.unique_name = unique_name_of(spec)
        self.container_dir = None
        self.data_dir = None
        self.sockets = []
        self.manifest = None       # after port allocation
        self.network = None
        self.exited = False


def tmp_base():
    """Where the per-case treadmill root is made.

    /tmp is on a disk here (rmdir/symlink cost 0.5-3 ms each under load, which
    dominated the run time); a tmpfs is 30x faster.  VERIF_TMPDIR overrides;
    otherwise /dev/shm when writable, else the default of tempfile (/tmp).
    The directory is removed at the end of every case either way.
    """
    base = os.environ.get('VERIF_TMPDIR')
    if base:
        return base
    if os.path.isdir('/dev/shm') and os.access('/dev/shm', os.W_OK | os.X_OK):
        return '/dev/shm'
    return None


class World(object):
    """One node."""

    def __init__(self, hosts, busy, plugin_mode):
        self.root = tempfile.mkdtemp(prefix='verif-c16-', dir=tmp_base())
        self.crash_at = None
        self.mutations = 0
        self.mutation_log = []
        self.env = TmEnv(self.root, self)
        self.ipsets = IpSets()
        self.ipsets.hook = self.mutation
        self.net = FakeNetClient()
        self.net.hook = self.mutation
        self.plugins = FakePluginManager(plugin_mode)
        self.plugins.hook = self.mutation
        self.sockmod = FakeSocketModule(busy)
        self.sampler = FakeSampler()
        self.resolver = FakeResolver(hosts)
        self.newnet_calls = []
        self.osproxy = OsProxy()
        self.fakes = {
            'os': self.osproxy,
            'socket': self.sockmod,
            'random': self.sampler,
            'resolver': self.resolver,
            'plugins': self.plugins,
            'add_ip_set': self.ipsets.add_ip_set,
            'rm_ip_set': self.ipsets.rm_ip_set,
            'flush': self.ipsets.flush_cnt_conntrack_table,
            'create_newnet': self._create_newnet,
        }
        self._saved = []
        self.containers = {}

    # -- plumbing ----------------------------------------------------------
    def _create_newnet(self, veth, vip, gateway, service_ip=None):
        self.newnet_calls.append((veth, vip, gateway, service_ip))

    def mutation(self, label):
        """Called before every host-side mutation made by the code under test."""
        self.mutations += 1
        self.mutation_log.append(label)
        if self.crash_at is not None and self.mutations == self.crash_at:
            raise Crash(label)

    def __enter__(self):
        for mod, attr, key in _PATCHES:
            self._saved.append((mod, attr, getattr(mod, attr)))
            setattr(mod, attr, self.fakes[key])
        return self

    def __exit__(self, *_exc):
        for mod, attr, value in reversed(self._saved):
            setattr(mod, attr, value)
        self._saved = []
        for sock in self.sockmod.created:
            sock.close()
        shutil.rmtree(self.root, ignore_errors=True)
        return False

    # -- observation -------------------------------------------------------
    def snapshot(self):
        """{area: {entry: value}} of everything a container registers."""
        snap = {'rules': {}, 'endpoints': {}, 'plugin': dict(self.plugins.rules)}
        for name in os.listdir(self.env.rules_dir):
            snap['rules'][name] = _readlink(
                os.path.join(self.env.rules_dir, name))
        for name in os.listdir(self.env.endpoints_dir):
            snap['endpoints'][name] = _readlink(
                os.path.join(self.env.endpoints_dir, name))
        for set_name, members in self.ipsets.sets.items():
            snap['ipset:' + set_name] = {member: 1 for member in members}
        return snap

    # -- seeding of entries owned by containers outside the history -------
    def seed_rule(self, filename, owner):
        os.makedirs(os.path.join(self.env.apps_dir, owner), exist_ok=True)
        os.symlink(os.path.join('..', 'apps', owner),
                   os.path.join(self.env.rules_dir, filename))

    def seed_endpoint(self, filename, owner):
        os.makedirs(os.path.join(self.env.apps_dir, owner), exist_ok=True)
        os.symlink(os.path.join(self.env.apps_dir, owner),
                   os.path.join(self.env.endpoints_dir, filename))

    def seed_ipset(self, set_name, member):
        self.ipsets.sets.setdefault(set_name, set()).add(member)

    # -- the two halves of a container's life ------------------------------
    def start(self, idx, spec):
        """Network relevant statements of runtime.linux._run.run."""
        cont = Container(idx, spec)
        self.containers[idx] = cont
        cont.container_dir = os.path.join(self.env.apps_dir, cont.unique_name)
        cont.data_dir = os.path.join(cont.container_dir, 'data')
        os.makedirs(cont.data_dir)

        manifest = build_manifest(spec)
        unique_name = appcfg.manifest_unique_name(manifest)
        assert unique_name == cont.unique_name

        if not manifest['shared_network']:
            self.net.put(unique_name,
                         {'environment': manifest['environment']})
            app_network = self.net.wait(unique_name)
        else:
            # host network: only external_ip is read (by the port allocation)
            app_network = {'vip': EXT_IP, 'veth': None, 'gateway': GATEWAY,
                           'external_ip': EXT_IP}
        cont.network = app_network
        manifest['network'] = app_network
        manifest['vip'] = {'ip0': app_network['gateway'],
                           'ip1': app_network['vip']}

        self.sampler.prime([spec['order']['tcp'], spec['order']['udp']])
        cont.sockets = runtime.allocate_network_ports(
            app_network['external_ip'], manifest)
        cont.manifest = copy.deepcopy(manifest)

        app = runtime.save_app(manifest, cont.data_dir)
        self.osproxy.pid = 1000 + idx
        if not app.shared_network:
            _run._unshare_network(  # pylint: disable=protected-access
                self.env, cont.container_dir, app)
        else:
            for sock in cont.sockets:
                sock.close()
        return cont

    def exit_container(self, idx):
        """The container's processes are gone: its sockets are closed."""
        cont = self.containers[idx]
        if not cont.exited:
            cont.exited = True
            for sock in cont.sockets:
                sock.close()

    def finish(self, idx, crash_at=None):
        """Network relevant statements of _finish.finish / _cleanup.

        crash_at=k kills the finishing process at its k-th host-side mutation
        (returns the label of that mutation, else None)."""
        cont = self.containers[idx]
        self.exit_container(idx)
        app = runtime.load_app(cont.data_dir)
        assert app is not None
        self.mutations = 0
        self.mutation_log = []
        self.crash_at = crash_at
        try:
            if hasattr(app, 'shared_network') and not app.shared_network:
                _finish._cleanup_network(  # pylint: disable=protected-access
                    self.env, cont.data_dir, app, self.net)
        except Crash as crash:
            return str(crash)
        finally:
            self.crash_at = None
        return None


def _readlink(path):
    try:
        return os.readlink(path)
    except OSError:
        return '<file>'
