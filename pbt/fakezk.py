"""In-memory ZooKeeper: one shared tree, any number of client sessions.

Implements the subset of kazoo's client API the code under test uses, with
kazoo's own exception classes and ZnodeStat tuples whose ctime/mtime come from
a harness supplied clock (milliseconds). Part of the trusted base; selftest()
pins its semantics.

 - Tree            shared server state: nodes, sequences, sessions, watches,
                   audit log of mutations, before_write fault hook.
 - Client          one session: create/get/set/set_acls/delete/exists/
                   get_children/ensure_path/DataWatch/ChildrenWatch/client_id/
                   handler.event_object/add_listener + the make_*_acl helpers of
                   treadmill.zkutils.ZkClient.
Watches are one-shot like ZooKeeper's. They are delivered synchronously right
after the mutation (default) or queued in tree.pending for the harness to
deliver in an order of its choosing (tree.queue_watches = True).
"""

import collections
import threading

import kazoo.exceptions
from kazoo.protocol.states import (
    EventType, KeeperState, WatchedEvent, ZnodeStat
)

NoNodeError = kazoo.exceptions.NoNodeError
NodeExistsError = kazoo.exceptions.NodeExistsError
NotEmptyError = kazoo.exceptions.NotEmptyError
BadVersionError = kazoo.exceptions.BadVersionError
NoChildrenForEphemeralsError = kazoo.exceptions.NoChildrenForEphemeralsError


class InjectedFault(Exception):
    """Raised by the before_write hook to simulate a crash/connection loss."""


class _Node(object):
    __slots__ = ('data', 'acl', 'owner', 'ctime', 'mtime', 'version',
                 'cversion', 'aversion', 'czxid', 'mzxid', 'pzxid',
                 'children', 'seq')

    def __init__(self, data, acl, owner, now, zxid):
        self.data = data
        self.acl = acl
        self.owner = owner
        self.ctime = now
        self.mtime = now
        self.version = 0
        self.cversion = 0
        self.aversion = 0
        self.czxid = zxid
        self.mzxid = zxid
        self.pzxid = zxid
        self.children = set()
        self.seq = 0


def _parent(path):
    idx = path.rfind('/')
    return path[:idx] if idx > 0 else '/'


def _base(path):
    return path[path.rfind('/') + 1:]


def _norm(path):
    if not path.startswith('/'):
        raise ValueError('path must be absolute: %r' % path)
    if len(path) > 1 and path.endswith('/'):
        path = path.rstrip('/')
    return path or '/'


class Tree(object):
    """Shared server state."""

    def __init__(self, clock_ms=None):
        self._clock_ms = clock_ms or (lambda: 0)
        self.zxid = 0
        self.nodes = {'/': _Node(b'', None, 0, self._clock_ms(), 0)}
        self.next_session = 0x1000
        self.sessions = {}
        self.data_watches = collections.defaultdict(list)
        self.child_watches = collections.defaultdict(list)
        self.pending = []            # queued (callback, event)
        self.queue_watches = False
        self.audit = []
        self.before_write = None     # callable(op, path, client) may raise
        self.children_order = None   # callable(path, sorted_list) -> list
        self.writes = 0
        self.writelog = None         # list -> records (op, path, value, acl,
                                     #                 owner) per mutation

    # -- helpers ----------------------------------------------------------
    def now(self):
        return int(self._clock_ms())

    def stat(self, node):
        return ZnodeStat(
            czxid=node.czxid, mzxid=node.mzxid, ctime=node.ctime,
            mtime=node.mtime, version=node.version, cversion=node.cversion,
            aversion=node.aversion, ephemeralOwner=node.owner,
            dataLength=len(node.data), numChildren=len(node.children),
            pzxid=node.pzxid)

    def _fire(self, table, path, etype):
        watchers = table.pop(path, None)
        if not watchers:
            return
        event = WatchedEvent(type=etype, state=KeeperState.CONNECTED,
                             path=path)
        for callback in watchers:
            if self.queue_watches:
                self.pending.append((callback, event))
            else:
                callback(event)

    def deliver(self, index=0):
        """Deliver one queued watch event."""
        callback, event = self.pending.pop(index)
        callback(event)

    def deliver_all(self, limit=10000):
        count = 0
        while self.pending and count < limit:
            self.deliver(0)
            count += 1
        return count

    def _hook(self, opname, path, client):
        self.writes += 1
        if self.before_write is not None:
            self.before_write(opname, path, client)

    def _log(self, opname, path, client, owner):
        self.audit.append((opname, path, client.sid if client else None,
                           owner))
        if self.writelog is not None:
            node = self.nodes.get(path)
            self.writelog.append((
                opname, path, node.data if node else None,
                node.acl if node else None, owner))

    def apply_write(self, record):
        """Re-apply one writelog record as pure data (no hooks, no watches).
        """
        opname, path, value, acl, owner = record
        if opname == 'create':
            parent = self.nodes[_parent(path)]
            self.zxid += 1
            parent.seq += 1
            self.nodes[path] = _Node(value, acl, owner, self.now(), self.zxid)
            parent.children.add(_base(path))
            parent.cversion += 1
        elif opname == 'set':
            node = self.nodes[path]
            self.zxid += 1
            node.data = value
            node.version += 1
            node.mtime = self.now()
        elif opname == 'set_acls':
            self.nodes[path].acl = acl
        elif opname in ('delete', 'expire'):
            del self.nodes[path]
            parent = self.nodes[_parent(path)]
            parent.children.discard(_base(path))
            parent.cversion += 1
        else:
            raise ValueError(opname)

    # -- mutations (called by clients) -------------------------------------
    def create(self, client, path, value, acl, ephemeral, sequence):
        parent = _parent(path)
        pnode = self.nodes.get(parent)
        if pnode is None:
            raise NoNodeError(parent)
        if pnode.owner:
            raise NoChildrenForEphemeralsError(parent)
        if sequence:
            path = '%s%010d' % (path, pnode.seq)
        if path in self.nodes:
            raise NodeExistsError(path)
        self._hook('create', path, client)
        self.zxid += 1
        if sequence or True:
            pnode.seq += 1
        owner = client.sid if ephemeral else 0
        node = _Node(value, acl, owner, self.now(), self.zxid)
        self.nodes[path] = node
        pnode.children.add(_base(path))
        pnode.cversion += 1
        pnode.pzxid = self.zxid
        if ephemeral:
            client.ephemerals.add(path)
        self._log('create', path, client, owner)
        self._fire(self.data_watches, path, EventType.CREATED)
        self._fire(self.child_watches, parent, EventType.CHILD)
        return path

    def set(self, client, path, value, version=-1):
        node = self.nodes.get(path)
        if node is None:
            raise NoNodeError(path)
        if version != -1 and version != node.version:
            raise BadVersionError(path)
        self._hook('set', path, client)
        self.zxid += 1
        node.data = value
        node.version += 1
        node.mtime = self.now()
        node.mzxid = self.zxid
        self._log('set', path, client, node.owner)
        self._fire(self.data_watches, path, EventType.CHANGED)
        return self.stat(node)

    def set_acls(self, client, path, acls, version=-1):
        node = self.nodes.get(path)
        if node is None:
            raise NoNodeError(path)
        self._hook('set_acls', path, client)
        node.acl = acls
        node.aversion += 1
        self._log('set_acls', path, client, node.owner)
        return self.stat(node)

    def delete(self, client, path, version=-1, internal=False):
        node = self.nodes.get(path)
        if node is None:
            raise NoNodeError(path)
        if node.children:
            raise NotEmptyError(path)
        if version != -1 and version != node.version:
            raise BadVersionError(path)
        if not internal:
            self._hook('delete', path, client)
        self.zxid += 1
        del self.nodes[path]
        parent = _parent(path)
        pnode = self.nodes[parent]
        pnode.children.discard(_base(path))
        pnode.cversion += 1
        pnode.pzxid = self.zxid
        if node.owner and node.owner in self.sessions:
            self.sessions[node.owner].ephemerals.discard(path)
        self._log('expire' if internal else 'delete', path, client,
                  node.owner)
        self._fire(self.data_watches, path, EventType.DELETED)
        self._fire(self.child_watches, path, EventType.DELETED)
        self._fire(self.child_watches, parent, EventType.CHILD)
        return True

    def expire(self, client):
        """Session expiry: all ephemerals of the session vanish."""
        for path in sorted(client.ephemerals, reverse=True):
            if path in self.nodes:
                self.delete(client, path, internal=True)
        client.ephemerals.clear()
        self.sessions.pop(client.sid, None)
        client.expired = True

    # -- whole-tree helpers for harnesses ----------------------------------
    def dump(self, prefix='/'):
        """{path: (data, owner)} of the subtree."""
        res = {}
        for path, node in self.nodes.items():
            if path == prefix or path.startswith(prefix.rstrip('/') + '/'):
                res[path] = (node.data, node.owner)
        return res

    def snapshot(self):
        """Deep copy of the node table (for crash-prefix replay)."""
        snap = {}
        for path, node in self.nodes.items():
            new = _Node(node.data, node.acl, node.owner, node.ctime, node.czxid)
            for attr in _Node.__slots__:
                value = getattr(node, attr)
                setattr(new, attr, set(value) if attr == 'children'
                        else value)
            snap[path] = new
        return snap, self.zxid

    def restore(self, snap):
        nodes, zxid = snap
        self.nodes = {}
        for path, node in nodes.items():
            new = _Node(node.data, node.acl, node.owner, node.ctime, node.czxid)
            for attr in _Node.__slots__:
                value = getattr(node, attr)
                setattr(new, attr, set(value) if attr == 'children'
                        else value)
            self.nodes[path] = new
        self.zxid = zxid
        self.data_watches.clear()
        self.child_watches.clear()
        self.pending = []


class _Event(object):
    """threading.Event look-alike that never blocks the single thread."""

    def __init__(self):
        self._flag = False

    def set(self):
        self._flag = True

    def clear(self):
        self._flag = False

    def is_set(self):
        return self._flag

    isSet = is_set

    def wait(self, timeout=None):
        return self._flag


class _Handler(object):
    def event_object(self):
        return _Event()

    def lock_object(self):
        return threading.Lock()

    def rlock_object(self):
        return threading.RLock()

    def spawn(self, func, *args, **kwargs):
        return func(*args, **kwargs)


class Client(object):
    """One session on a Tree."""

    def __init__(self, tree):
        self.tree = tree
        tree.next_session += 1
        self.sid = tree.next_session
        tree.sessions[self.sid] = self
        self.ephemerals = set()
        self.handler = _Handler()
        self.listeners = []
        self.expired = False
        self.op_hook = None       # callable(opname, path) before every call
        self.reads = 0

    # kazoo: (session_id, password)
    @property
    def client_id(self):
        return (self.sid, b'pw')

    @property
    def connected(self):
        return not self.expired

    def start(self, timeout=None):
        return None

    def stop(self):
        return None

    def close(self):
        return None

    def add_listener(self, listener):
        self.listeners.append(listener)

    def remove_listener(self, listener):
        if listener in self.listeners:
            self.listeners.remove(listener)

    def _op(self, opname, path):
        if self.op_hook is not None:
            self.op_hook(opname, path)
        if self.expired:
            raise kazoo.exceptions.SessionExpiredError()

    # -- acl helpers of treadmill.zkutils.ZkClient ---------------------------
    def make_anonymous_acl(self, perm):
        return ('world', 'anyone', perm)

    def make_user_acl(self, user, perm):
        return ('user', user, perm)

    def make_host_acl(self, host, perm):
        return ('host', host, perm)

    def make_role_acl(self, role, perm):
        return ('role', role, perm)

    def make_self_acl(self, perm):
        return ('self', 'self', perm)

    def make_default_acl(self, acls):
        realacl = [
            self.make_role_acl('readers', 'r'),
            self.make_role_acl('admin', 'rwcda'),
            self.make_self_acl('rwcda'),
        ]
        if acls:
            realacl.extend(acls)
        return realacl

    def make_servers_acl(self):
        return self.make_role_acl('servers', 'rwcda')

    def make_servers_del_acl(self):
        return self.make_role_acl('servers', 'd')

    # -- operations -----------------------------------------------------------
    def create(self, path, value=b'', acl=None, ephemeral=False,
               sequence=False, makepath=False, include_data=False):
        path = _norm(path) if not (sequence and path.endswith('/')) else path
        self._op('create', path)
        if value is None:
            value = b''
        if isinstance(value, str):
            value = value.encode()
        if not isinstance(value, bytes):
            raise TypeError('value must be bytes: %r' % (value,))
        parent = _parent(path)
        if makepath and parent not in self.tree.nodes:
            self.ensure_path(parent, acl)
        return self.tree.create(self, path, value, acl, ephemeral, sequence)

    def ensure_path(self, path, acl=None):
        path = _norm(path)
        self._op('ensure_path', path)
        if path in self.tree.nodes:
            return True
        parent = _parent(path)
        if parent not in self.tree.nodes:
            self.ensure_path(parent, acl)
        try:
            self.tree.create(self, path, b'', acl, False, False)
        except NodeExistsError:
            pass
        return True

    def get(self, path, watch=None):
        path = _norm(path)
        self._op('get', path)
        self.reads += 1
        node = self.tree.nodes.get(path)
        if node is None:
            raise NoNodeError(path)
        if watch is not None:
            self.tree.data_watches[path].append(watch)
        return node.data, self.tree.stat(node)

    def exists(self, path, watch=None):
        path = _norm(path)
        self._op('exists', path)
        self.reads += 1
        node = self.tree.nodes.get(path)
        if watch is not None:
            self.tree.data_watches[path].append(watch)
        if node is None:
            return None
        return self.tree.stat(node)

    def get_children(self, path, watch=None, include_data=False):
        path = _norm(path)
        self._op('get_children', path)
        self.reads += 1
        node = self.tree.nodes.get(path)
        if node is None:
            raise NoNodeError(path)
        if watch is not None:
            self.tree.child_watches[path].append(watch)
        children = sorted(node.children)
        if self.tree.children_order is not None:
            children = list(self.tree.children_order(path, children))
        if include_data:
            return children, self.tree.stat(node)
        return children

    def get_acls(self, path):
        path = _norm(path)
        node = self.tree.nodes.get(path)
        if node is None:
            raise NoNodeError(path)
        return node.acl, self.tree.stat(node)

    def set(self, path, value, version=-1):
        path = _norm(path)
        self._op('set', path)
        if isinstance(value, str):
            value = value.encode()
        if value is None:
            value = b''
        if not isinstance(value, bytes):
            raise TypeError('value must be bytes: %r' % (value,))
        return self.tree.set(self, path, value, version)

    def set_acls(self, path, acls, version=-1):
        path = _norm(path)
        self._op('set_acls', path)
        return self.tree.set_acls(self, path, acls, version)

    def delete(self, path, version=-1, recursive=False):
        path = _norm(path)
        self._op('delete', path)
        if recursive:
            node = self.tree.nodes.get(path)
            if node is None:
                raise NoNodeError(path)
            for child in sorted(node.children):
                self.delete(path.rstrip('/') + '/' + child, recursive=True)
        return self.tree.delete(self, path, version)

    def retry(self, func, *args, **kwargs):
        return func(*args, **kwargs)

    # -- recipes ---------------------------------------------------------------
    def ChildrenWatch(self, path, func=None, allow_session_lost=True,
                      send_event=False):  # pylint: disable=invalid-name
        return _ChildrenWatch(self, path, func)

    def DataWatch(self, path, func=None):  # pylint: disable=invalid-name
        return _DataWatch(self, path, func)


class _ChildrenWatch(object):
    """kazoo.recipe.watchers.ChildrenWatch: call func(children) now and on
    every change until it returns False."""

    def __init__(self, client, path, func=None):
        self.client = client
        self.path = _norm(path)
        self.func = func
        self.stopped = False
        if func is not None:
            self._get_children()

    def __call__(self, func):
        self.func = func
        self._get_children()
        return func

    def _get_children(self, event=None):
        if self.stopped or self.client.expired:
            return
        if event is not None and event.type == EventType.DELETED:
            # kazoo retries with exists; keep it simple: re-arm on re-creation
            pass
        try:
            children = self.client.get_children(self.path,
                                                watch=self._get_children)
        except NoNodeError:
            self.client.tree.data_watches[self.path].append(self._on_exists)
            return
        result = self.func(children)
        if result is False:
            self.stopped = True

    def _on_exists(self, event):
        self._get_children()


class _DataWatch(object):
    """kazoo.recipe.watchers.DataWatch: call func(data, stat[, event])."""

    def __init__(self, client, path, func=None):
        self.client = client
        self.path = _norm(path)
        self.func = func
        self.stopped = False
        if func is not None:
            self._get_data()

    def __call__(self, func):
        self.func = func
        self._get_data()
        return func

    def _call(self, data, stat, event):
        import inspect
        try:
            nargs = len(inspect.signature(self.func).parameters)
        except (TypeError, ValueError):
            nargs = 3
        if nargs >= 3:
            return self.func(data, stat, event)
        return self.func(data, stat)

    def _get_data(self, event=None):
        if self.stopped or self.client.expired:
            return
        node = self.client.tree.nodes.get(self.path)
        if self.client.op_hook is not None:
            self.client.op_hook('watch_get', self.path)
        self.client.tree.data_watches[self.path].append(self._get_data)
        if node is None:
            data, stat = None, None
        else:
            data, stat = node.data, self.client.tree.stat(node)
        result = self._call(data, stat, event)
        if result is False:
            self.stopped = True
            try:
                self.client.tree.data_watches[self.path].remove(
                    self._get_data)
            except ValueError:
                pass


def selftest():
    """Pins the semantics the harnesses rely on."""
    clock = [1000]
    tree = Tree(lambda: clock[0])
    one = Client(tree)
    two = Client(tree)
    one.ensure_path('/a/b')
    assert one.get_children('/a') == ['b']
    try:
        one.create('/a/b', b'x')
        raise AssertionError('NodeExists expected')
    except NodeExistsError:
        pass
    try:
        one.create('/x/y', b'x')
        raise AssertionError('NoNode expected')
    except NoNodeError:
        pass
    assert one.create('/x/y', b'x', makepath=True) == '/x/y'
    try:
        one.delete('/x')
        raise AssertionError('NotEmpty expected')
    except NotEmptyError:
        pass
    path0 = one.create('/a/s-', b'', sequence=True)
    path1 = two.create('/a/s-', b'', sequence=True)
    assert path0.endswith('%010d' % 1) and path1.endswith('%010d' % 2), \
        (path0, path1)
    clock[0] = 2000
    two.create('/a/eph', b'e', ephemeral=True)
    data, stat = one.get('/a/eph')
    assert data == b'e' and stat.ephemeralOwner == two.sid
    assert stat.ctime == 2000
    try:
        one.create('/a/eph/child', b'')
        raise AssertionError('NoChildrenForEphemerals expected')
    except NoChildrenForEphemeralsError:
        pass
    seen = []
    one.ChildrenWatch('/a', lambda ch: seen.append(list(ch)) or True)
    assert seen[-1] == sorted(['b', 'eph', _base(path0), _base(path1)])
    tree.expire(two)
    assert one.exists('/a/eph') is None
    assert 'eph' not in seen[-1] and len(seen) == 2
    fired = []
    one.DataWatch('/a/b', lambda data, stat: fired.append(data))
    one.set('/a/b', b'new')
    assert fired == [b'', b'new'], fired
    clock[0] = 3000
    _, stat = one.get('/a/b')
    assert stat.mtime == 2000 and stat.version == 1 and stat.ctime == 1000
    return True


if __name__ == '__main__':
    selftest()
    print('fakezk selftest ok')
