"""E3 / C12: the node's manifest cache driven through a real EventMgr.

A *world* is one temp treadmill root with a real ``eventmgr.EventMgr`` (built
by its own constructor, ``run()`` is never called), a ``fakezk`` tree holding
``/placement/<host>/<instance>`` and ``/scheduled/<instance>`` nodes written by
the real ``zkutils.put`` and a cache directory pre-populated from the case.

``Hooks`` replaces, inside ``treadmill.fs`` only, the names the safe write goes
through (``tempfile``, ``os.fchmod``, ``replace``, ``rm_safe`` and the dump
function handed to ``write_safe``) with wrappers that report *points* to a
``Controller``. At every point the controller looks at the cache directory the
way another process would (listdir + fresh open of every visible file) and
checks the atomicity invariant; at one chosen raisable point it raises
``InjectedFault`` instead of letting the step happen.

Everything here is harness; the code under test is EventMgr._synchronize /
_cache, fs.write_safe / replace / rm_safe and zkutils.get_with_metadata / get.
"""

import errno
import json
import os
import shutil
import sys
import types
import tempfile as _real_tempfile

import yaml as _pyyaml

from treadmill import context
from treadmill import eventmgr
from treadmill import fs
from treadmill import utils
from treadmill import zknamespace as z
from treadmill import zkutils

from pbt import fakezk
from pbt.run import Violation

try:
    _Loader = _pyyaml.CSafeLoader
    _Dumper = _pyyaml.CSafeDumper
except AttributeError:  # pragma: no cover
    _Loader = _pyyaml.SafeLoader
    _Dumper = _pyyaml.SafeDumper

# ZooKeeper ctime (ms) of placement nodes whose age is irrelevant to the case.
BASE_MS = 1578268800 * 1000

_BROKEN = object()


def _tmp_base():
    """Where the per-case treadmill roots live. rmdir/mkdir on the ext4 /tmp
    of the sandbox cost milliseconds each (40% of a case), so a tmpfs is
    preferred when there is one; VERIF_TMPDIR overrides. The roots are removed
    at the end of every case either way."""
    forced = os.environ.get('VERIF_TMPDIR')
    if forced:
        return forced
    shm = '/dev/shm'
    if os.path.isdir(shm) and os.access(shm, os.W_OK | os.X_OK):
        return shm
    return None


TMP_BASE = _tmp_base()


class InjectedFault(OSError):
    """The failure raised at the chosen point of the write."""


# The ways the operating system refuses a step of the write (disk / inode /
# quota exhausted, descriptor table full, directory not writable, read-only
# remount, medium error). ENOENT / EEXIST are left out on purpose: the code
# under test legitimately treats those as "already gone" / "already there",
# and a real unlink / mkdir does not report them for the states generated.
ERRNOS = ('ENOSPC', 'EDQUOT', 'EMFILE', 'ENFILE', 'EACCES', 'EROFS', 'EIO')
_FAULT_CLASSES = {}


def make_fault(errno_name, message):
    """An InjectedFault that is also the builtin OSError subclass the
    interpreter would raise for that errno (PermissionError for EACCES ...),
    so that `except PermissionError` in the code under test sees it."""
    code = getattr(errno, errno_name)
    builtin = type(OSError(code, 'x'))
    cls = _FAULT_CLASSES.get(builtin)
    if cls is None:
        cls = InjectedFault if builtin is OSError else type(
            'InjectedFault_' + builtin.__name__, (InjectedFault, builtin), {})
        _FAULT_CLASSES[builtin] = cls
    return cls(code, '%s (%s)' % (message, os.strerror(code)))


def task_of(name):
    return name.split('#', 1)[1]


def merged(name, manifest, pdata):
    """What the cache file of `name` must hold (None: nothing to write)."""
    if manifest is None:
        return None
    exp = {}
    for key, value in manifest.items():
        exp[key] = value
    exp['task'] = task_of(name)
    if pdata is not None:
        for key in ('identity', 'identity_count', 'expires'):
            if key in pdata:
                exp[key] = pdata[key]
    return exp


def typed_equal(left, right):
    """Equality value by value *with types*: 1, 1.0, True and '1' all differ,
    floats compare by repr (so -0.0 / 1e-05 keep their identity)."""
    if type(left) is not type(right):
        return False
    if isinstance(left, dict):
        return left.keys() == right.keys() and \
            all(typed_equal(left[key], right[key]) for key in left)
    if isinstance(left, list):
        return len(left) == len(right) and \
            all(typed_equal(one, two) for one, two in zip(left, right))
    if isinstance(left, float):
        return repr(left) == repr(right)
    return left == right


def first_diff(got, want, path='$'):
    """Human readable location of the first typed difference."""
    if got is _BROKEN:
        return 'file does not parse as YAML'
    if type(got) is not type(want):
        return '%s: cached %r (%s), expected %r (%s)' % (
            path, got, type(got).__name__, want, type(want).__name__)
    if isinstance(got, dict):
        for key in sorted(set(got) | set(want)):
            if key not in got:
                return '%s.%s: missing from the cache file' % (path, key)
            if key not in want:
                return '%s.%s: only in the cache file' % (path, key)
            if not typed_equal(got[key], want[key]):
                return first_diff(got[key], want[key], '%s.%s' % (path, key))
    elif isinstance(got, list):
        if len(got) != len(want):
            return '%s: %d items cached, %d expected' % (
                path, len(got), len(want))
        for idx, (one, two) in enumerate(zip(got, want)):
            if not typed_equal(one, two):
                return first_diff(one, two, '%s[%d]' % (path, idx))
    return '%s: cached %r, expected %r' % (path, got, want)


def stored_json(tree, path):
    """The harness' own reading of a node written by zkutils.put: JSON."""
    raw = tree.nodes[path].data
    if not raw:
        return None
    return json.loads(raw.decode())


def dump_bytes(content):
    """Bytes of a complete cache file as an earlier synchronisation left it
    (block style YAML; the harness' own serialisation, not the repo's)."""
    return _pyyaml.dump(content, Dumper=_Dumper,
                        default_flow_style=False).encode()


def parse(data):
    try:
        return _pyyaml.load(data, Loader=_Loader)
    except _pyyaml.YAMLError:
        return _BROKEN
    except UnicodeDecodeError:
        return _BROKEN


class World(object):
    """One node: temp root, EventMgr, fake ZooKeeper, prior cache."""

    def __init__(self, case):
        self.case = case
        self.root = _real_tempfile.mkdtemp(prefix='c12-', dir=TMP_BASE)
        try:
            self.evmgr = eventmgr.EventMgr(root=self.root)
            self.cache = self.evmgr.tm_env.cache_dir
            self.host = self.evmgr._hostname  # pylint: disable=W0212
            os.makedirs(self.cache)
            self.reset()
        except BaseException:
            self.close()
            raise

    def reset(self):
        """(Re)build the prior cache and the ZooKeeper state of the case; the
        root is kept, the agent is a new process (a new EventMgr object: what
        one run kept in memory must not reach the next one)."""
        case = self.case
        self.restart_agent()
        for entry in os.listdir(self.cache):
            os.unlink(os.path.join(self.cache, entry))
        self.clk = [BASE_MS]
        self.tree = fakezk.Tree(lambda: self.clk[0])
        self.zk = fakezk.Client(self.tree)
        # the session of whoever changes ZooKeeper while the agent runs (the
        # scheduler); the agent's own client is self.zk
        self.sched = fakezk.Client(self.tree)
        self.watching = False       # a run() has installed its placement watch
        self.incomplete_sync = False    # some sync could not cache a listed
        self.event_no = 0               # instance (no manifest / no record)
        self.last_event = None
        # placed instances a synchronisation of this agent listed while
        # their manifest was not in ZooKeeper / whose manifest was written
        # since and that still wait for their first file
        self.seen_orphan = set()
        self.late_manifest = set()
        self.zk.ensure_path(z.path.placement(self.host))
        self.zk.ensure_path(z.path.scheduled())

        self.expected = []      # the children list handed to _synchronize
        self.new = {}           # name -> dict the sync must write, or None
        self.prior = {}         # visible name -> bytes before the sync
        self.prior_stat = {}    # visible name -> (ino, ctime_ns, mtime_ns)
        self.insts = {}
        self.prior_dot = {}

        for inst in case['instances']:
            name = inst['name']
            self.insts[name] = inst
            if inst.get('placed'):
                self.expected.append(name)

            fstat = None
            if inst.get('file') is not None:
                if inst['file'] == 'same':
                    content = merged(name, inst['manifest'], inst.get('pdata'))
                    assert content is not None, 'generator: same needs manifest'
                else:
                    content = merged(name, inst['file']['manifest'],
                                     inst['file'].get('pdata'))
                data = dump_bytes(content)
                path = os.path.join(self.cache, name)
                with open(path, 'wb') as fh:
                    fh.write(data)
                os.chmod(path, 0o644)
                fstat = os.stat(path)
                self.prior[name] = data
                self.prior_stat[name] = (fstat.st_ino, fstat.st_ctime_ns,
                                         fstat.st_mtime_ns)

            if inst.get('manifest') is not None:
                self.clk[0] = BASE_MS - 86400000
                zkutils.put(self.zk, z.path.scheduled(name), inst['manifest'])
            if inst.get('pnode'):
                if fstat is not None:
                    base = int(fstat.st_ctime * 1000)
                    delta = max(1000, int(inst.get('delta_ms', 5000)))
                    if inst.get('rel') == 'after':
                        self.clk[0] = base + delta
                    else:
                        self.clk[0] = base - delta
                else:
                    self.clk[0] = BASE_MS
                zkutils.put(self.zk, z.path.placement(self.host, name),
                            inst.get('pdata'))

            # what the node must cache: the manifest *as stored in ZooKeeper*
            # (read back by the harness with json.loads) + placement + task
            self.new[name] = None
            if inst.get('pnode') and inst.get('manifest') is not None:
                self.new[name] = merged(
                    name,
                    stored_json(self.tree, z.path.scheduled(name)),
                    stored_json(self.tree,
                                z.path.placement(self.host, name)))

        for dot in case.get('dotfiles', []):
            assert dot['name'].startswith('.')
            with open(os.path.join(self.cache, dot['name']), 'w') as fh:
                fh.write(dot['text'])
            self.prior_dot[dot['name']] = dot['text']

        if case.get('presence'):
            self.zk.create(z.path.server_presence(self.host), b'{}',
                           ephemeral=True, makepath=True)
        if case.get('placement_root') is False:
            assert not self.zk.get_children(z.path.placement(self.host))
            self.zk.delete(z.path.placement(self.host))

        self.allowed = set(self.prior) | set(self.expected)
        self._accepted = {}
        # name -> everything the dump function emitted in a finished dump
        self.intended = {}

    def restart_agent(self):
        """The service exits and is started again: nothing held in memory by
        the old process survives."""
        self.evmgr = eventmgr.EventMgr(root=self.root)

    def close(self):
        shutil.rmtree(self.root, ignore_errors=True)

    # -- ZooKeeper changing under the running agent ---------------------------
    def rebase(self):
        """What is in the cache now becomes the prior content (the complete
        'old' files of the next synchronisation)."""
        self.prior = {}
        self.prior_stat = {}
        for name in self.visible():
            path = os.path.join(self.cache, name)
            fstat = os.stat(path)
            self.prior[name] = self.read(name)
            self.prior_stat[name] = (fstat.st_ino, fstat.st_ctime_ns,
                                     fstat.st_mtime_ns)
        self._accepted = {}
        self.intended = {}

    def uncachable(self):
        """Listed instances the next synchronisation cannot cache (manifest
        or placement record missing) and that have no file yet."""
        return [name for name in self.expected
                if self.new.get(name) is None and name not in self.prior]

    def apply_mut(self, mut):
        """One ZooKeeper mutation by the scheduler session; a no-op when it
        does not apply to the current tree (keeps every case executable).
        Returns True iff the children of /placement/<host> changed."""
        do, name = mut['do'], mut['name']
        ppath = z.path.placement(self.host, name)
        spath = z.path.scheduled(name)
        nodes = self.tree.nodes
        changed = False
        if do == 'schedule':
            if spath not in nodes:
                self.clk[0] = BASE_MS - 86400000 + 60000 * self.event_no
                zkutils.put(self.sched, spath, mut['manifest'])
        elif do == 'unschedule':
            if spath in nodes:
                self.sched.delete(spath)
        elif do == 'place':
            if ppath not in nodes and z.path.placement(self.host) in nodes:
                self.clk[0] = BASE_MS + 60000 * self.event_no
                zkutils.put(self.sched, ppath, mut.get('pdata'))
                self.insts[name] = {'name': name, 'role': 'event',
                                    'placed': True, 'pnode': True}
                changed = True
        elif do == 'unplace':
            if ppath in nodes:
                self.sched.delete(ppath)
                changed = True
        else:
            raise AssertionError('unknown mutation %r' % (do,))

        placed = ppath in nodes
        if placed and name not in self.expected:
            self.expected.append(name)
        elif not placed and name in self.expected:
            self.expected.remove(name)
        if placed:
            self.new[name] = None
            if spath in nodes:
                self.new[name] = merged(
                    name, stored_json(self.tree, spath),
                    stored_json(self.tree, ppath))
        else:
            # keep what a file of `name` written earlier holds: it may stay
            # visible until the synchronisation removes it
            self.new.setdefault(name, None)
        self.insts.setdefault(name, {'name': name, 'role': 'event',
                                     'placed': placed})
        return changed

    def begin_event(self, step):
        """Apply the mutations of one history step with the watch events
        queued (ZooKeeper watches are one-shot: several mutations before the
        agent's handler thread runs give one notification)."""
        self.event_no += 1
        self.rebase()
        before = set(self.expected)
        self.tree.queue_watches = True
        changed = False
        for mut in step['muts']:
            if self.apply_mut(mut):
                changed = True
        self.allowed = set(self.prior) | before | set(self.expected)
        self.seen_orphan &= set(self.expected)
        self.late_manifest &= set(self.expected)
        for name in sorted(self.seen_orphan):
            if self.new.get(name) is not None and name not in self.prior:
                self.late_manifest.add(name)
        self.late_manifest = {name for name in self.late_manifest
                              if self.new.get(name) is not None}
        self.last_event = {
            'no': self.event_no, 'children_changed': changed,
            'late_manifest': sorted(self.late_manifest),
            'added': sorted(set(self.expected) - before),
            'removed': sorted(before - set(self.expected)),
            'raced': None, 'after_incomplete': self.incomplete_sync,
            'uncachable': self.uncachable(), 'fs_points': 0,
        }

    def event_synchronised(self):
        """Bookkeeping after a synchronisation of the agent has returned:
        which listed instances had no manifest in ZooKeeper at that time."""
        self.late_manifest = set()
        self.seen_orphan = {
            name for name in self.expected
            if z.path.scheduled(name) not in self.tree.nodes}

    def deliver_event(self, step):
        """Deliver the queued watch events to whatever watches the agent has
        installed. step['race']: while the agent handles the notification -
        at its first read of a placement record, i.e. after it listed the
        children - the scheduler removes the placement record of that
        instance; the notification of that removal is queued behind the
        running callback, as kazoo's handler thread would."""
        race = step.get('race')
        proot = z.path.placement(self.host) + '/'
        event = self.last_event

        def hook(opname, path):
            if opname == 'get' and path.startswith(proot) and \
                    event['raced'] is None:
                event['raced'] = race
                if self.apply_mut({'do': 'unplace', 'name': race}):
                    event['children_changed'] = True
                    event['removed'] = sorted(set(event['removed']) | {race})

        if race is not None:
            self.zk.op_hook = hook
        try:
            self.tree.deliver_all()
        finally:
            self.zk.op_hook = None
            self.tree.queue_watches = False
        if event['raced'] is None:
            event['raced'] = False

    # -- observation ---------------------------------------------------------
    def visible(self):
        return sorted(name for name in os.listdir(self.cache)
                      if not name.startswith('.'))

    def dot_names(self):
        return sorted(name for name in os.listdir(self.cache)
                      if name.startswith('.'))

    def read(self, name):
        with open(os.path.join(self.cache, name), 'rb') as fh:
            return fh.read()

    def complete(self, name, data):
        """'old' / 'new' if `data` is a complete manifest of `name`, else
        None."""
        if name in self.prior and data == self.prior[name]:
            return 'old'
        if self._accepted.get(name) == data:
            return 'new'
        new = self.new.get(name)
        if new is not None and typed_equal(parse(data), new):
            self._accepted[name] = data
            return 'new'
        return None

    def check_observable(self, where, bucket_prefix='c12.atomic'):
        """The invariant a reader (or a crash right now) relies on."""
        seen = {}
        for name in self.visible():
            if name not in self.allowed:
                raise Violation(
                    bucket_prefix + '.foreign-visible-name',
                    'at %s the cache lists %r which is neither a prior entry '
                    'nor an instance placed on the node' % (where, name))
            try:
                data = self.read(name)
            except FileNotFoundError:  # pragma: no cover (single thread)
                continue
            which = self.complete(name, data)
            if which is None and self.intended.get(name) == data:
                # not torn: exactly what the writer meant to write, but wrong
                raise Violation(
                    'c12.sync.written-content',
                    'at %s cache file %r holds the complete output of the '
                    'write, which is not the manifest stored in ZooKeeper '
                    'merged with the placement data and task id: %s' % (
                        where, name,
                        first_diff(parse(data), self.new.get(name))
                        if self.new.get(name) is not None
                        else 'nothing should have been written'))
            if which is None:
                raise Violation(
                    bucket_prefix + '.partial-manifest',
                    'at %s cache file %r (%d bytes) is neither the complete '
                    'old nor the complete new manifest: %r' % (
                        where, name, len(data), data[:120]))
            seen[name] = which
        return seen


class Controller(object):
    """Receives the points of the write path."""

    def __init__(self, world, fault_at=None, cuts=(), flush=True,
                 errno_name='ENOSPC'):
        self.world = world
        self.fault_at = fault_at
        self.errno_name = errno_name
        self.cuts = list(cuts)
        self.flush = flush
        self.points = []          # (label, raisable)
        self.fired = None         # (index, label, bytes written before)
        self.write_bytes = 0      # bytes handed to the file in this write
        self.emitted = []         # the pieces of the current dump
        self.writes = 0           # write_safe calls seen
        self.tmp_ino = None
        self.violation = None     # the first one seen at a point

    def point(self, label, raisable=True):
        index = len(self.points)
        self.points.append((label, raisable))
        if self.violation is not None:
            return      # unwinding after a violation: keep the first report
        try:
            self.world.check_observable('point %d (%s)' % (index, label))
        except Violation as vio:
            self.violation = vio
            raise
        if raisable and self.fault_at == index:
            self.fired = (index, label, self.write_bytes)
            raise make_fault(self.errno_name,
                             'injected at point %d (%s)' % (index, label))


class _StreamProxy(object):
    """What the dump function writes to: cuts every write into pieces, each
    piece boundary is a point."""

    def __init__(self, ctl, real):
        self._ctl = ctl
        self._real = real

    def __getattr__(self, name):
        return getattr(self._real, name)

    def write(self, data):
        ctl = self._ctl
        size = len(data)
        offs = sorted({(size * cut) // 1000 for cut in ctl.cuts})
        offs = [off for off in offs if 0 < off < size]
        start = 0
        for off in offs + [size]:
            if start > 0 or ctl.write_bytes > 0:
                ctl.point('write')
            self._real.write(data[start:off])
            ctl.emitted.append(data[start:off])
            ctl.write_bytes += off - start
            if ctl.flush:
                self._real.flush()
            start = off
        return size


class _TmpProxy(object):
    """The object NamedTemporaryFile returned."""

    def __init__(self, ctl, real):
        self._ctl = ctl
        self._real = real

    def __getattr__(self, name):
        return getattr(self._real, name)

    def __enter__(self):
        self._real.__enter__()
        return self

    def __exit__(self, etype, value, trace):
        if etype is None:
            try:
                self._ctl.point('close')
            except InjectedFault:
                self._real.close()
                raise
        return self._real.__exit__(etype, value, trace)


class _TempfileShim(object):
    def __init__(self, ctl):
        self._ctl = ctl

    def __getattr__(self, name):
        return getattr(_real_tempfile, name)

    def NamedTemporaryFile(self, *args, **kwargs):  # pylint: disable=C0103
        self._ctl.point('mktemp:before')
        real = _real_tempfile.NamedTemporaryFile(*args, **kwargs)
        self._ctl.tmp_ino = os.fstat(real.fileno()).st_ino
        self._ctl.point('mktemp:after', raisable=False)
        return _TmpProxy(self._ctl, real)


class _OsShim(object):
    def __init__(self, ctl):
        self._ctl = ctl

    def __getattr__(self, name):
        return getattr(os, name)

    def fchmod(self, fileno, mode):
        self._ctl.point('fchmod')
        return os.fchmod(fileno, mode)


class Hooks(object):
    """Context manager installing the wrappers inside treadmill.fs."""

    NAMES = ('tempfile', 'os', 'replace', 'rm_safe', 'write_safe')

    def __init__(self, ctl):
        self.ctl = ctl
        self.saved = {}

    def __enter__(self):
        ctl = self.ctl
        for name in self.NAMES:
            self.saved[name] = getattr(fs, name)
        real_replace = fs.replace
        real_rm_safe = fs.rm_safe
        real_write_safe = fs.write_safe

        def replace(path_from, path_to):
            ctl.point('replace:before')
            res = real_replace(path_from, path_to)
            ctl.point('replace:after', raisable=False)
            return res

        def rm_safe(path):
            res = real_rm_safe(path)
            ctl.point('cleanup:after', raisable=False)
            return res

        def write_safe(filename, func, *args, **kwargs):
            ctl.writes += 1
            ctl.write_bytes = 0
            ctl.tmp_ino = None

            def dump(stream):
                ctl.emitted = []
                ctl.point('dump:before')
                func(_StreamProxy(ctl, stream))
                whole = ctl.emitted[0][:0].join(ctl.emitted) \
                    if ctl.emitted else b''
                if isinstance(whole, str):
                    whole = whole.encode()
                ctl.world.intended[os.path.basename(filename)] = whole
                ctl.point('dump:after')

            res = real_write_safe(filename, dump, *args, **kwargs)
            if ctl.tmp_ino is not None and \
                    os.stat(filename).st_ino != ctl.tmp_ino:
                raise Violation(
                    'c12.atomic.published-not-by-rename',
                    '%r was not published by renaming the temp file onto it '
                    '(inode differs): a reader can see it while it is being '
                    'produced' % os.path.basename(filename))
            return res

        fs.tempfile = _TempfileShim(ctl)
        fs.os = _OsShim(ctl)
        fs.replace = replace
        fs.rm_safe = rm_safe
        fs.write_safe = write_safe
        return self

    def __exit__(self, *exc):
        for name, value in self.saved.items():
            setattr(fs, name, value)
        return False


# -- every file system operation of the agent, whoever performs it ----------
# Python raises an audit event *before* each of these operations, so looking
# at the directory at every event (and once more at the end) is looking at it
# after every operation; raising from the hook makes the operation fail.
FS_EVENTS = frozenset([
    'open', 'tempfile.mkstemp', 'tempfile.mkdtemp', 'os.rename', 'os.remove',
    'os.chmod', 'os.chown', 'os.mkdir', 'os.rmdir', 'os.link', 'os.symlink',
    'os.truncate', 'os.utime', 'os.listdir', 'os.scandir', 'shutil.copyfile',
    'shutil.copymode', 'shutil.copystat', 'shutil.move', 'shutil.rmtree',
    'os.setxattr', 'os.removexattr',
])
_READ_ONLY = frozenset(['os.listdir', 'os.scandir'])
_WRITE_FLAGS = os.O_WRONLY | os.O_RDWR | os.O_CREAT | os.O_TRUNC | os.O_APPEND
_AUDIT = {'watch': None, 'installed': False}


def _audit_hook(event, args):
    watch = _AUDIT['watch']
    if watch is None or watch.busy or event not in FS_EVENTS:
        return
    watch.event(event, args)


class AuditWatch(object):
    """While active, every file system operation that names a path below the
    cache directory (or works on an open descriptor) is a point of `ctl`:
    the directory is observed, and mutating operations can be made to fail.
    Nothing of treadmill is replaced for this."""

    def __init__(self, world, ctl, raisable=False):
        self.world = world
        self.ctl = ctl
        self.raisable = raisable
        self.busy = False
        self.prefix = world.cache.rstrip('/')
        self.mutations = 0

    def __enter__(self):
        if not _AUDIT['installed']:
            sys.addaudithook(_audit_hook)
            _AUDIT['installed'] = True
        _AUDIT['watch'] = self
        return self

    def __exit__(self, *exc):
        _AUDIT['watch'] = None
        return False

    def _relevant(self, args):
        for arg in args:
            if isinstance(arg, bytes):
                arg = os.fsdecode(arg)
            if isinstance(arg, str):
                if arg == self.prefix or arg.startswith(self.prefix + '/'):
                    return True
            elif isinstance(arg, int) and not isinstance(arg, bool) and \
                    arg is args[0]:
                return True       # operation on a descriptor
        return False

    def event(self, event, args):
        if not self._relevant(args):
            return
        mutating = event not in _READ_ONLY
        if event == 'open':
            mode, flags = (list(args) + [None, None])[1:3]
            if isinstance(args[0], int):
                mutating = False          # wraps an existing descriptor
            elif isinstance(mode, str):
                mutating = any(char in mode for char in 'wax+')
            else:
                mutating = bool((flags or 0) & _WRITE_FLAGS)
        if mutating:
            self.mutations += 1
        self.busy = True
        try:
            self.ctl.point('fs:' + event,
                           raisable=self.raisable and mutating)
        finally:
            self.busy = False


class _NoSleep(object):
    """`time` of eventmgr during run(): the heartbeat sleep returns at once."""

    def sleep(self, _seconds):
        return None

    def __getattr__(self, name):
        import time as real_time
        return getattr(real_time, name)


def run_once(world):
    """The real EventMgr.run(once=True): presence watch, placement watch with
    the first synchronisation, ready notifications, heartbeat. Replaced:
    context.GLOBAL.zk (the fake client), eventmgr.time.sleep, and
    utils.exit_on_unhandled (so a failure propagates instead of os._exit)."""
    saved_zk = context.GLOBAL.zk
    saved_time = eventmgr.time
    saved_exit = utils.exit_on_unhandled
    context.GLOBAL.zk = types.SimpleNamespace(conn=world.zk)
    eventmgr.time = _NoSleep()
    utils.exit_on_unhandled = lambda func: func
    try:
        world.evmgr.run(once=True)
    finally:
        context.GLOBAL.zk = saved_zk
        eventmgr.time = saved_time
        utils.exit_on_unhandled = saved_exit


def agent_step(world, step, ctl, raisable=False):
    """One thing the node agent does, with every fs operation observed."""
    # pylint: disable=protected-access
    if isinstance(step, dict):
        # the scheduler's side of a history step (the harness reads the
        # directory here, so outside the audit watch)
        world.begin_event(step)
    try:
        with AuditWatch(world, ctl, raisable) as watch:
            if isinstance(step, dict):
                before = len(ctl.points)
                try:
                    world.deliver_event(step)
                finally:
                    world.last_event['fs_points'] = len(ctl.points) - before
            elif step == 'run_once':
                run_once(world)
                if z.path.placement(world.host) in world.tree.nodes:
                    world.watching = True
            elif step == 'notify_ready':
                world.evmgr._cache_notify(True)
            elif step == 'notify_stale':
                world.evmgr._cache_notify(False)
            elif step == 'sync':
                world.evmgr._synchronize(world.zk, list(world.expected),
                                         check_existing=True)
            else:
                raise AssertionError('unknown step %r' % (step,))
    finally:
        # a violation seen at a point wins over whatever the unwinding (or
        # a handler in the code under test) turned it into
        if ctl.violation is not None:
            raise ctl.violation
    return watch.mutations


def synchronize(world, ctl, check_existing=None):
    """Run the real _synchronize under the hooks; the audit watch also looks
    at the directory after every other operation (unlink of extras, ...).
    check_existing: None = what the case says; True = the first
    synchronisation of a (re)started agent."""
    if check_existing is None:
        check_existing = bool(world.case.get('check_existing'))
    try:
        with Hooks(ctl), AuditWatch(world, ctl, raisable=False):
            # pylint: disable=protected-access
            world.evmgr._synchronize(
                world.zk, list(world.expected),
                check_existing=check_existing)
    finally:
        if ctl.violation is not None:
            raise ctl.violation


class PrefixedStats(object):
    """Counters of a secondary run kept apart from those of the main run."""

    def __init__(self, stats, prefix):
        self._stats = stats
        self._prefix = prefix

    def count(self, key, num=1):
        if self._stats is not None:
            self._stats.count(self._prefix + key, num)


def check_after_sync(world, stats, prefix='c12.sync',
                     where='after the synchronisation', check_existing=None):
    """Oracle of a completed synchronisation (one that returned normally).

    prefix / where: which synchronisation completed ('c12.sync': a fault free
    one; 'c12.fault.sync-completed': one in which a step of a file write was
    made to fail and that returned normally all the same; 'c12.recovery': the
    first one of the agent restarted after an aborted one).
    check_existing: whether that synchronisation had to refresh outdated
    entries (None: what the case says)."""
    case = world.case
    if check_existing is None:
        check_existing = bool(case.get('check_existing'))
    visible = world.visible()
    expected = set(world.expected)
    for name in visible:
        if name not in expected:
            bucket = prefix + ('.unplaced-entry-left' if name in world.prior
                               else '.foreign-name')
            raise Violation(
                bucket, '%s the cache names %r, which '
                'is not placed on the node (placed: %s)' % (
                    where, name, sorted(expected)))
    for name in sorted(expected):
        inst = world.insts[name]
        new = world.new[name]
        present = name in visible
        if new is not None and not present:
            raise Violation(
                prefix + '.placed-without-file',
                '%s %r is placed, its placement node and manifest exist, but '
                'it has no cache file' % (where, name))
        if not present:
            continue
        data = world.read(name)
        fstat = os.stat(os.path.join(world.cache, name))
        now = (fstat.st_ino, fstat.st_ctime_ns, fstat.st_mtime_ns)
        written = name not in world.prior or \
            world.prior_stat[name] != now or data != world.prior[name]
        if written:
            stats.count('files_written')
            if new is None or not typed_equal(parse(data), new):
                raise Violation(
                    prefix + '.written-content',
                    '%s file %r written by the synchronisation differs from '
                    'the manifest stored in ZooKeeper merged with the '
                    'placement data and task id: %s' % (
                        where, name,
                        first_diff(parse(data), new) if new is not None
                        else 'nothing should have been written'))
        else:
            stats.count('files_kept')
        outdated = (check_existing and name in world.prior and
                    new is not None and inst.get('rel') == 'after')
        if outdated:
            stats.count('outdated_seen')
            if not typed_equal(parse(data), new):
                raise Violation(
                    prefix + '.outdated-not-refreshed',
                    '%s check_existing: %r is older than its placement node '
                    'but still holds the old content' % (where, name))
