"""E8 - the app monitor (treadmill.sproc.appmonitor) against a token-bucket model.

A history is executed by the REAL ``appmonitor._run_sync`` loop: its watches
(kazoo's ChildrenWatch recipe and treadmill's ExistingDataWatch, both the real
classes) are registered on a small in-memory ZooKeeper (``MiniZk``), its
``time`` is a virtual clock whose ``sleep`` is the hook that applies the next
round of the history (monitors written through ``masterapi.update_appmonitor``
/ ``delete_appmonitor``, instances dying or being started by somebody else,
the clock jumping), and ``restclient.post`` is a recorder that succeeds (and
then really adds / removes ``/scheduled`` nodes) or fails with one of the
handled exception kinds.  ``appmonitor.reevaluate`` is wrapped so that every
evaluation is compared with ``Model`` - an independent token bucket per
monitor in exact rational arithmetic over integer microseconds.
"""

import json
import math
import threading
import zlib
from fractions import Fraction

from hypothesis import strategies as st

from pbt.run import Violation

EPOCH0_US = 1578268800 * 1000000
HOUR_US = 3600 * 1000000
DELAY_US = 300 * 1000000
EPS = Fraction(1, 1000000)

APPMON = '/app-monitors'
SCHED = '/scheduled'


class StopLoop(BaseException):
    """Raised from the clock's sleep() when the history is exhausted."""


# --------------------------------------------------------------------------
# clock
# --------------------------------------------------------------------------

class Clock(object):
    """Integer microseconds; +2us per read; sleep() runs the history hook."""

    def __init__(self):
        self.us = EPOCH0_US
        self.hook = None

    def time(self):
        now = self.us / 1000000.0
        self.us += 2
        return now

    def sleep(self, seconds):
        self.us += int(seconds * 1000000)
        if self.hook is not None:
            self.hook()


# --------------------------------------------------------------------------
# in-memory ZooKeeper (the subset reached from appmonitor / masterapi)
# --------------------------------------------------------------------------

class _Handler(object):
    @staticmethod
    def lock_object():
        return threading.Lock()

    @staticmethod
    def sleep_func(_seconds):
        raise AssertionError('harness: zk retry slept')

    @staticmethod
    def spawn(func, *args, **kwargs):
        return func(*args, **kwargs)


class MiniZk(object):
    """Nodes with data and mzxid, one-shot data/child watches delivered
    synchronously after the mutation, in registration order."""

    def __init__(self):
        self.nodes = {'/': [b'', 0]}
        self.zxid = 0
        self.data_watches = {}
        self.child_watches = {}
        self.handler = _Handler()
        self.sets = 0
        self.seq = 0
        self.listeners = []
        # order in which get_children lists a node (ZooKeeper promises none:
        # the server walks a hash set): None/'created' = creation order,
        # 'reverse', or ['hash', salt] = by crc32 of salt + name
        self.listing = None

    def _listed(self, names):
        """`names` (creation order) in the listing order of this history."""
        mode = self.listing
        if mode in (None, 'created'):
            return names
        if mode == 'reverse':
            return names[::-1]
        if isinstance(mode, list) and mode[0] == 'hash':
            salt = ('%d:' % mode[1]).encode()
            return sorted(names, key=lambda name: (
                zlib.crc32(salt + name.encode()), name))
        raise AssertionError('harness: listing %r' % (mode,))

    # -- kazoo client surface ------------------------------------------------
    def add_listener(self, listener):
        # KazooClient.state_listeners is a set
        if listener not in self.listeners:
            self.listeners.append(listener)

    def remove_listener(self, listener):
        if listener in self.listeners:
            self.listeners.remove(listener)

    def _state_change(self, state):
        """KazooClient._make_state_change."""
        for listener in list(self.listeners):
            if listener(state) is True:
                self.remove_listener(listener)

    def _reset_watchers(self):
        """KazooClient._reset_watchers: forget every client-side watcher and
        tell each one (event type NONE) that it is gone."""
        from kazoo.protocol import states
        watchers_ = []
        for table in (self.child_watches, self.data_watches):
            for path in sorted(table):
                watchers_.extend(table[path])
            table.clear()
        event = states.WatchedEvent(type=states.EventType.NONE,
                                    state='CONNECTING', path=None)
        return [lambda w=watcher: w(event) for watcher in watchers_]

    def reconnect(self, lost, late):
        """The connection drops (SUSPENDED, or LOST = session expired) and
        comes back; no node changes.  As in KazooClient._session_callback the
        listeners hear the bad state, all watchers are reset and notified with
        a NONE event, then the listeners hear CONNECTED.  A watcher that reacts
        to NONE by reading (ExistingDataWatch) blocks in its retry until the
        connection is back: `late` says whether that read completes before or
        after the CONNECTED listeners ran (both orders happen, the callbacks
        run on a different thread than the listeners)."""
        from kazoo.protocol import states
        self._state_change(states.KazooState.LOST if lost
                           else states.KazooState.SUSPENDED)
        pending = self._reset_watchers()
        if not late:
            for notify in pending:
                notify()
        self._state_change(states.KazooState.CONNECTED)
        if late:
            for notify in pending:
                notify()

    @staticmethod
    def retry(func, *args, **kwargs):
        return func(*args, **kwargs)

    @staticmethod
    def make_default_acl(_acl):
        return []

    @staticmethod
    def make_servers_acl():
        return None

    def set_acls(self, _path, _acl):
        pass

    def ChildrenWatch(self, path, *args, **kwargs):  # pylint: disable=C0103
        from kazoo.recipe import watchers
        return watchers.ChildrenWatch(self, path, *args, **kwargs)

    def _stat(self, path):
        from kazoo.protocol import states
        mzxid = self.nodes[path][1]
        return states.ZnodeStat(
            czxid=0, mzxid=mzxid, ctime=0, mtime=0, version=0, cversion=0,
            aversion=0, ephemeralOwner=0,
            dataLength=len(self.nodes[path][0]), numChildren=0, pzxid=0)

    @staticmethod
    def _parent(path):
        head = path.rsplit('/', 1)[0]
        return head or '/'

    def _fire(self, table, path, kind):
        from kazoo.protocol import states
        watchers_ = table.pop(path, [])
        event = states.WatchedEvent(type=kind, state='CONNECTED', path=path)
        for watcher in watchers_:
            watcher(event)

    def exists(self, path, watch=None):
        return self._stat(path) if path in self.nodes else None

    def get(self, path, watch=None):
        from kazoo import exceptions
        if path not in self.nodes:
            raise exceptions.NoNodeError(path)
        if watch is not None:
            registered = self.data_watches.setdefault(path, [])
            if watch not in registered:      # kazoo keeps a set per path
                registered.append(watch)
        return self.nodes[path][0], self._stat(path)

    def get_children(self, path, watch=None):
        from kazoo import exceptions
        if path not in self.nodes:
            raise exceptions.NoNodeError(path)
        if watch is not None:
            registered = self.child_watches.setdefault(path, [])
            if watch not in registered:
                registered.append(watch)
        prefix = path.rstrip('/') + '/'
        return self._listed([
            name[len(prefix):] for name in self.nodes
            if name.startswith(prefix) and '/' not in name[len(prefix):]
        ])

    def ensure_path(self, path):
        parts = [part for part in path.split('/') if part]
        cur = ''
        for part in parts:
            cur += '/' + part
            if cur not in self.nodes:
                self.create(cur, b'')

    def create(self, path, value=b'', acl=None, ephemeral=False,
               sequence=False, makepath=False):
        from kazoo import exceptions
        assert not ephemeral
        if sequence:
            # one counter for the whole tree is enough here (real ZooKeeper
            # counts per parent): names stay unique and increasing
            self.seq += 1
            path = '%s%010d' % (path, self.seq)
        if path in self.nodes:
            raise exceptions.NodeExistsError(path)
        parent = self._parent(path)
        if parent not in self.nodes:
            if not makepath:
                raise exceptions.NoNodeError(parent)
            self.ensure_path(parent)
        self.zxid += 1
        self.nodes[path] = [value, self.zxid]
        self._fire(self.child_watches, parent, 'CHILD')
        return path

    def set(self, path, value, version=-1):
        from kazoo import exceptions
        if path not in self.nodes:
            raise exceptions.NoNodeError(path)
        self.zxid += 1
        self.sets += 1
        self.nodes[path] = [value, self.zxid]
        self._fire(self.data_watches, path, 'CHANGED')
        return self._stat(path)

    def delete(self, path, version=-1, recursive=False):
        from kazoo import exceptions
        if path not in self.nodes:
            raise exceptions.NoNodeError(path)
        if self.get_children(path):
            raise exceptions.NotEmptyError(path)
        self.zxid += 1
        del self.nodes[path]
        self._fire(self.data_watches, path, 'DELETED')
        self._fire(self.child_watches, path, 'DELETED')
        self._fire(self.child_watches, self._parent(path), 'CHILD')

    # -- ground truth for the model -------------------------------------------
    def instances(self, app):
        """Instance names of `app`, oldest (lowest sequence number) first."""
        out = []
        for name in self.get_children(SCHED):
            head, _sep, seq = name.rpartition('#')
            if head == app:
                out.append((int(seq), name))
        return [name for _seq, name in sorted(out)]


class ApiZk(object):
    """The ZooKeeper session of the cell API server: same tree as the
    monitor's, its own connection.  One armed fault hits the (skip+1)-th next
    write: 'before' = ConnectionLoss, the request never reached the server;
    'after' = the server applied it, the reply is lost (ConnectionLoss);
    'expired' = SessionExpiredError, nothing applied."""

    def __init__(self, tree, stats):
        self._tree = tree
        self._stats = stats
        self.fault = None

    def __getattr__(self, name):
        return getattr(self._tree, name)

    def _write(self, apply):
        from kazoo import exceptions
        flt = self.fault
        if flt is None:
            return apply()
        if flt[1] > 0:
            flt[1] -= 1
            return apply()
        self.fault = None
        self._stats.count('zkfault:' + flt[0])
        if flt[0] == 'expired':
            raise exceptions.SessionExpiredError()
        if flt[0] == 'after':
            try:
                apply()
            except (exceptions.NoNodeError, exceptions.NodeExistsError,
                    exceptions.NotEmptyError):
                pass            # the error reply is lost as well
        raise exceptions.ConnectionLoss()

    def create(self, path, value=b'', acl=None, ephemeral=False,
               sequence=False, makepath=False):
        return self._write(lambda: self._tree.create(
            path, value, acl=acl, ephemeral=ephemeral, sequence=sequence,
            makepath=makepath))

    def set(self, path, value, version=-1):
        return self._write(lambda: self._tree.set(path, value, version))

    def delete(self, path, version=-1, recursive=False):
        return self._write(lambda: self._tree.delete(path, version))


MANIFEST = {
    'cpu': '10%', 'memory': '100M', 'disk': '100M', 'tickets': [],
    'endpoints': [{'name': 'http', 'port': 8888}],
    'services': [{'command': '/bin/sleep 1000', 'name': 'sleep',
                  'restart': {'interval': 60, 'limit': 3}}],
    'features': [], 'ephemeral_ports': {}, 'passthrough': [], 'args': [],
    'environ': [], 'affinity_limits': {},
}


class _SitePlugin(object):
    """The site specific instance plugin (not in the repo): the instance API
    needs one to fill in proid and environment."""

    @staticmethod
    def add_attributes(rsrc_id, manifest):
        manifest = dict(manifest)
        manifest['proid'] = rsrc_id.partition('.')[0]
        manifest['environment'] = 'dev'
        return manifest

    @staticmethod
    def remove_attributes(manifest):
        return manifest


class _AdminApps(object):
    """admin.application(): what LDAP says about the monitored apps."""

    def __init__(self, run):
        self._run = run

    def get(self, rsrc_id):
        import copy
        from treadmill.admin import exc as admin_exc
        how = self._run.api.get(rsrc_id, 'ok')
        if how == 'notfound':
            raise admin_exc.NoSuchObjectResult(rsrc_id)
        manifest = copy.deepcopy(MANIFEST)
        manifest['_id'] = rsrc_id
        if how == 'badrequest':
            manifest['memory'] = '50M'     # refused by the instance API
        return manifest


class _AdminStub(object):
    def __init__(self, run):
        self._apps = _AdminApps(run)

    def application(self):
        return self._apps


_INSTANCE_API = {}


def _instance_api():
    if 'api' not in _INSTANCE_API:
        import inspect
        import decorator
        if not hasattr(decorator, 'getargspec'):
            decorator.getargspec = inspect.getfullargspec
        from treadmill.api import instance
        api = instance.API()
        api._plugins = [_SitePlugin()]       # pylint: disable=W0212
        _INSTANCE_API['api'] = api
    return _INSTANCE_API['api']


# --------------------------------------------------------------------------
# reference model
# --------------------------------------------------------------------------

class Model(object):
    """One token bucket per configured monitor; suspension per name."""

    def __init__(self):
        self.confs = {}
        self.cfg = {}
        self.susp = {}
        self.flags = set()

    def admin_update(self, name, count, policy):
        """What the administrator asked for: update_appmonitor(count, policy)
        with None meaning 'leave as configured'.  Returns True if this was a
        count-only update of a monitor configured lifo."""
        cfg = self.cfg.setdefault(name, {})
        count_only_lifo = (count is not None and policy is None and
                           cfg.get('policy') == 'lifo')
        if count is not None:
            cfg['count'] = count
        if policy is not None:
            cfg['policy'] = policy
        return count_only_lifo

    def configure(self, name, written, now_us):
        """Apply the configured count/policy; `written` says whether the
        monitor node's content changed (that is what starts a new budget)."""
        cfg = self.cfg.get(name, {})
        if 'count' not in cfg:
            return                      # no count yet: not a valid monitor
        conf = self.confs.get(name)
        if conf is not None and not written:
            conf['count'] = cfg['count']
            conf['policy'] = cfg.get('policy')
            return
        count = cfg['count']
        self.confs[name] = {
            'count': count,
            'policy': cfg.get('policy'),
            'tokens': Fraction(2 * count),
            'last_us': now_us,
            'start_us': now_us,
            'created': 0,
            'dry': False,
            'count_only_lifo': False,
        }

    def remove(self, name):
        self.confs.pop(name, None)
        self.cfg.pop(name, None)

    def begin(self, now_us):
        """Start of an evaluation: who is active and with how many tokens."""
        for name in list(self.susp):
            if name not in self.confs:
                del self.susp[name]
        active = {}
        for name, conf in self.confs.items():
            until = self.susp.get(name)
            if until is not None:
                if until > now_us:
                    continue
                del self.susp[name]
                self.flags.add('resumed')
            cap = Fraction(2 * conf['count'])
            if conf['tokens'] < cap:
                rate = Fraction(2 * conf['count'], HOUR_US)
                conf['tokens'] = min(
                    cap, conf['tokens'] + rate * (now_us - conf['last_us']))
            conf['last_us'] = now_us
            active[name] = conf
        return active


def _floor(frac):
    return int(math.floor(frac))


# --------------------------------------------------------------------------
# driver
# --------------------------------------------------------------------------

class _Resp(object):
    """Stand-in for a requests response carried by restclient errors."""
    text = 'fake'

    @staticmethod
    def json():
        return {'message': 'fake'}


class Run(object):
    """One history against the real _run_sync."""

    def __init__(self, case, stats):
        self.case = case
        self.stats = stats
        self.zk = MiniZk()
        self.clock = Clock()
        self.model = Model()
        self.zk.seq = case['seq0']
        self.zk.listing = case.get('listing')
        self.real_api = bool(case.get('real_api'))
        self.apizk = ApiZk(self.zk, stats)
        self.verdict = None
        self.outcomes = {}
        self.round = -1
        self.api = {}
        self.calls = []
        self.alerts = 0
        self.evals = 0

    # -- environment --------------------------------------------------------
    def _spawn(self, app, howmany):
        for _ in range(howmany):
            self.zk.create('%s/%s#' % (SCHED, app), b'', sequence=True)

    def _mon_path(self, name):
        return '%s/%s' % (APPMON, name)

    def apply(self, oper):
        from treadmill.scheduler import masterapi
        kind = oper[0]
        self.stats.count('op:' + kind)
        if kind == 'mon':
            _k, name, count, policy = oper
            path = self._mon_path(name)
            before = self.zk.nodes.get(path, [None, None])[1]
            masterapi.update_appmonitor(self.zk, name, count, policy)
            after = self.zk.nodes[path][1]
            # the model follows the configuration as issued, not what ended
            # up in the node; only "was the node rewritten" is observed
            count_only_lifo = self.model.admin_update(name, count, policy)
            self.model.configure(name, after != before, self.clock.us)
            conf = self.model.confs.get(name)
            if conf is not None:
                if count_only_lifo:
                    self.stats.count('mon:count-only-on-lifo')
                    conf['count_only_lifo'] = True
                elif policy is not None:
                    conf['count_only_lifo'] = False
        elif kind == 'delmon':
            masterapi.delete_appmonitor(self.zk, oper[1])
            self.model.remove(oper[1])
        elif kind == 'die':
            _k, app, picks = oper
            for pick in picks:
                live = self.zk.instances(app)
                if live:
                    self.zk.delete('%s/%s' % (SCHED, live[pick % len(live)]))
        elif kind == 'dieall':
            for name in self.zk.instances(oper[1]):
                self.zk.delete('%s/%s' % (SCHED, name))
        elif kind == 'spawn':
            self._spawn(oper[1], oper[2])
        elif kind == 'reconnect':
            # the model does nothing: same budgets, suspensions, instances
            self.zk.reconnect(lost=oper[1] == 'lost', late=bool(oper[2]))
            self.model.flags.add('reconnected')
            if any(conf['tokens'] < 2 * conf['count']
                   for conf in self.model.confs.values()):
                self.stats.count('reconnect:with-spent-budget')
            if self.model.susp:
                self.stats.count('reconnect:while-suspended')
        else:
            raise AssertionError('harness: op %r' % (oper,))

    # -- fake REST API --------------------------------------------------------
    def post_real(self, url, payload, headers):
        """The HTTP hop (one attempt) into the real instance API and
        masterapi, on the API server's own ZooKeeper session.  Dispatch as
        treadmill.rest.api.instance does, errors mapped as
        rest.error_handlers + restclient._handle_error do."""
        import jsonschema
        import kazoo.exceptions
        from treadmill import context
        from treadmill import exc
        from treadmill import restclient
        from treadmill.admin import exc as admin_exc
        impl = _instance_api()
        user = (headers or {}).get('X-Treadmill-Trusted-Agent')
        prefix = '/instance/'
        if url == '/instance/_bulk/delete':
            named = list(payload['instances'])
            apps = sorted(set(i.rpartition('#')[0] for i in named))
            app = apps[0] if len(apps) == 1 else None
            call = ('delete', app, named)
        else:
            assert url.startswith(prefix) and '?count=' in url, url
            app, _sep, num = url[len(prefix):].partition('?count=')
            call = ('create', app, int(num))
        self.calls.append(call)
        how = self.api.get(app, 'ok')
        if isinstance(how, list):
            self.apizk.fault = [how[1], how[2]]
        before = set(self.zk.get_children(SCHED))
        saved = (context.GLOBAL.zk._conn,     # pylint: disable=W0212
                 context.GLOBAL.admin._conn)  # pylint: disable=W0212
        context.GLOBAL.zk.conn = self.apizk
        context.GLOBAL.admin._conn = _AdminStub(self)  # pylint: disable=W0212
        outcome = 'ok'
        error = None
        try:
            if call[0] == 'delete':
                if named:
                    impl.bulk_delete(named[0].partition('.')[0], named, user)
            else:
                impl.create(app, payload, call[2], user, False, None)
        except (kazoo.exceptions.NoNodeError, admin_exc.NoSuchObjectResult,
                exc.NotFoundError) as err:
            outcome, error = 'notfound', err
        except (exc.InvalidInputError, exc.QuotaExceededError,
                jsonschema.exceptions.ValidationError) as err:
            outcome, error = 'badrequest', err
        except Exception as err:  # pylint: disable=broad-except
            outcome, error = 'error', err        # HTTP 500
        finally:
            context.GLOBAL.zk.conn = saved[0]
            context.GLOBAL.admin._conn = saved[1]  # pylint: disable=W0212
            self.apizk.fault = None
        after = set(self.zk.get_children(SCHED))
        appeared = sorted(after - before)
        vanished = sorted(before - after)
        self.outcomes[app] = outcome
        self.stats.count('api:real:%s:%s' % (call[0], outcome))
        where = 'round %d' % self.round
        if call[0] == 'create':
            if len(appeared) > call[2] or vanished or any(
                    name.rpartition('#')[0] != app for name in appeared):
                # (reevaluate catches Exception around the request: the
                # verdict is kept and raised when the evaluation returns)
                self.verdict = Violation(
                    'c20.create.more-than-asked',
                    '%s: the monitor asked for %d x %s (request ended: %s '
                    '%r), %d instance(s) came into existence: %r (vanished: '
                    '%r)' % (where, call[2], app, outcome, error,
                             len(appeared), appeared, vanished))
            if outcome != 'ok' and appeared:
                self.stats.count('api:real:create:failed-partially-applied')
        else:
            if appeared or not set(vanished) <= set(call[2]):
                self.verdict = Violation(
                    'c20.delete.more-than-named',
                    '%s: the monitor named %r (request ended: %s %r), '
                    'vanished: %r, appeared: %r'
                    % (where, call[2], outcome, error, vanished, appeared))
        if outcome == 'notfound':
            raise restclient.NotFoundError('Resource not found: %s' % url)
        if outcome == 'badrequest':
            raise restclient.BadRequestError(_Resp())
        if outcome == 'error':
            raise restclient.MaxRequestRetriesError(5)
        return _Resp()

    def retry_sleep(self, seconds):
        """KazooRetry's sleep (zkutils.with_retry): virtual time passes."""
        self.stats.count('zk_retry_sleeps')
        self.clock.us += 100000

    def post(self, api, url, payload, headers=None, **_kwargs):
        from treadmill import restclient
        if self.real_api:
            return self.post_real(url, payload, headers)
        if url == '/instance/_bulk/delete':
            instances = list(payload['instances'])
            apps = sorted(set(i.rpartition('#')[0] for i in instances))
            app = apps[0] if len(apps) == 1 else None
            self.calls.append(('delete', app, instances))
            how = self.api.get(app, 'ok')
            self.outcomes[app] = 'ok' if how == 'ok' else 'error'
            self.stats.count('api:delete:' + ('ok' if how == 'ok' else 'fail'))
            if how != 'ok':
                raise restclient.MaxRequestRetriesError(5)
            for inst in instances:
                if '%s/%s' % (SCHED, inst) in self.zk.nodes:
                    self.zk.delete('%s/%s' % (SCHED, inst))
            return _Resp()
        prefix = '/instance/'
        assert url.startswith(prefix) and '?count=' in url, url
        app, _sep, num = url[len(prefix):].partition('?count=')
        num = int(num)
        self.calls.append(('create', app, num))
        how = self.api.get(app, 'ok')
        self.outcomes[app] = how
        self.stats.count('api:create:' + how)
        if how == 'ok':
            self._spawn(app, num)
            return _Resp()
        if how == 'notfound':
            raise restclient.NotFoundError('no such app')
        if how == 'badrequest':
            raise restclient.BadRequestError(_Resp())
        if how == 'validation':
            raise restclient.ValidationError(_Resp())
        if how == 'toomany':
            raise restclient.TooManyRequestsError(_Resp())
        if how == 'conflict':
            raise restclient.AlreadyExistsError('exists')
        raise restclient.MaxRequestRetriesError(5)

    # -- one evaluation ---------------------------------------------------------
    def evaluate(self, real, api_url, alert_f, state, zkclient, last_waited):
        model = self.model
        now_us = self.clock.us           # what the next time.time() returns
        where = 'round %d' % self.round
        active = model.begin(now_us)
        truth = {name: self.zk.instances(name) for name in model.confs}
        # as /scheduled lists them (what the monitor's watch was handed)
        listed = {name: [] for name in model.confs}
        for child in self.zk.get_children(SCHED):
            if child.rpartition('#')[0] in listed:
                listed[child.rpartition('#')[0]].append(child)
        before = {name: conf['tokens'] for name, conf in active.items()}
        self.calls = []
        self.outcomes = {}
        self.verdict = None
        self.evals += 1
        self.stats.count('evaluations_of_monitor', len(model.confs))

        result = real(api_url, alert_f, state, zkclient, last_waited)
        if self.verdict is not None:
            raise self.verdict

        by_app = {}
        for call in self.calls:
            by_app.setdefault(call[1], []).append(call)
        for app, calls in sorted(by_app.items(), key=lambda kv: str(kv[0])):
            kinds = sorted(set(call[0] for call in calls))
            if app is None:
                raise Violation('c20.delete.mixed-apps',
                                '%s: one delete names instances of several '
                                'apps: %r' % (where, calls))
            if kinds == ['create', 'delete']:
                raise Violation('c20.create-and-delete',
                                '%s: %s created and deleted in one '
                                'evaluation: %r' % (where, app, calls))
            if len(calls) > 1:
                raise Violation('c20.action.repeated',
                                '%s: %d requests for %s in one evaluation: %r'
                                % (where, len(calls), app, calls))
            if app not in model.confs:
                raise Violation('c20.action.no-monitor',
                                '%s: %r but %s has no (valid) monitor'
                                % (where, calls[0], app))
            if app not in active:
                raise Violation('c20.action.suspended',
                                '%s: %r but %s is suspended until %d us '
                                '(now %d us)' % (where, calls[0], app,
                                                 model.susp[app], now_us))

        for name, conf in sorted(active.items()):
            call = by_app.get(name, [None])[0]
            count = conf['count']
            live = truth[name]
            cur = len(live)
            tokens = before[name]
            ctx = ('%s: monitor %s count=%d policy=%r current=%d tokens=%s'
                   % (where, name, count, conf['policy'], cur, float(tokens)))
            if cur == count:
                self.stats.count('state:on-target')
                if call is not None:
                    raise Violation('c20.action.on-target',
                                    '%s: %r' % (ctx, call))
            elif cur < count:
                missing = count - cur
                upper = min(missing, max(0, _floor(tokens + EPS)))
                lower = min(missing, max(0, _floor(tokens - EPS)))
                self.stats.count('state:missing')
                if upper < missing:
                    self.stats.count('state:budget-bound')
                    conf['dry'] = True
                    model.flags.add('ran_dry')
                if call is None:
                    if lower >= 1:
                        raise Violation(
                            'c20.progress.no-create',
                            '%s: nothing requested although %d missing and '
                            'budget allows %d' % (ctx, missing, lower))
                    self.stats.count('rate-limited')
                    continue
                if call[0] != 'create':
                    raise Violation('c20.delete.when-missing',
                                    '%s: %r' % (ctx, call))
                asked = call[2]
                if asked > missing:
                    raise Violation(
                        'c20.create.over-missing',
                        '%s: asked for %d, only %d missing'
                        % (ctx, asked, missing))
                if asked > upper:
                    raise Violation(
                        'c20.create.over-budget',
                        '%s: asked for %d, budget allows %d'
                        % (ctx, asked, upper))
                if asked < 1:
                    raise Violation(
                        'c20.create.non-positive',
                        '%s: asked for %d' % (ctx, asked))
                if asked < lower:
                    raise Violation(
                        'c20.progress.under-ask',
                        '%s: asked for %d, %d missing and budget allows %d'
                        % (ctx, asked, missing, lower))
                how = self.outcomes.get(name, 'ok')
                if how == 'ok':
                    conf['tokens'] -= asked
                    conf['created'] += asked
                    if conf['dry']:
                        model.flags.add('refilled')
                    # budget over the life of this configuration
                    allowance = 2 * count + Fraction(2 * count, HOUR_US) * (
                        now_us - conf['start_us'])
                    if conf['created'] > allowance + EPS:
                        raise Violation(
                            'c20.budget.history',
                            '%s: %d created since configured, allowance %s'
                            % (ctx, conf['created'], float(allowance)))
                elif how in ('notfound', 'badrequest', 'validation'):
                    model.susp[name] = now_us + DELAY_US
                    model.flags.add('suspended')
                else:
                    model.flags.add('generic_failure')
            else:
                surplus = cur - count
                policy = conf['policy']
                self.stats.count('state:surplus')
                oldest = live[:surplus]
                newest = live[cur - surplus:]
                if policy in (None, 'fifo'):
                    want = [oldest]
                elif policy == 'lifo':
                    want = [newest]
                else:
                    want = [None, oldest, newest]   # undefined: nothing, or
                    self.stats.count('state:surplus-invalid-policy')
                if call is None:
                    if None not in want:
                        raise Violation(
                            'c20.delete.missing',
                            '%s: surplus of %d not deleted' % (ctx, surplus))
                    continue
                if call[0] != 'delete':
                    raise Violation('c20.create.when-surplus',
                                    '%s: %r' % (ctx, call))
                named = call[2]
                if len(named) != len(set(named)) or len(named) != surplus:
                    raise Violation(
                        'c20.delete.not-the-surplus',
                        '%s: deletes %d instance(s) %r, surplus is %d'
                        % (ctx, len(named), named, surplus))
                if cur > surplus and listed[name] != live:
                    # the listing handed to the watch was not in id order
                    self.stats.count('delete:listing-not-in-id-order')
                    if (listed[name][:surplus] != oldest
                            and listed[name][cur - surplus:] != newest):
                        self.stats.count(
                            'delete:listing-ends-differ-from-age-ends')
                if not any(w is not None and sorted(w) == sorted(named)
                           for w in want):
                    if sorted(named) not in (sorted(oldest), sorted(newest)):
                        # neither the oldest nor the newest block: the
                        # instances were not picked by age at all
                        raise Violation(
                            'c20.delete.not-by-age',
                            '%s: deletes %r, neither the %d oldest nor the '
                            '%d newest of %r (/scheduled listed them as %r)'
                            % (ctx, named, surplus, surplus, live,
                               listed[name]))
                    raise Violation(
                        'c20.delete.wrong-end',
                        '%s: deletes %r, expected %r of %r'
                        % (ctx, named, want[0] if want[0] is not None
                           else want[1], live))
                if cur > surplus and policy == 'lifo':
                    self.stats.count('delete:lifo-distinguishing')
                    if conf.get('count_only_lifo'):
                        # a count-only update of a lifo monitor, then a
                        # scale-down whose ends differ
                        self.stats.count(
                            'delete:lifo-after-count-only-update')
                        conf['count_only_lifo'] = False
                elif cur > surplus:
                    self.stats.count('delete:fifo-distinguishing')
                model.flags.add('deleted')
        return result

    # -- the loop -----------------------------------------------------------------
    def hook(self):
        """Called from inside _run_sync's time.sleep(1)."""
        self.round += 1
        rounds = self.case['rounds']
        if self.round >= len(rounds):
            raise StopLoop()
        rnd = rounds[self.round]
        self.clock.us += rnd.get('dt', 0) * 1000000
        for oper in rnd.get('ops', []):
            self.apply(oper)
        self.api = rnd.get('api', {})

    def run(self):
        from treadmill import context
        from treadmill import restclient
        from treadmill import utils
        from treadmill.sproc import appmonitor

        self.zk.ensure_path(APPMON)
        self.zk.ensure_path(SCHED)
        if self.case.get('waited0'):
            self.zk.set(APPMON, json.dumps(
                {name: 0 for name in self.case['waited0']}).encode())
        for oper in self.case.get('init', []):
            self.apply(oper)
        # monitors that exist before the process starts are configured when
        # the watches are registered; a full bucket makes that instant moot.
        for conf in self.model.confs.values():
            conf['start_us'] = conf['last_us'] = self.clock.us

        def alerter(_alerts_dir, _cell):
            def send(*_args, **_kwargs):
                self.alerts += 1
            return send

        def crashed(code=0):
            raise AssertionError('harness: a watch callback of the app '
                                 'monitor died (exit %r)' % (code,))

        real = appmonitor.reevaluate

        def wrapped(api_url, alert_f, state, zkclient, last_waited):
            return self.evaluate(real, api_url, alert_f, state, zkclient,
                                 last_waited)

        import kazoo.retry
        from treadmill import trace
        saved = (appmonitor.time, appmonitor.reevaluate,
                 appmonitor.make_alerter, restclient.post, utils.sys_exit,
                 context.GLOBAL.zk._conn,  # pylint: disable=W0212
                 kazoo.retry.KazooRetry, trace.time)
        run = self

        class _VirtualRetry(saved[6]):
            """kazoo's real retry helper; only its default sleep becomes
            virtual (zkutils.with_retry would really sleep)."""
            def __init__(self, *args, **kwargs):
                kwargs.setdefault('sleep_func', run.retry_sleep)
                super(_VirtualRetry, self).__init__(*args, **kwargs)

        self.clock.hook = self.hook
        try:
            kazoo.retry.KazooRetry = _VirtualRetry
            trace.time = self.clock
            appmonitor.time = self.clock
            appmonitor.reevaluate = wrapped
            appmonitor.make_alerter = alerter
            restclient.post = self.post
            utils.sys_exit = crashed
            context.GLOBAL.cell = 'verif'
            context.GLOBAL.zk.conn = self.zk
            try:
                appmonitor._run_sync('http://api', '/nonexistent', False)
            except StopLoop:
                pass
        finally:
            (appmonitor.time, appmonitor.reevaluate, appmonitor.make_alerter,
             restclient.post, utils.sys_exit) = saved[:5]
            context.GLOBAL.zk.conn = saved[5]
            kazoo.retry.KazooRetry, trace.time = saved[6], saved[7]
        return self.model.flags


# --------------------------------------------------------------------------
# generator
# --------------------------------------------------------------------------

APPS = ['proid.web', 'proid.web-x', 'proid.web.x', 'other.db']
FAILS = ['notfound', 'notfound', 'badrequest', 'badrequest', 'validation',
         'validation', 'error', 'toomany', 'conflict']
POLICIES = [None, None, 'fifo', 'lifo', 'lifo', 'random']
DTS = [0, 0, 0, 0, 1, 5, 59, 298, 299, 300, 301, 600, 899, 1799, 1800, 1801,
       3599, 3600, 7200, 86400]


@st.composite
def _mon_op(draw, name):
    count = draw(st.one_of(st.integers(0, 6), st.integers(0, 6),
                           st.integers(0, 50)))
    return ['mon', name, count, draw(st.sampled_from(POLICIES))]


@st.composite
def cases(draw, max_rounds=30):
    napps = draw(st.integers(1, 3))
    # a third of the histories send the monitor's requests through the real
    # instance API + masterapi instead of the counting stand-in
    real_api = draw(st.integers(0, 2)) == 0
    apps = draw(st.permutations(APPS))[:napps]
    init = []
    for name in apps:
        roll = draw(st.integers(0, 3))
        if roll:
            init.append(draw(_mon_op(name)))
        if draw(st.integers(0, 2)) == 0:
            init.append(['spawn', name, draw(st.integers(1, 8))])
    rounds = []
    for _ in range(draw(st.integers(3, max_rounds))):
        ops = []
        api = {}
        for name in apps:
            roll = draw(st.integers(0, 99))
            if roll < 30:
                ops.append(['dieall', name])
            elif roll < 45:
                ops.append(['die', name, draw(st.lists(
                    st.integers(0, 60), min_size=1, max_size=4))])
            elif roll < 55:
                ops.append(['spawn', name, draw(st.integers(1, 5))])
            elif roll < 63:
                ops.append(draw(_mon_op(name)))
            elif roll < 66:
                ops.append(['mon', name, None,
                            draw(st.sampled_from(['fifo', 'lifo']))])
            elif roll < 69:
                ops.append(['delmon', name])
            elif roll < 75:
                # count-only update (what cron / multi-cell monitor send),
                # aimed low so that a scale-down follows
                ops.append(['mon', name, draw(st.integers(0, 3)), None])
            if real_api:
                roll = draw(st.integers(0, 11))
                if roll < 3:
                    # one-shot fault on the API server's ZooKeeper writes
                    # (scheduled create, trace create, ... in turn)
                    api[name] = ['fault', draw(st.sampled_from(
                        ['before', 'after', 'after', 'expired'])),
                                 draw(st.integers(0, 5))]
                elif roll < 5:
                    api[name] = draw(st.sampled_from(
                        ['notfound', 'badrequest']))
            elif draw(st.integers(0, 6)) == 0:
                api[name] = draw(st.sampled_from(FAILS))
        if draw(st.integers(0, 9)) == 0:
            ops.insert(draw(st.integers(0, len(ops))),
                       ['reconnect',
                        draw(st.sampled_from(['suspended', 'lost'])),
                        draw(st.integers(0, 1))])
        rnd = {'dt': draw(st.sampled_from(DTS)), 'ops': ops}
        if api:
            rnd['api'] = api
        rounds.append(rnd)
    case = {
        'seq0': draw(st.sampled_from([0, 7, 98, 999999990])),
        'init': init,
        'rounds': rounds,
    }
    # the order in which ZooKeeper lists children (no order is promised):
    # creation (= id) order, reverse, or a hash order
    listing = draw(st.one_of(
        st.sampled_from(['created', 'reverse']),
        st.tuples(st.just('hash'), st.integers(0, 7)).map(list)))
    if listing != 'created':
        case['listing'] = listing
    if draw(st.integers(0, 4)) == 0:
        case['waited0'] = [apps[0]]
    if real_api:
        case['real_api'] = True
    return case
