"""C18 - archiving trace history never loses or prematurely archives events;
pruning keeps the newest snapshots."""

import os

from hypothesis import strategies as st

from pbt import archiver
from pbt.run import Violation  # noqa: F401  (re-exported for replays)

ID = 'C18'
LEVEL = 'fault_enumeration'
RULE = ('A case is a generated audit trail on the in-memory ZooKeeper: 2-7 '
        'app instances (scheduled or not, several per trace shard) with 0-5 '
        'trace events each whose timestamps straddle now - expires_after '
        '(microseconds to weeks either side), /finished records with '
        'generated mtimes, 0-3 servers with server-trace events, 0-4 existing '
        'snapshots per history directory (some rows duplicate live records), '
        'batch sizes 1-7, history max_count 1-6, child-listing order '
        'permuted. All nodes are written by the real producers (publish / '
        'zkutils.put). A case is a short HISTORY of one archiver process: '
        '1-3 passes of the cleanup loop; between passes the clock advances '
        '(1 s - 1 h) and 0-4 generated world steps happen through the real '
        'producers (new trace events, terminal events whose publish() '
        'REWRITES existing /finished records, instances unscheduled, NEW '
        'instances scheduled by the master (a new id under /scheduled, the '
        'pending event of create_apps and 0-4 start-up events, which later '
        'ops address like any other instance), server '
        'events); the oracle is evaluated after every pass against the '
        'records as they are then (a finished record = name + current '
        'content + current mtime; versions archived earlier stay owed). '
        'Module-level containers of the modules under test are reset to '
        'their import-time value at the start of every case and whenever '
        'the process is restarted. The faults below are enumerated on the '
        'LAST pass. In about half of the cases every pass is the real driver, '
        'the click command `treadmill.sproc.trace cleanup --no-lock` given '
        'all its options (batch sizes, expiries, history max counts pairwise '
        'distinct per kind, prune thresholds, interval) and stopped at its '
        'sleep; in the others the harness makes the same calls itself. The '
        'oracle always uses the configured value of each record kind. '
        'One pass = one iteration of sproc.trace\'s cleanup loop: it '
        '(cleanup_trace, cleanup_finished, cleanup_trace_history, '
        'cleanup_finished_history, cleanup_server_trace, '
        'cleanup_server_trace_history; real sqlite3/zlib) is run once '
        'cleanly and then, for EVERY ZooKeeper write of that run, with that '
        'write failing in each of these ways: the archiver process stops '
        'there (harness-private exception); the request fails with '
        'kazoo ConnectionLoss and is not applied, the process lives on and '
        'the real code retries (zkutils.with_retry, real KazooRetry), '
        'propagates or swallows; same with SessionExpiredError (at every '
        'snapshot upload and every 4th other write). Every faulted run is '
        'followed by a clean re-run on the resulting state (skipped, with '
        'the state check, when the faulted run left a node table identical '
        'to one already judged in this case). crash_points = write x kind. '
        'After every run: each '
        'record that was live before is live, or returned by download_batch '
        '/ a row of a snapshot the harness opens itself; events of scheduled '
        'instances and records younger than the expiry are live; no pruner '
        'ever deleted one of the max_count newest snapshots; the product\'s '
        'own reader (AppTraceLoop(instance).run(snapshot=True) with a '
        'recording handler, real _process_db_events/download_batch) delivers '
        'for every unscheduled instance every event that is live or a row of '
        'a surviving snapshot, and nothing else (duplicates counted, not '
        'flagged); a completed '
        'run leaves exactly the max_count newest. Non-trivial = the clean '
        'run uploaded at least one full trace batch AND the population has '
        'an expired event of a still-scheduled instance AND an unexpired '
        'event of an unscheduled one. distinct = canonical JSON.')
ASSUMPTIONS = [
    'in-memory ZooKeeper (pbt/fakezk.py) stands in for the ensemble; a crash '
    'of the archiver = the k-th mutating ZooKeeper call raising a '
    'harness-private BaseException; a failed request = that call raising '
    'kazoo.exceptions.ConnectionLoss / SessionExpiredError without being '
    'applied (the applied-but-reply-lost flavour of ConnectionLoss is not '
    'modelled)',
    'reader oracle: the reader lists /trace.history in sequence order (the '
    'archiver still sees permuted listings) and no event is published with a '
    'timestamp older than an already archived event of its instance; on the '
    'two excluded kinds of history the unchanged reader does not deliver an '
    'archived event (notes/C18-notes.md; VERIF_C18_READER_STRICT=1 generates '
    'them, buckets c18.reader.event-not-delivered.unsorted-history-listing / '
    '.older-than-already-archived)',
    'kazoo.retry.KazooRetry is the real class, only its back-off sleep runs '
    'on the virtual clock (fixed 100 ms per attempt)',
    'virtual clock replaces treadmill.trace.app.zk.time; node mtimes come '
    'from the same clock',
    'prune_trace_evictions / prune_trace_service_events delete live events '
    'on purpose and are not archiving: the direct-call passes leave them '
    'out, the passes through the real cleanup command give them thresholds '
    '(1000-1009 / 2000-2009) no generated instance reaches',
    'driver passes: treadmill.sproc.trace cleanup --no-lock is invoked '
    'through click with every option on its command line; '
    'context.GLOBAL.zk.conn is the fake session; the module\'s time is the '
    'virtual clock and its sleep(interval) ends the pass',
    'event payloads (node values under /trace) are not archived by design; '
    'retrievable means the event name is returned by download_batch',
    'a record whose snapshot was uploaded during the run(s) under check and '
    'then removed by a history pruner although max_count newer snapshots '
    'existed counts as legitimately gone (a run can upload more than '
    'max_count snapshots); copies in older, pre-existing snapshots that were '
    'pruned do not count as retrievable',
    'sqlite scratch files live in a per-case directory on tmpfs (/dev/shm) '
    'when available, else under /tmp',
]
TRUSTED = ['pbt/fakezk.py', 'pbt/vclock.py', 'pbt/archiver.py']
BUDGET = {'quick': 960, 'thorough': 24000}

SECOND = 1000000
DAY = 24 * 3600 * SECOND

APPS = ['proid.web', 'proid.web-db', 'foo.bar', 'foo.bar.baz',
        'proid@grp.app_1']
SERVERS = ['node1.example.com', 'node2.example.com', 'node3.example.com']


def _delta():
    """Microseconds relative to the expiry edge (negative = expired)."""
    return st.one_of(
        st.sampled_from([-3, -2, -1, 0, 1, 2, 3, -1000, 1000,
                         -SECOND, SECOND]),
        st.integers(-3600 * SECOND, -SECOND),
        st.integers(-20 * DAY, -3600 * SECOND),
        st.integers(-2000 * SECOND, 2000 * SECOND),
        st.integers(SECOND, 40 * SECOND),
    )


@st.composite
def _event(draw, old_bias):
    pick = draw(st.integers(0, 9)) if old_bias else 9
    if pick < 5:
        delta = draw(st.integers(-3600 * SECOND, -2 * SECOND))
    elif pick < 7:
        delta = draw(st.integers(2 * SECOND, 40 * SECOND))
    else:
        delta = draw(_delta())
    return {'dt': delta, 'k': draw(st.integers(0, 9)),
            'v': draw(st.integers(0, 8))}


@st.composite
def _instances(draw):
    count = draw(st.integers(2, 7))
    # few shards, several instances per shard (id % 256 picks the shard)
    bases = draw(st.lists(st.sampled_from([1, 2, 3, 123, 255]), min_size=1,
                          max_size=3, unique=True))
    used = set()
    res = []
    for _idx in range(count):
        base = draw(st.sampled_from(bases))
        mult = 0
        while base + 256 * mult in used:
            mult += 1
        ident = base + 256 * mult
        used.add(ident)
        scheduled = draw(st.integers(0, 9)) < 3
        events = draw(st.lists(_event(True), min_size=0, max_size=5))
        if _idx == 0 and draw(st.booleans()):
            # a long-running, now finished instance: first events long
            # before, terminal event long after most events of the others
            scheduled = False
            events = events[:3] + [
                {'dt': draw(st.integers(-4000 * SECOND, -3600 * SECOND)),
                 'k': draw(st.sampled_from([0, 1, 2])),
                 'v': draw(st.integers(0, 8))},
                {'dt': draw(st.integers(-30 * SECOND, -2 * SECOND)),
                 'k': draw(st.sampled_from([5, 6, 7])),
                 'v': draw(st.integers(0, 8))}]
        fin = None
        if draw(st.integers(0, 9)) < 6:
            fin = {
                'dt_ms': draw(st.one_of(
                    st.sampled_from([-2, -1, 0, 1, 2, -1000, 1000]),
                    st.integers(-3600 * 1000, -1000),
                    st.integers(-3600 * 1000, 3600 * 1000))),
                's': draw(st.integers(0, 5)),
            }
        res.append({'app': draw(st.sampled_from(APPS)), 'id': ident,
                    'scheduled': scheduled, 'events': events,
                    'finished': fin})
    return res


@st.composite
def _servers(draw):
    names = draw(st.lists(st.sampled_from(SERVERS), min_size=0, max_size=3,
                          unique=True))
    res = []
    for name in names:
        events = draw(st.lists(
            st.fixed_dictionaries({
                'age': st.one_of(st.integers(0, 100),
                                 st.integers(0, 30 * DAY)),
                'k': st.integers(0, 2),
                'v': st.integers(0, 8),
            }), min_size=0, max_size=4))
        res.append({'name': name, 'events': events})
    return res


def _history():
    snap = st.fixed_dictionaries({
        'old': st.integers(0, 3),
        'dup': st.lists(st.integers(0, 30), min_size=0, max_size=3),
    })
    fam = st.fixed_dictionaries({
        'gap': st.integers(0, 2),
        'snaps': st.lists(snap, min_size=0, max_size=4),
    })
    return st.fixed_dictionaries({'trace': fam, 'finished': fam,
                                  'server': fam})


@st.composite
def _step_op(draw):
    pick = draw(st.integers(0, 23))
    # population + instances scheduled so far (`i` is taken modulo)
    inst = draw(st.integers(0, 9))
    var = draw(st.integers(0, 8))
    if pick < 9:
        # a further terminal event: publish() rewrites /finished/<instance>
        return {'op': 'event', 'i': inst, 'k': draw(st.sampled_from([5, 6, 7])),
                'v': var, 'back': draw(st.sampled_from([0, 0, SECOND]))}
    if pick < 14:
        return {'op': 'event', 'i': inst, 'k': draw(st.integers(0, 9)),
                'v': var,
                'back': draw(st.sampled_from(
                    [0, SECOND, 4000 * SECOND] if READER_STRICT
                    else [0, SECOND // 2, SECOND]))}
    if pick < 18:
        return {'op': 'unschedule', 'i': inst}
    if pick < 20:
        return {'op': 'server_event', 'i': inst, 'k': draw(st.integers(0, 2)),
                'v': var}
    # the master schedules a NEW instance (an id above every id of the
    # population: instance ids are sequence numbers) and it starts: the
    # `pending` event of create_apps plus 0-4 further events, mostly the
    # non-terminal ones of a start-up. /scheduled grows between two passes.
    events = draw(st.lists(
        st.fixed_dictionaries({
            'k': st.sampled_from([0, 0, 2, 3, 3, 4, 1, 5, 6]),
            'v': st.integers(0, 8)}),
        min_size=0, max_size=4))
    return {'op': 'schedule', 'app': draw(st.sampled_from(APPS)),
            'id': (draw(st.sampled_from([1, 2, 3, 123, 255])) +
                   256 * draw(st.integers(40, 47))),
            'events': events}


def _steps():
    """What happens between two passes of the same archiver process."""
    group = st.fixed_dictionaries({
        'advance': st.sampled_from([1, 29, 31, 60, 60, 299, 301, 3601]),
        'ops': st.lists(_step_op(), min_size=0, max_size=4),
    })
    return st.lists(group, min_size=0, max_size=2)


EXPIRIES = [0, 1, 30, 300, 3600]

# Calibration switch (generator only; a case stays a pure function of its
# JSON): also generate the two kinds of history on which the reader of the
# unchanged tree does not deliver an archived event - see notes/C18-notes.md.
READER_STRICT = bool(os.environ.get('VERIF_C18_READER_STRICT'))


@st.composite
def _params(draw, driver):
    """Batch sizes, expiries, history max counts. For passes through the
    real command line every option value is distinct from its neighbours of
    the same kind, so that wiring one option to another's place shows."""
    def pair(values):
        if driver:
            return draw(st.lists(values, min_size=2, max_size=2,
                                 unique=True))
        return [draw(values), draw(values)]

    # small batches and a longer history are common: an instance's events
    # then spread over several snapshots with other instances' in between
    batches = pair(st.sampled_from([1, 2, 2, 3, 3, 4, 5, 6, 7]))
    expiries = pair(st.sampled_from(EXPIRIES))
    maxes = pair(st.sampled_from([1, 2, 3, 4, 4, 5, 6]))
    par = {
        'trace_batch': batches[0], 'finished_batch': batches[1],
        'trace_expire': expiries[0], 'finished_expire': expiries[1],
        'trace_hist_max': maxes[0], 'finished_hist_max': maxes[1],
    }
    if driver:
        # the two prune_trace_* steps of the loop delete live events on
        # purpose once an instance has that many evictions / service events;
        # far above anything a population holds, and distinct
        par['evict_max'] = draw(st.integers(1000, 1009))
        par['svc_max'] = draw(st.integers(2000, 2009))
        par['interval'] = draw(st.sampled_from([59, 61, 120]))
    return par


@st.composite
def strategy(draw, tier=None):
    driver = draw(st.booleans())
    return {
        'reader_listing': 'as-listed' if READER_STRICT else 'sorted',
        'driver': driver,
        'params': draw(_params(driver)),
        'order_seed': draw(st.integers(0, 3)),
        'instances': draw(_instances()),
        'servers': draw(_servers()),
        'history': draw(_history()),
        'steps': draw(_steps()),
    }


def execute(case, stats):
    with archiver.TempDir() as tmp:
        world = archiver.World(case)
        world.populate()
        world.begin()
        prof = world.profile()

        # earlier passes of the same archiver process, the world acting in
        # between (undisturbed; judged after every pass)
        steps = case.get('steps', [])
        uploads = {fam: 0 for fam in archiver.FAMILY_ORDER}
        prunes = 0
        late_expired = 0
        for group in steps:
            outcome, _done = world.run()
            assert outcome == 'completed'
            world.check('clean', True)
            prunes += _tally(world, world.oplog, uploads)
            stats.count('earlier_passes')
            before = (len(world.finished), len(world.events['trace']),
                      len(world.late))
            rewritten = _live_finished(world)
            world.apply_steps(group)
            stats.count('world_ops', len(group['ops']))
            stats.count('instances_scheduled_between_passes',
                        len(world.late) - before[2])
            # what the coming pass must leave alone although it is expired:
            # events of an instance that was not scheduled (did not exist)
            # at an earlier pass of this process
            late_expired += world.late_scheduled_expired()
            stats.count('finished_records_rewritten_between_passes',
                        len(rewritten - _live_finished(world)))
            stats.count('trace_events_published_between_passes',
                        len(world.events['trace']) - before[1])
        start = world.mark()

        # last pass, undisturbed
        outcome, writes = world.run()
        assert outcome == 'completed'
        oplog = list(world.oplog)
        summary = world.check('clean', True)
        prunes += _tally(world, oplog, uploads)
        gapped = world.gap_instances()
        stats.count('reader_runs_clean', summary['reader_runs'])
        stats.count('reader_duplicates_clean', summary['reader_duplicates'])
        if tmp.leftovers():
            raise AssertionError('clean run left scratch files behind')

        stats.count('clean_runs')
        stats.count('cases_via_click_command' if case.get('driver')
                    else 'cases_via_direct_calls')
        if case['params']['finished_expire'] < case['params']['trace_expire']:
            stats.count('cases_finished_expiry_below_trace_expiry')
        stats.count('passes:%d' % (len(steps) + 1))
        stats.count('writes', writes)
        stats.count('records_before', len(world.events['trace']) +
                    len(world.events['server']) + len(world.finished))
        stats.count('records_archived_clean', summary['archived'])
        stats.count('records_in_legitimately_pruned_snapshots',
                    summary['pruned_away'])
        for fam in archiver.FAMILY_ORDER:
            stats.count('snapshots_uploaded:' + fam, uploads[fam])
        stats.count('snapshots_pruned', prunes)
        stats.count('trace_archivable', prof['archivable'])
        stats.count('trace_old_of_scheduled', prof['old_scheduled'])
        stats.count('trace_young_of_unscheduled', prof['young_unscheduled'])
        stats.count('finished_expired', prof['fin_expired'])
        stats.count('finished_young', prof['fin_young'])
        if prof['shards'] > 1:
            stats.count('cases_multi_shard')
        if uploads['finished']:
            stats.count('cases_finished_uploaded')
        if uploads['server']:
            stats.count('cases_server_uploaded')
        if prunes:
            stats.count('cases_pruned')

        # the same process runs again a minute later: still nothing lost
        checked = {world.fingerprint()}
        outcome, _done = world.run()
        assert outcome == 'completed'
        stats.count('recovery_runs')
        world.check('recovery', True)

        # every write of the last pass x every kind of failure there, each
        # followed by a clean re-run (the restarted archiver, or the same
        # process if the code under test coped with the failure)
        salt = len(case['instances']) % 4
        for point in range(writes):
            where = _kind(world, oplog[point])
            kinds = ['stop', 'connloss']
            if oplog[point][0] == 'create' or point % 4 == salt:
                kinds.append('expired')
            for kind in kinds:
                world.restore(start)
                outcome, done = world.run(fault_at=point, kind=kind)
                if not world.fired:
                    raise AssertionError(
                        'fault point %d of %d not reached (%s, %d)' % (
                            point, writes, outcome, done))
                if kind == 'stop' and outcome != 'stopped':
                    raise AssertionError('the code under test caught '
                                         'BaseException: cannot model a stop')
                stats.count('crash_points')
                stats.count('crash_points:' + kind)
                stats.count('fault_at:%s' % where)
                if kind != 'stop':
                    stats.count('zk_fault_outcome:%s:%s' % (kind, outcome))
                if outcome != 'completed':
                    world.restart_process()
                state = world.fingerprint()
                if state in checked:
                    # e.g. the error propagated and left exactly the state of
                    # the process stopping there, or a retried delete led to
                    # the state of the undisturbed run: already judged (and
                    # re-run) above
                    stats.count('fault_states_same_as_already_checked')
                    continue
                checked.add(state)
                world.check('crash' if kind == 'stop' else 'zkerror', False)
                outcome, _done = world.run()
                assert outcome == 'completed'
                stats.count('recovery_runs')
                world.check('recovery', True)

        nontrivial = (uploads['trace'] >= 1 and prof['old_scheduled'] >= 1
                      and prof['young_unscheduled'] >= 1)
        if nontrivial and (uploads['finished'] or uploads['server']) \
                and prunes:
            stats.count('class:all-families-and-pruning')
        if nontrivial and steps:
            stats.count('class:multi-pass')
        stats.count('trace_old_of_instance_scheduled_between_passes',
                    late_expired)
        if late_expired and uploads['trace']:
            stats.count('class:expired-events-of-instance-scheduled-'
                        'between-passes')
        if gapped:
            stats.count('class:instance-spans-gap-snapshot')
        return nontrivial


def _live_finished(world):
    return set((rec['name'], rec['data'], rec['mtime'])
               for rec in world.finished
               if world._fin_live(rec))  # pylint: disable=protected-access


def _tally(world, oplog, uploads):
    prunes = 0
    for opname, path in oplog:
        fam = world._family_of(path)  # pylint: disable=protected-access
        if fam and opname == 'create':
            uploads[fam] += 1
        elif fam and opname == 'delete':
            prunes += 1
    return prunes


def _kind(world, entry):
    opname, path = entry
    fam = world._family_of(path)  # pylint: disable=protected-access
    if fam:
        return '%s-%s' % ('upload' if opname == 'create' else 'prune', fam)
    return '%s-live-record' % opname


def _evt(delta_s, kind=2, var=0):
    return {'dt': int(delta_s * SECOND), 'k': kind, 'v': var}


def fixed_cases():
    """Aimed cases: the repo test's population shape (two finished, two
    scheduled instances, six events each) with a batch that divides unevenly,
    and a history that must be pruned."""
    if os.environ.get('VERIF_C18_NO_AIMED'):   # calibration of the generator
        return []
    events = [_evt(-100 + idx, kind=idx) for idx in range(6)]
    insts = []
    for idx, (sched, ident) in enumerate([(False, 1), (False, 257),
                                          (True, 2), (True, 3)]):
        insts.append({
            'app': 'proid.web', 'id': ident, 'scheduled': sched,
            'events': [dict(evt, v=idx) for evt in events] +
                      [_evt(5 + idx, kind=3, var=idx)],
            'finished': {'dt_ms': -5000 + 3000 * idx, 's': idx},
        })
    snaps = [{'old': 2, 'dup': [idx]} for idx in range(4)]
    hist = {'gap': 1, 'snaps': snaps}
    base = {
        'params': {'trace_batch': 5, 'finished_batch': 2, 'trace_expire': 30,
                   'finished_expire': 1, 'trace_hist_max': 3,
                   'finished_hist_max': 2},
        'order_seed': 2,
        'instances': insts,
        'servers': [{'name': 'node1.example.com',
                     'events': [{'age': 10 * SECOND * idx, 'k': idx, 'v': idx}
                                for idx in range(5)]},
                    {'name': 'node2.example.com',
                     'events': [{'age': 7 * SECOND, 'k': 0, 'v': 1}]}],
        'history': {'trace': hist, 'finished': hist, 'server': hist},
        'steps': [],
    }
    single = dict(base)
    single['params'] = dict(base['params'], trace_batch=1, finished_batch=1,
                            trace_hist_max=1, finished_hist_max=1,
                            trace_expire=0, finished_expire=0)
    single['order_seed'] = 0
    # three passes of one process: a partial batch of expired /finished
    # records is left over, one of them is rewritten by a later terminal
    # event (killed, then the node's finished report), another record expires
    multi = dict(base)
    multi['order_seed'] = 0
    multi['params'] = dict(base['params'], finished_batch=2,
                           finished_expire=30)
    multi['instances'] = [
        {'app': 'proid.web', 'id': ident, 'scheduled': False,
         'events': [_evt(-200, kind=6, var=idx)],
         'finished': {'dt_ms': dt_ms, 's': 1}}
        for idx, (ident, dt_ms) in enumerate(
            [(1, -9000), (2, -8000), (3, -7000), (4, 5000), (5, 200000)])]
    multi['steps'] = [
        {'advance': 60, 'ops': [
            {'op': 'event', 'i': 2, 'k': 5, 'v': 0, 'back': 0},
            {'op': 'event', 'i': 4, 'k': 2, 'v': 1, 'back': 0}]},
        {'advance': 60, 'ops': [
            {'op': 'unschedule', 'i': 0},
            {'op': 'event', 'i': 0, 'k': 5, 'v': 2, 'back': 0}]},
    ]
    # the same populations through the real command line of the driver;
    # batch 7 so that the two unexpired events of the unscheduled instances
    # would complete a batch if the trace expiry were not honoured
    drv = dict(base, driver=True)
    drv['params'] = dict(base['params'], trace_batch=7, evict_max=1001,
                         svc_max=2002, interval=61)
    drv_multi = dict(multi, driver=True)
    drv_multi['params'] = dict(multi['params'], evict_max=1003, svc_max=2005,
                               interval=59)
    # three passes of the real command, one minute in all, trace expiry 30 s:
    # after the first pass the master schedules a new instance which starts
    # (five events); at the third pass these events are older than the expiry
    # and would fill a batch with the left-over event of the finished
    # instance, but the instance is scheduled - although it was not when the
    # process made its earlier passes (and the instance that was running then
    # has been unscheduled since: /scheduled changed in both directions).
    late = dict(base, driver=True)
    late['order_seed'] = 1
    late['params'] = dict(base['params'], trace_batch=4, trace_expire=30,
                          finished_expire=1, evict_max=1004, svc_max=2006,
                          interval=59)
    late['history'] = {fam: {'gap': 0, 'snaps': []}
                       for fam in ('trace', 'finished', 'server')}
    late['servers'] = []
    late['instances'] = [
        {'app': 'proid.web', 'id': 1, 'scheduled': True,
         'events': [_evt(-900 + idx, kind=kind)
                    for idx, kind in enumerate([0, 2, 3])],
         'finished': None},
        {'app': 'proid.web', 'id': 2, 'scheduled': False,
         'events': [_evt(-800 + idx, kind=kind)
                    for idx, kind in enumerate([0, 2, 3, 4, 5])] +
                   [_evt(5, kind=8)],
         'finished': {'dt_ms': -700000, 's': 0}}]
    late['steps'] = [
        {'advance': 29, 'ops': [
            {'op': 'schedule', 'app': 'proid.web', 'id': 3 + 256 * 40,
             'events': [{'k': 0, 'v': 0}, {'k': 2, 'v': 1}, {'k': 3, 'v': 1},
                        {'k': 3, 'v': 4}]}]},
        {'advance': 31, 'ops': [
            {'op': 'event', 'i': 2, 'k': 4, 'v': 1, 'back': 0},
            {'op': 'unschedule', 'i': 0}]},
    ]
    return [('aimed-mixed-batch5', base), ('aimed-batch1-max1', single),
            ('aimed-three-passes-rewritten-finished', multi),
            ('aimed-driver-mixed-batch7', drv),
            ('aimed-driver-three-passes', drv_multi),
            ('aimed-driver-instance-scheduled-between-passes', late)]
