"""C19 - accepted reservations never exceed partition capacity or trait limits.

Sequences of reservation create / update / delete requests are sent to the real
``treadmill.api.allocation.API().reservation`` (through the real schema
decorator) on top of the real LDAP object layer over an in-memory directory.
After every request the accept / reject decision and the stored records are
compared with an independent integer model (pbt/reservation.py).
"""

import inspect
import os

from pbt import reservation as rsvlib
from pbt.run import Violation

ID = 'C19'
LEVEL = 'exploration'
RULE = ('A case is 1-3 partitions per cell (cpu/memory/disk and 0-3 per-trait '
        'limits, mixed K/M/G spellings), 0-4 reservations written directly to '
        'the directory, then 1-8 create/update/delete requests. Each request '
        'is aimed by the generator at the current head-room of the partition '
        'and of the limited traits it carries (exact fit, one unit over, '
        'within 10 %, under, random, zero); updates re-send the partition and '
        'omit traits as the CLI does, or move partition / replace traits, or '
        're-send the stored amounts verbatim with other traits; the '
        'partition key is omitted, JSON null (~1 request in 10) or a name '
        '(existing or not). '
        'Non-trivial = some create/update step carries a limited trait that '
        'another reservation of the same cell+partition also carries and asks '
        'for an amount within 10 % of that limit from the free amount. '
        'distinct = canonical JSON of the case.')
ASSUMPTIONS = [
    'the LDAP server is replaced by an in-memory stand-in for the '
    'ldap3.Connection (pbt/reservation.FakeConnection: results in .result, '
    'never raises, BASE/SUBTREE, (&(a=b)(c=*)) filters, a clause on an '
    'absent attribute is false, lazy paged generator - checked against '
    "ldap3's own MOCK_SYNC strategy); everything above it is the real code: "
    'context.GLOBAL.admin -> AdminLdapBackend -> WrappedAdmin -> '
    '_ldap.Admin -> _ldap.CellAllocation/_ldap.Partition -> api.allocation',
    'decorator.getargspec (removed in decorator 5) is restored as '
    'inspect.getfullargspec so that the real schema decorator validates '
    'every request; only schema-valid requests are generated (partition '
    'omitted / null / named; traits omitted / [] / list; rank, '
    'rank_adjustment, max_utilization optional)',
    'a reservation is judged in the partition and with the traits the system '
    'reports when it is listed (null partition reads back as _default)',
    'a request that raises must raise an input / lookup error: '
    'exc.InvalidInputError (judged as a capacity decision: a fitting '
    'request must not be refused), exc.NotFoundError or admin '
    'NoSuchObjectResult (update of a missing reservation), admin '
    'AlreadyExistsResult (create over an existing one), a schema '
    'ValidationError (update without partition only); any other exception '
    'is c19.service-failure.<Type>. A partition that does not exist has '
    'zero capacity and no limits: only a zero demand fits, and it is then '
    'listed in that partition. The refusal of a null-partition request is '
    'not judged (see execute)',
    'trait lists hold no duplicates (LDAP attribute values are sets); '
    'partitions are not reconfigured inside a case',
    'an update never sends an empty trait list for a reservation that '
    'has traits (LdapObject.update skips empty lists, so the stored '
    'traits would stay while the reply shows none)',
]
TRUSTED = ['pbt/reservation.py (FakeConnection, Model)']
BUDGET = {'quick': 8000, 'thorough': 128000}

_API = {}


def _api():
    """One API object per process (it holds no state besides validators)."""
    if 'api' not in _API:
        import decorator
        if not hasattr(decorator, 'getargspec'):
            decorator.getargspec = inspect.getfullargspec
        from treadmill.api import allocation
        _API['mod'] = allocation
        _API['api'] = allocation.API()
    return _API['mod'], _API['api']


def strategy(tier):
    return rsvlib.cases(max_ops=8 if tier == 'quick' else 12)


def _dn_to_id(dn):
    """'cell=C,allocation=A,tenant=sub,tenant=top,ou=...' -> 'top:sub/A/C'.
    The harness's own reading of where a record was written (the inverse of
    how the request id is turned into a dn), independent of the id mapping of
    the code under test."""
    parts = [part.split('=', 1) for part in dn.split(',')]
    assert parts[0][0] == 'cell' and parts[1][0] == 'allocation', dn
    tenants = [value for key, value in parts[2:] if key == 'tenant']
    return '%s/%s/%s' % (':'.join(reversed(tenants)), parts[1][1],
                         parts[0][1])


def _stored(directory):
    """Normalised view of what the directory holds.  Identity is the dn the
    record sits at; partition / amounts / traits are what the system reports
    for that entry (the real from_entry, e.g. no partition attribute reads
    as _default)."""
    out = {}
    for dn, entry in directory.conn.entries.items():
        if 'tmCellAllocation' not in entry.get('objectClass', []):
            continue
        rec = directory.cell_alloc.from_entry(entry, dn)
        out[_dn_to_id(dn)] = {
            'partition': rec['partition'],
            'amt': rsvlib.amounts(rec),
            'traits': sorted(set(rec['traits'])),
        }
    return out


def _expected(model):
    return {
        rid: {'partition': rsv['partition'], 'amt': rsv['amt'],
              'traits': rsv['traits']}
        for rid, rsv in model.rsv.items()
    }


def _near_limit(model, cell, partition, traits, amt, rid):
    shared = model.sharers(cell, partition, traits, rid)
    if not shared:
        return False
    limits = model.partitions[(cell, partition)]['limits']
    for scope, free in model.headroom(cell, partition, traits, rid):
        if not scope.startswith('trait:') or scope[6:] not in shared:
            continue
        for dim in rsvlib.DIMS:
            if abs(amt[dim] - free[dim]) <= limits[scope[6:]][dim] // 10:
                return True
    return False


def execute(case, stats):
    mod, api = _api()
    from treadmill import exc
    from treadmill.admin import exc as admin_exc
    import jsonschema

    directory = rsvlib.Directory()
    model = rsvlib.Model()
    from treadmill import context
    admin_ctx = context.GLOBAL.admin
    saved = admin_ctx._conn                   # pylint: disable=W0212
    # allocation._admin_partition() / _admin_cell_alloc() are the real ones:
    # context.GLOBAL.admin -> AdminLdapBackend -> WrappedAdmin -> _ldap.Admin
    admin_ctx._conn = directory.backend       # pylint: disable=W0212
    nontrivial = False
    try:
        for part in case['partitions']:
            attrs = {key: part[key] for key in ('cpu', 'memory', 'disk')}
            attrs['limits'] = [dict(lim) for lim in part['limits']]
            directory.partition.create([part['name'], part['cell']], attrs)
            model.add_partition(part)
        for item in case['existing']:
            alloc, cell = item['id'].rsplit('/', 1)
            directory.cell_alloc.create([cell, alloc], dict(item['rsrc']))
            model.put(item['id'], cell, item['rsrc'])
        if _stored(directory) != _expected(model):
            raise AssertionError('harness: directory does not hold the '
                                 'pre-existing reservations as written')

        for idx, step in enumerate(case['ops']):
            rid = step['id']
            alloc, cell = rid.rsplit('/', 1)
            where = 'step %d %s %s' % (idx, step['op'], rid)
            if step['op'] == 'delete':
                stats.count('op:delete')
                try:
                    api.reservation.delete(rid)
                except admin_exc.NoSuchObjectResult:
                    if rid in model.rsv:
                        raise Violation(
                            'c19.delete.existing-not-found',
                            '%s: reservation exists but delete says it '
                            'does not' % where)
                    stats.count('delete_of_missing')
                model.rsv.pop(rid, None)
                continue

            rsrc = dict(step['rsrc'])
            if 'traits' in rsrc:
                rsrc['traits'] = list(rsrc['traits'])
            old = model.rsv.get(rid)
            is_update = step['op'] == 'update'
            stats.count('op:' + step['op'])
            stats.count('aim:' + step.get('aim', '?'))

            # what the reservation would be if accepted, as the system will
            # report it when listed.  An explicit "partition": null is stored
            # without a partition attribute and is reported (from_entry) as a
            # reservation of the default partition.
            null_part = 'partition' in rsrc and rsrc['partition'] is None
            if is_update and old is not None:
                eff_part = rsrc.get('partition', old['partition'])
                eff_traits = rsrc.get('traits', old['traits'])
            else:
                eff_part = rsrc.get('partition', rsvlib.DEFAULT_PARTITION)
                eff_traits = rsrc.get('traits', [])
            if eff_part is None:
                eff_part = rsvlib.DEFAULT_PARTITION
            if null_part:
                stats.count('null_partition')
            amt = rsvlib.amounts(rsrc)
            misfits = model.misfits(cell, eff_part, eff_traits, amt, rid)
            shares = model.sharers(cell, eff_part, eff_traits, rid)
            if shares:
                stats.count('shares_limited_trait')
            if any(rsvlib.related(rid, other) and
                   rsv['partition'] == eff_part
                   for other, rsv in model.rsv.items()):
                # a parent / sub tenant holds an allocation of the same
                # name, reserved in the same cell and partition
                stats.count('same_name_under_parent_tenant')
            if _near_limit(model, cell, eff_part, eff_traits, amt, rid):
                stats.count('near_shared_trait_limit')
                nontrivial = True
            if is_update and 'traits' not in rsrc:
                stats.count('update_without_traits')
            if is_update and 'partition' not in rsrc:
                stats.count('update_without_partition')
            if (cell, eff_part) not in model.partitions:
                stats.count('partition_missing')

            call = api.reservation.update if is_update \
                else api.reservation.create
            outcome = None
            try:
                call(rid, rsrc)
                outcome = 'accepted'
            except exc.InvalidInputError:
                outcome = 'rejected'
            except admin_exc.AlreadyExistsResult:
                outcome = 'exists'
            except (admin_exc.NoSuchObjectResult, exc.NotFoundError):
                outcome = 'missing'
            except jsonschema.ValidationError as err:
                # reservation.json#/verbs/update requires a partition; the
                # API may refuse an update without one as invalid input.
                if not (is_update and 'partition' not in rsrc):
                    raise AssertionError(
                        'harness: generated request is not schema-valid: '
                        '%s %r' % (err.message, rsrc))
                outcome = 'invalid'
            except Exception as err:  # pylint: disable=broad-except
                # Anything else (TypeError, AttributeError, KeyError,
                # ValueError, a generic backend error ...) is a failure of the
                # service, whether or not the partition / reservation named
                # by the request exists.
                name = type(err).__name__
                raise Violation(
                    'c19.service-failure.%s' % name,
                    '%s: request %r (fits=%s, partition %s, shares limited '
                    'trait %s with another reservation) raised %s(%s) instead '
                    'of being accepted or refused with an input / not-found '
                    'error'
                    % (where, rsrc, not misfits,
                       'exists' if (cell, eff_part) in model.partitions
                       else 'does not exist', shares, name, err))
            stats.count('outcome:' + outcome)

            if outcome == 'invalid':
                pass                      # refused as input error, no change
            elif not is_update and old is not None:
                # create over an existing id: never a new promise
                if outcome not in ('rejected', 'exists'):
                    raise Violation(
                        'c19.create-over-existing.' + outcome,
                        '%s: create of an existing reservation ended as %s'
                        % (where, outcome))
            elif is_update and old is None:
                if outcome not in ('rejected', 'missing'):
                    raise Violation(
                        'c19.update-of-missing.' + outcome,
                        '%s: update of a reservation that does not exist '
                        'ended as %s' % (where, outcome))
            elif outcome == 'accepted':
                if misfits:
                    scope, dim, want, free = misfits[0]
                    kind = 'partition-capacity' if scope == 'partition' \
                        else 'trait-limit'
                    bucket = 'c19.accepted.over-%s' % kind
                    if is_update and 'traits' not in rsrc and all(
                            mf[0] != 'partition' for mf in misfits):
                        bucket = ('c19.update.traits-omitted.'
                                  'accepted-over-trait-limit')
                    raise Violation(
                        bucket,
                        '%s: request %r accepted although %s %s wants %d, '
                        'free %d (cell %s partition %s, traits carried %s)'
                        % (where, rsrc, scope, dim, want, free, cell,
                           eff_part, eff_traits))
                merged = {'partition': eff_part, 'traits': eff_traits}
                merged.update({dim: rsrc[dim] for dim in rsvlib.DIMS})
                model.put(rid, cell, merged)
                stats.count('accepted_exact_fit' if step.get('aim') == 'exact'
                            else 'accepted_other')
                if null_part:
                    stats.count('null_partition_accepted')
            elif outcome == 'rejected':
                if null_part:
                    # A null partition is looked up as a partition that does
                    # not exist (zero capacity), so any demand is rightly
                    # refused.  A zero demand may be refused too: the list of
                    # "other reservations" is not filtered for a null, so the
                    # whole cell counts against that zero capacity - which
                    # partition a null names before anything is stored is not
                    # defined, so that refusal is not judged.  Accepted null
                    # requests are judged where they are then listed.
                    stats.count('null_partition_rejected')
                elif not misfits:
                    raise Violation(
                        'c19.rejected.fitting-request',
                        '%s: request %r rejected although it fits (cell %s '
                        'partition %s, traits carried %s, head-room %r)'
                        % (where, rsrc, cell, eff_part, eff_traits,
                           model.headroom(cell, eff_part, eff_traits, rid)))
                if not null_part:
                    stats.count('rejected_one_over'
                                if step.get('aim') == 'over'
                                else 'rejected_other')
            else:
                raise Violation(
                    'c19.unexpected-outcome.' + outcome,
                    '%s: request %r ended as %s' % (where, rsrc, outcome))

            got, want = _stored(directory), _expected(model)
            if got != want:
                diff = sorted(
                    key for key in set(got) | set(want)
                    if got.get(key) != want.get(key))
                raise Violation(
                    'c19.stored-state.mismatch',
                    '%s (%s): directory and model disagree on %s: stored %r, '
                    'expected %r' % (where, outcome, diff,
                                     [got.get(k) for k in diff],
                                     [want.get(k) for k in diff]))
    finally:
        admin_ctx._conn = saved               # pylint: disable=W0212
    return nontrivial


def _p(name, cpu, mem, disk, limits=()):
    return {'cell': 'c1', 'name': name, 'cpu': cpu, 'memory': mem,
            'disk': disk, 'limits': [dict(lim) for lim in limits]}


def fixed_cases():
    if os.environ.get('C19_NO_FIXED'):      # calibration knob only
        return []
    lim_a = {'trait': 'a', 'cpu': '100%', 'memory': '10G', 'disk': '10G'}
    base = {'cpu': '10%', 'memory': '1G', 'disk': '1G', 'partition': 'p1'}
    return [
        # two reservations sharing the limited trait 'a'
        ('shared-limited-trait', {
            'partitions': [_p('p1', '200%', '100G', '100G', [lim_a])],
            'existing': [{'id': 't1/dev/c1',
                          'rsrc': dict(base, traits=['a'])}],
            'ops': [{'op': 'create', 'id': 't2/dev/c1', 'aim': 'under',
                     'rsrc': dict(base, traits=['a'])}],
        }),
        # exact fit then one KiB over, mixed units, no traits
        ('exact-then-one-over', {
            'partitions': [_p('p1', '200%', '2G', '2G')],
            'existing': [],
            'ops': [
                {'op': 'create', 'id': 't1/dev/c1', 'aim': 'exact',
                 'rsrc': {'cpu': '100%', 'memory': '1024M',
                          'disk': '1048576k', 'partition': 'p1'}},
                {'op': 'create', 'id': 't2/dev/c1', 'aim': 'over',
                 'rsrc': {'cpu': '100%', 'memory': '1048577K',
                          'disk': '1G', 'partition': 'p1'}},
                {'op': 'create', 'id': 't2/dev/c1', 'aim': 'exact',
                 'rsrc': {'cpu': '100%', 'memory': '1G',
                          'disk': '1G', 'partition': 'p1'}},
                {'op': 'update', 'id': 't2/dev/c1', 'aim': 'over',
                 'rsrc': {'cpu': '101%', 'memory': '1G',
                          'disk': '1G', 'partition': 'p1'}},
            ],
        }),
        # CLI-style update (no traits sent) growing past the trait limit
        ('update-grows-past-trait-limit', {
            'partitions': [_p('p1', '200%', '100G', '100G', [lim_a])],
            'existing': [{'id': 't1/dev/c1',
                          'rsrc': dict(base, traits=['a'])}],
            'ops': [{'op': 'update', 'id': 't1/dev/c1', 'aim': 'over',
                     'rsrc': {'cpu': '150%', 'memory': '1G', 'disk': '1G',
                              'partition': 'p1'}}],
        }),
        # the reservation being replaced is not counted against itself, in
        # the partition total and in the trait total (partition and trait
        # 'a' are both full); then one unit over is still refused
        ('replace-in-full-partition', {
            'partitions': [_p('p1', '100%', '10G', '10G', [lim_a])],
            'existing': [{'id': 't1/dev/c1',
                          'rsrc': {'cpu': '100%', 'memory': '10G',
                                   'disk': '10G', 'partition': 'p1',
                                   'traits': ['a']}}],
            'ops': [{'op': 'update', 'id': 't1/dev/c1', 'aim': 'exact',
                     'rsrc': {'cpu': '100%', 'memory': '10240M',
                              'disk': '10485760K', 'partition': 'p1'}},
                    {'op': 'update', 'id': 't1/dev/c1', 'aim': 'over',
                     'rsrc': {'cpu': '100%', 'memory': '10G',
                              'disk': '10485761K', 'partition': 'p1'}}],
        }),
        # reservations that do not carry the trait do not use up its limit
        ('other-traits-do-not-count', {
            'partitions': [_p('p1', '400%', '40G', '40G', [lim_a])],
            'existing': [{'id': 't1/dev/c1',
                          'rsrc': {'cpu': '100%', 'memory': '10G',
                                   'disk': '10G', 'partition': 'p1',
                                   'traits': ['b']}},
                         {'id': 't1/prod/c1',
                          'rsrc': {'cpu': '50%', 'memory': '5G',
                                   'disk': '5G', 'partition': 'p1',
                                   'traits': []}}],
            'ops': [{'op': 'create', 'id': 't2/dev/c1', 'aim': 'exact',
                     'rsrc': {'cpu': '100%', 'memory': '10G', 'disk': '10G',
                              'partition': 'p1', 'traits': ['a', 'c']}},
                    {'op': 'create', 'id': 't2/uat/c1', 'aim': 'over',
                     'rsrc': {'cpu': '0%', 'memory': '1K', 'disk': '0K',
                              'partition': 'p1', 'traits': ['a']}}],
        }),
        # fixed by 5dc7ae3: a partition that does not exist has zero
        # capacity (TypeError before); a zero demand fits and is then listed
        # there, and counts
        ('partition-does-not-exist', {
            'partitions': [_p('p1', '200%', '100G', '100G')],
            'existing': [],
            'ops': [{'op': 'create', 'id': 't1/dev/c1', 'aim': 'zero',
                     'rsrc': {'cpu': '0%', 'memory': '0K', 'disk': '0K',
                              'partition': 'ghost'}},
                    {'op': 'create', 'id': 't2/dev/c1', 'aim': 'over',
                     'rsrc': {'cpu': '1%', 'memory': '0K', 'disk': '0K',
                              'partition': 'ghost', 'traits': ['a']}},
                    {'op': 'update', 'id': 't1/dev/c1', 'aim': 'over',
                     'rsrc': {'cpu': '0%', 'memory': '0K', 'disk': '1K',
                              'partition': 'ghost'}},
                    {'op': 'create', 'id': 't2/uat/c1', 'aim': 'over',
                     'rsrc': {'cpu': '10%', 'memory': '1G', 'disk': '1G',
                              'partition': None}},
                    {'op': 'update', 'id': 't1/dev/c1', 'aim': 'under',
                     'rsrc': {'cpu': '10%', 'memory': '1G', 'disk': '1G',
                              'partition': 'p1'}}],
        }),
        # fixed by 5dc7ae3: update of a reservation that does not exist is
        # "not found" (AttributeError before), fitting or not
        ('update-of-missing-reservation', {
            'partitions': [_p('_default', '100%', '10G', '10G')],
            'existing': [],
            'ops': [{'op': 'update', 'id': 't1/dev/c1', 'aim': 'zero',
                     'rsrc': {'cpu': '0%', 'memory': '0K', 'disk': '0K',
                              'partition': '_default'}},
                    {'op': 'update', 'id': 't1/dev/c1', 'aim': 'over',
                     'rsrc': {'cpu': '101%', 'memory': '1G', 'disk': '1G',
                              'partition': '_default'}},
                    {'op': 'update', 'id': 't1/dev/c1', 'aim': 'under',
                     'rsrc': {'cpu': '1%', 'memory': '1G', 'disk': '1G'}}],
        }),
        # t1/prod and t1:s/prod (sub tenant, same allocation name) are two
        # reservations: each counts against the other and neither counts
        # against itself
        ('same-name-under-sub-tenant', {
            'partitions': [_p('p1', '200%', '20G', '20G')],
            'existing': [{'id': 't1:s/prod/c1',
                          'rsrc': {'cpu': '100%', 'memory': '10G',
                                   'disk': '10G', 'partition': 'p1',
                                   'traits': []}}],
            'ops': [{'op': 'create', 'id': 't1/prod/c1', 'aim': 'over',
                     'rsrc': {'cpu': '101%', 'memory': '1G', 'disk': '1G',
                              'partition': 'p1'}},
                    {'op': 'create', 'id': 't1/prod/c1', 'aim': 'exact',
                     'rsrc': {'cpu': '100%', 'memory': '10G', 'disk': '10G',
                              'partition': 'p1'}},
                    {'op': 'update', 'id': 't1:s/prod/c1', 'aim': 'exact',
                     'rsrc': {'cpu': '100%', 'memory': '10240M',
                              'disk': '10G', 'partition': 'p1'}},
                    {'op': 'update', 'id': 't1/prod/c1', 'aim': 'over',
                     'rsrc': {'cpu': '100%', 'memory': '10G',
                              'disk': '10241M', 'partition': 'p1'}}],
        }),
        # an update that re-sends the stored amounts and only adds a limited
        # trait is still checked against that trait's limit
        ('same-amounts-new-trait', {
            'partitions': [_p('p1', '200%', '100G', '100G', [lim_a])],
            'existing': [{'id': 't1/dev/c1',
                          'rsrc': {'cpu': '150%', 'memory': '1G',
                                   'disk': '1G', 'partition': 'p1',
                                   'traits': ['b']}}],
            'ops': [{'op': 'update', 'id': 't1/dev/c1', 'aim': 'same',
                     'rsrc': {'cpu': '150%', 'memory': '1G', 'disk': '1G',
                              'partition': 'p1', 'traits': ['a', 'b']}},
                    {'op': 'update', 'id': 't1/dev/c1', 'aim': 'same',
                     'rsrc': {'cpu': '150%', 'memory': '1G', 'disk': '1G',
                              'partition': 'p1', 'rank': 50}}],
        }),
        # explicit "partition": null - stored without the attribute, listed
        # as _default; whatever is accepted that way keeps counting against
        # _default (create, then update to null of a reservation of p1)
        ('null-partition-still-counts', {
            'partitions': [_p('_default', '200%', '20G', '20G'),
                           _p('p1', '200%', '20G', '20G')],
            'existing': [{'id': 't3/qa/c1',
                          'rsrc': {'cpu': '100%', 'memory': '4G',
                                   'disk': '4G', 'partition': 'p1',
                                   'traits': []}}],
            'ops': [{'op': 'create', 'id': 't1/dev/c1', 'aim': 'under',
                     'rsrc': {'cpu': '100%', 'memory': '10G', 'disk': '10G',
                              'partition': None}},
                    {'op': 'create', 'id': 't2/dev/c1', 'aim': 'over',
                     'rsrc': {'cpu': '150%', 'memory': '5G', 'disk': '5G',
                              'partition': '_default'}},
                    {'op': 'update', 'id': 't3/qa/c1', 'aim': 'under',
                     'rsrc': {'cpu': '0%', 'memory': '8G', 'disk': '8G',
                              'partition': None}},
                    {'op': 'create', 'id': 't2/uat/c1', 'aim': 'over',
                     'rsrc': {'cpu': '0%', 'memory': '8G', 'disk': '8G'}}],
        }),
        # update that does not re-send the partition (schema-valid as the
        # API declares it): first one that fits, then one over the limit
        ('update-without-partition', {
            'partitions': [_p('p1', '200%', '100G', '100G', [lim_a])],
            'existing': [{'id': 't1/dev/c1',
                          'rsrc': dict(base, traits=['a'])}],
            'ops': [{'op': 'update', 'id': 't1/dev/c1', 'aim': 'under',
                     'rsrc': {'cpu': '20%', 'memory': '2G', 'disk': '1G'}},
                    {'op': 'update', 'id': 't1/dev/c1', 'aim': 'over',
                     'rsrc': {'cpu': '20%', 'memory': '10241M',
                              'disk': '1G'}}],
        }),
    ]
