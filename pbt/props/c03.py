"""C03 - placements honour partition, traits, server state and lease."""

from treadmill import scheduler

from pbt import gen, oracles
from pbt.props import _e1

ID = 'C03'
LEVEL = 'exploration'
RULE = ('70% E1 histories (pure scheduler API) and 30% E2 histories (Master + ZkBackend + masterapi on the fake ZooKeeper, incl. reload/restore/restart paths of loader.py); E1 histories with >=2 partitions, server/instance/allocation traits, '
        'leases around the reboot time, renewals, instances moved to '
        'allocations of another partition, frozen/down servers under '
        'pressure. Non-trivial = a history in which an instance was placed '
        'while another was displaced in the same cycle (eviction/restore '
        'path) or a placed instance had its allocation changed. distinct = '
        'distinct canonical JSON.'
        ' Since rounds 5-7: frozen loaded servers under pressure, allocation moves of instances sitting on frozen/down servers, two self-detected (unpublished) traits that may first appear in one server record.'
        ' Since round 8: allocations may require traits that nodes detect themselves (never published in /traits).')
ASSUMPTIONS = [
    'virtual clock replaces treadmill.scheduler.time',
    'the partition of an instance is the partition of the allocation it was '
    'last assigned to (Cell.add_app), as Loader.load_app does',
]
TRUSTED = ['pbt/cellsim.py', 'pbt/mastersim.py', 'pbt/fakezk.py', 'pbt/oracles.py']
BUDGET = {'quick': 6000, 'thorough': 160000}

PROFILE = {
    'max_parts': 3,
    'weights': {'app': 12, 'move': 4, 'renew': 3, 'adv': 4, 'freeze': 2,
                'down': 2, 'tick': 2, 'renewearly': 3, 'freezepress': 3,
                'notupmove': 3},
    'force': ['move', 'adv', 'renewearly', 'freezepress', 'notupmove'],
}


E2_PROFILE = {'max_parts': 3, 'weights': {'app': 12, 'allocs': 5, 'repart': 3, 'reboot': 3, 'adv': 3, 'state': 2, 'down': 2, 'tickreboots': 2, 'allocrepart': 4}, 'force': ['allocs', 'allocrepart', 'repart']}


def strategy(tier):
    return gen.tagged(PROFILE, E2_PROFILE, e2_share=3)


def watch(sim, info, flags):
    gained = [n for n, (srv, _e, _i) in info.after.items()
              if srv is not None and srv != info.before[n][0]]
    if gained and _e1.evictions(info):
        flags['evict'] = True
    for name, app in sim.cell.apps.items():
        if app.server and sim.decl_apps[name].get('moved'):
            flags['moved'] = True


def execute(case, stats):
    flags = _e1.run_case(case, stats, [oracles.c03], watch)
    if flags.get('evict'):
        stats.count('class:eviction-cycle')
    if flags.get('moved'):
        stats.count('class:placed-instance-moved-allocation')
    return bool(flags.get('evict') or flags.get('moved'))
