"""Shared plumbing for the checks that run on the E1 engine."""

from pbt import cellsim
from pbt import mastersim


def run_case(case, stats, oracle_fns, watch, quiescent_checks=()):
    """Run an E1 case, applying oracle_fns after every cycle.

    watch(sim, info, flags) records the non-triviality evidence in flags.
    Returns the flags dict.
    """
    flags = {}

    def observe(sim, info):
        for func in oracle_fns:
            func(sim, info)
        watch(sim, info, flags)

    if case.get('engine') == 'e2':
        stats.count('engine:e2')
        sim = mastersim.MasterSim.__new__(mastersim.MasterSim)
        sim.quiescent_checks_init = list(quiescent_checks)
        sim.__init__(case, observers=[observe], stats=stats)
        sim.run()
        if sim.master_crashes:
            flags['master_crashes'] = sim.master_crashes
    else:
        stats.count('engine:e1')
        sim = cellsim.CellSim(case, observers=[observe])
        sim.run(stats)
    flags['sim'] = sim
    return flags


def evictions(info):
    """Instances that had a server before the cycle and a different one (or
    none) after it."""
    return [name for name, (srv, _e, _i) in info.after.items()
            if info.before[name][0] is not None and
            info.before[name][0] != srv]
