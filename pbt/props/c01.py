"""C01 - no server is oversubscribed; one server per instance; unit spellings."""

from hypothesis import strategies as st

from pbt import gen, oracles
from pbt.props import _e1
from pbt.run import Violation

ID = 'C01'
LEVEL = 'exploration'
RULE = ('10% unit-spelling cases (one quantity per dimension spelled 2-4 '
        'equivalent ways through loader.resources / utils.megabytes / '
        'size_to_bytes vs a reference parser); of the rest 70% E1 histories (pure scheduler API) and 30% E2 histories (Master + ZkBackend + masterapi on the fake ZooKeeper, incl. reload/restore/restart paths of loader.py); E1 histories: generated topology/allocations + op list over the pure '
        'scheduler API; after every cycle the per-server sums of declared '
        'demand are compared with declared capacity and free_capacity, and '
        'both placement views are cross-checked. Non-trivial = a history in '
        'which some server was >=50% used in a dimension after a cycle and an '
        'eviction/move/lost placement occurred, with capacity vectors whose '
        'dimensions differ. distinct = distinct canonical JSON of the case.'
        ' Since rounds 5-7: a third of the E1 cells are small; E2 histories include buckets leaving/re-entering the cell (cell_remove_bucket / cell_insert_bucket), re-parenting, and master starts with a stale second placement record of an instance.'
        " Since round 9 (E2): at event quiescence the capacity that counts is what the server's record declares now, if that content was announced through the admin API (c01.record.*); bursts of more than 20 admin events in one delivery.")
ASSUMPTIONS = [
    'virtual clock replaces treadmill.scheduler.time (integer microseconds)',
    'servers are registered the way Loader.load_server does '
    '(add_node, state up, Partition.add)',
]
TRUSTED = ['pbt/cellsim.py', 'pbt/mastersim.py', 'pbt/fakezk.py', 'pbt/oracles.py']
BUDGET = {'quick': 6000, 'thorough': 160000}

PROFILE = {
    'weights': {'app': 14, 'down': 2, 'up': 2, 'rmsrv': 2, 'readd': 2},
}


E2_PROFILE = {'weights': {'app': 14, 'down': 3, 'up': 3, 'reboot': 3, 'resize': 4, 'shave': 4, 'rmsrv': 2, 'srv': 2, 'restart': 2, 'repart': 1, 'dupstart': 3, 'cellrm': 2, 'cellev': 2, 'reparent': 1, 'cellbounce': 3, 'evburst': 2}, 'force': ['resize', 'shave', 'dupstart', 'cellbounce', 'evburst'], 'units': [1, 1024, 131072, 1048576]}


@st.composite
def units_case(draw):
    """One quantity per dimension, spelled in several equivalent ways."""
    unit = draw(st.sampled_from([1, 1024, 1024 * 1024]))
    mem = draw(st.integers(0, 4096)) * unit
    disk = draw(st.integers(0, 4096)) * unit
    cpu = draw(st.integers(0, 6400))
    styles = draw(st.lists(st.integers(0, 11), min_size=2, max_size=4))
    # quantities that are not a whole number of MB: they floor, as
    # utils.megabytes documents (KB // 1024)
    odd = draw(st.lists(st.tuples(
        st.sampled_from(['K', 'k', 'KB', 'MB', 'GB', 'M', 'G']),
        st.integers(1, 5000)), max_size=3))
    return {'engine': 'units', 'mem': mem, 'disk': disk, 'cpu': cpu,
            'styles': styles, 'odd': [list(item) for item in odd],
            'drop': draw(st.sampled_from(
                [None, None, None, 'memory', 'cpu', 'disk']))}


def strategy(tier):
    cells = gen.tagged(PROFILE, E2_PROFILE, e2_share=3)
    return st.integers(0, 9).flatmap(
        lambda k: units_case() if k == 0 else cells)


def execute_units(case, stats):
    """Capacities and demands mean the same quantity however they are
    spelled: loader.resources() of every spelling equals the reference."""
    from treadmill import utils
    from treadmill.scheduler import loader
    from pbt import mastersim
    ref = [case['mem'], case['cpu'], case['disk']]
    seen = []
    for style in case['styles']:
        record = {
            'memory': mastersim.spell_mb(case['mem'], style),
            'cpu': mastersim.spell_cpu(case['cpu'], style + 1),
            'disk': mastersim.spell_mb(case['disk'], style + 2),
        }
        expect = list(ref)
        if case['drop']:
            record.pop(case['drop'])
            expect[['memory', 'cpu', 'disk'].index(case['drop'])] = 0
        try:
            got = loader.resources(record)
        except Exception as err:  # pylint: disable=broad-except
            raise Violation('c01.units.rejected',
                            'resources(%r) raised %r' % (record, err))
        if list(got) != expect:
            raise Violation(
                'c01.units.value',
                'resources(%r) = %r, the quantities are %r MB/%%/MB' %
                (record, list(got), expect))
        if 'memory' in record:
            mbytes = utils.megabytes(record['memory'])
            nbytes = utils.size_to_bytes(str(record['memory']).strip())
            if mbytes != case['mem'] or nbytes != case['mem'] * 1024 * 1024:
                raise Violation(
                    'c01.units.utils',
                    'megabytes(%r) = %r, size_to_bytes = %r, quantity is %r '
                    'MB' % (record['memory'], mbytes, nbytes, case['mem']))
        seen.append(canon_record(record))
    scale = {'K': 1024, 'M': 1024 ** 2, 'G': 1024 ** 3,
             'KB': 1000, 'MB': 1000 ** 2, 'GB': 1000 ** 3}
    for suffix, number in case.get('odd', []):
        text = '%d%s' % (number, suffix)
        nbytes = number * scale[suffix.upper()]
        expect = (nbytes // 1024) // 1024
        for key in ('memory', 'disk'):
            try:
                got = loader.resources({key: text})
            except Exception as err:  # pylint: disable=broad-except
                raise Violation('c01.units.rejected',
                                'resources(%r) raised %r' % ({key: text}, err))
            idx = 0 if key == 'memory' else 2
            if got[idx] != expect:
                raise Violation(
                    'c01.units.value',
                    'resources(%r)[%s] = %r; %s is %d bytes = %d whole MB' %
                    ({key: text}, key, got[idx], text, nbytes, expect))
        stats.count('units:odd-spelling')
    stats.count('engine:units')
    return len(set(seen)) >= 2 and any(ref)


def canon_record(record):
    return tuple(sorted((k, repr(v)) for k, v in record.items()))


def watch(sim, info, flags):
    for name, server in sim.servers().items():
        decl = sim.decl_servers.get(name)
        if decl is None:
            continue
        cap = decl['cap']
        for dim in range(3):
            used = cap[dim] - server.free_capacity[dim]
            if cap[dim] and used * 2 >= cap[dim] and len(set(cap)) > 1:
                flags['loaded'] = True
    for name, (srv, _e, _i) in info.after.items():
        bsrv = info.before.get(name, (None,))[0]
        if bsrv is not None and bsrv != srv:
            flags['churn'] = True


def records_at_quiescence(sim):
    """E2, at event quiescence (every change delivered and processed, then a
    cycle): the capacity that counts is the one the server's ZooKeeper
    record declares *now* - a master that has seen every event and still
    works with an older record oversubscribes the server as declared. Only
    records whose current content was announced by an admin event
    (masterapi.update_server_capacity) are judged."""
    from treadmill import zknamespace as z
    from treadmill import zkutils
    from pbt import mastersim
    for name, server in sorted(sim.servers().items()):
        record = zkutils.get_default(sim.admin, z.path.server(name))
        if not record or name not in sim.decl_servers:
            continue
        cap = mastersim.ref_vector(record)
        if sim.announced.get(name) != cap:
            # a record a node agent rewrote on its own (boot) is announced by
            # a presence change only, which a master may legitimately miss
            continue
        placed = [0, 0, 0]
        for aname in server.apps:
            decl = sim.decl_apps.get(aname)
            if decl is None:
                break
            placed = [p + d for p, d in zip(placed, decl['demand'])]
        else:
            sim.count('records_compared_at_quiescence')
            for dim in range(3):
                if placed[dim] > cap[dim]:
                    raise Violation(
                        'c01.record.oversubscribed',
                        '%s dim %d: placed demand %s > capacity %s declared '
                        'in its record (every event has been processed; the '
                        'master loaded %s)' % (
                            name, dim, placed[dim], cap[dim],
                            sim.decl_servers[name]['cap']))
                if float(server.free_capacity[dim]) != cap[dim] - placed[dim]:
                    raise Violation(
                        'c01.record.free',
                        '%s dim %d: reports free %s, its record declares %s '
                        'minus placed %s (every event has been processed; '
                        'the master loaded %s)' % (
                            name, dim, float(server.free_capacity[dim]),
                            cap[dim], placed[dim],
                            sim.decl_servers[name]['cap']))


def execute(case, stats):
    if case.get('engine') == 'units':
        return execute_units(case, stats)
    flags = _e1.run_case(case, stats, [oracles.c01], watch,
                         quiescent_checks=[records_at_quiescence])
    return bool(flags.get('loaded') and flags.get('churn'))
