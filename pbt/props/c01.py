"""C01 - no server is oversubscribed; one server per instance; unit spellings."""

from hypothesis import strategies as st

from pbt import gen, oracles
from pbt.props import _e1

ID = 'C01'
LEVEL = 'exploration'
RULE = ('70% E1 histories (pure scheduler API) and 30% E2 histories (Master + ZkBackend + masterapi on the fake ZooKeeper, incl. reload/restore/restart paths of loader.py); E1 histories: generated topology/allocations + op list over the pure '
        'scheduler API; after every cycle the per-server sums of declared '
        'demand are compared with declared capacity and free_capacity, and '
        'both placement views are cross-checked. Non-trivial = a history in '
        'which some server was >=50% used in a dimension after a cycle and an '
        'eviction/move/lost placement occurred, with capacity vectors whose '
        'dimensions differ. distinct = distinct canonical JSON of the case.')
ASSUMPTIONS = [
    'virtual clock replaces treadmill.scheduler.time (integer microseconds)',
    'servers are registered the way Loader.load_server does '
    '(add_node, state up, Partition.add)',
]
TRUSTED = ['pbt/cellsim.py', 'pbt/mastersim.py', 'pbt/fakezk.py', 'pbt/oracles.py']
BUDGET = {'quick': 6000, 'thorough': 160000}

PROFILE = {
    'weights': {'app': 14, 'down': 2, 'up': 2, 'rmsrv': 2, 'readd': 2},
}


E2_PROFILE = {'weights': {'app': 14, 'down': 3, 'up': 3, 'reboot': 3, 'resize': 4, 'rmsrv': 2, 'srv': 2, 'restart': 2, 'repart': 1}, 'force': ['resize']}


def strategy(tier):
    return gen.tagged(PROFILE, E2_PROFILE, e2_share=3)


def watch(sim, info, flags):
    for name, server in sim.servers().items():
        decl = sim.decl_servers.get(name)
        if decl is None:
            continue
        cap = decl['cap']
        for dim in range(3):
            used = cap[dim] - server.free_capacity[dim]
            if cap[dim] and used * 2 >= cap[dim] and len(set(cap)) > 1:
                flags['loaded'] = True
    for name, (srv, _e, _i) in info.after.items():
        bsrv = info.before.get(name, (None,))[0]
        if bsrv is not None and bsrv != srv:
            flags['churn'] = True


def execute(case, stats):
    flags = _e1.run_case(case, stats, [oracles.c01], watch)
    return bool(flags.get('loaded') and flags.get('churn'))
