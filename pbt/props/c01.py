"""C01 - no server is oversubscribed; one server per instance; unit spellings."""

from hypothesis import strategies as st

from pbt import cellsim, gen, oracles
from pbt.run import Violation

ID = 'C01'
LEVEL = 'exploration'
RULE = ('E1 histories: generated topology/allocations + op list over the pure '
        'scheduler API; after every cycle the per-server sums of declared '
        'demand are compared with declared capacity and free_capacity, and '
        'both placement views are cross-checked. Non-trivial = a history in '
        'which some server was >=50% used in a dimension after a cycle and an '
        'eviction/move/lost placement occurred, with capacity vectors whose '
        'dimensions differ. distinct = distinct canonical JSON of the case.')
ASSUMPTIONS = [
    'virtual clock replaces treadmill.scheduler.time (integer microseconds)',
    'servers are registered the way Loader.load_server does '
    '(add_node, state up, Partition.add)',
]
TRUSTED = ['pbt/cellsim.py interpreter', 'pbt/oracles.py leaf recomputation']
BUDGET = {'quick': 6000, 'thorough': 160000}

PROFILE = {
    'weights': {'app': 14, 'down': 2, 'up': 2, 'rmsrv': 2, 'readd': 2},
}


def strategy(tier):
    return gen.cell_case(PROFILE)


def execute(case, stats):
    flags = {'loaded': False, 'churn': False}

    def observe(sim, info):
        try:
            oracles.c01(sim, info)
        except Violation:
            raise
        for name, server in sim.servers().items():
            cap = sim.decl_servers[name]['cap']
            for dim in range(3):
                used = cap[dim] - server.free_capacity[dim]
                if cap[dim] and used * 2 >= cap[dim] and \
                        len(set(cap)) > 1:
                    flags['loaded'] = True
        for name, (srv, _e, _i) in info.after.items():
            bsrv = info.before[name][0]
            if bsrv is not None and bsrv != srv:
                flags['churn'] = True

    sim = cellsim.CellSim(case, observers=[observe])
    sim.run(stats)
    return flags['loaded'] and flags['churn']
