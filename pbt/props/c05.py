"""C05 - identities are unique, in range, held only by placed instances."""

from pbt import gen, oracles
from pbt.props import _e1

ID = 'C05'
LEVEL = 'exploration'
RULE = ('70% E1 histories (pure scheduler API) and 30% E2 histories (Master + ZkBackend + masterapi on the fake ZooKeeper, incl. reload/restore/restart paths of loader.py); E1 histories with identity groups of 0-4 identities, more members '
        'than identities, grow/shrink/delete/re-create between cycles, '
        'eviction, server failure, blacklisting, schedule-once. After every '
        'cycle identities are recomputed from the instances. Non-trivial = '
        'some group had more members than identities and an unplaced member '
        'at the end of a cycle. distinct = canonical JSON.'
        ' Since rounds 5-7: an instance that lost its server outside a cycle is blacklisted / unscheduled / has its group shrunk before the next cycle; group resized while no master looks, then restart.'
        ' Since round 10: allocations with utilisation caps, capclone / capsqueeze (a placed group member is outranked inside its capped allocation while the cell is full).'
        ' Since round 11: lease renewals (renew, renewold, clock advances).')
ASSUMPTIONS = [
    'virtual clock replaces treadmill.scheduler.time',
    'group count changes reach the cell through configure_identity_group / '
    'remove_identity_group as Loader.load_identity_groups does',
]
TRUSTED = ['pbt/cellsim.py', 'pbt/mastersim.py', 'pbt/fakezk.py', 'pbt/oracles.py']
BUDGET = {'quick': 6000, 'thorough': 160000}

PROFILE = {
    'weights': {'app': 14, 'idg': 5, 'rmidg': 2, 'bl': 3, 'down': 3,
                'rmsrv': 3, 'orphanbl': 3, 'orphanrm': 3, 'orphanidg': 3,
                'clone': 5, 'fillclone2': 2, 'clone2': 2, 'prio': 2,
                'capsqueeze': 4, 'renew': 2, 'renewold': 3, 'adv': 2},
    'force': ['idg', 'orphanbl', 'orphanrm', 'orphanidg', 'clone', 'rmsrv',
              'fillclone2', 'capsqueeze', 'renewold'],
    'rich_allocs': True,
    'groups': True,
    'group_bias': True,
}


E2_PROFILE = {'weights': {'app': 14, 'idg': 5, 'rmidg': 2, 'bl': 3, 'down': 3, 'rmsrv': 2, 'restart': 2, 'resize': 2, 'idgrestart': 4}, 'force': ['idg', 'idgrestart']}


def strategy(tier):
    return gen.tagged(PROFILE, E2_PROFILE, e2_share=3)


def watch(sim, info, flags):
    members = {}
    unplaced = set()
    for name, app in sim.cell.apps.items():
        gname = sim.decl_apps[name]['group']
        if gname:
            members[gname] = members.get(gname, 0) + 1
            if app.server is None:
                unplaced.add(gname)
    for gname, cnt in members.items():
        if cnt > sim.group_count(gname) and gname in unplaced:
            flags['contended'] = True


def execute(case, stats):
    flags = _e1.run_case(case, stats, [oracles.c05], watch)
    return bool(flags.get('contended'))
