"""C06 - the scheduling queue orders instances by rank, reservation, priority."""

import fractions
import sys

from hypothesis import strategies as st

from treadmill import scheduler

from pbt import vclock
from pbt.run import Violation

ID = 'C06'
LEVEL = 'exploration'
RULE = ('60% generated allocation trees (depth 1-4, 1-8 nodes, reservations per '
        'dimension incl. zero and None, ranks/adjustments/caps within the '
        'schema ranges) with 0-16 instances (priorities with many zeros and '
        'ties, zero-demand dimensions, running/pending mix, arrival order = '
        'creation order under the virtual clock) and a generated free '
        'capacity vector; validity predicates on '
        'list(root.utilization_queue(free)): exactly-once, ranks '
        'non-decreasing, per-allocation (-priority, running-first, arrival) '
        'order, priority-0 last within a rank, reservation boost and cap '
        'recomputed in exact rationals. Non-trivial = tree depth >=2 with '
        'instances in >=2 allocations of different rank and at least one '
        'boosted and one non-boosted instance. 20% E1 histories with rich '
        'allocation trees: the queues of real cycles (exactly-once per '
        'partition, ranks non-decreasing, unplaced rank => on no server). 20% '
        'E2 histories: priorities/allocations chosen by Loader.find_assignment '
        '/ load_app vs the declared manifests and assignments, and the queue '
        'order by declared priority. distinct = canonical JSON.'
        " Since round 7: 'first come' is ground truth (the order in which the harness submitted the instances resp. the running master first loaded them), tree cases re-assign instances through Cell.add_app."
        ' Since round 10 (E2): every instance known to the master is considered exactly once per cycle and in the cycle of the partition its declared allocation belongs to; allocations moved between partitions under their name.')
ASSUMPTIONS = [
    'demands and reservations are small integers (exact in float64)',
    'the instance whose demand crosses the reservation boundary may be '
    'ranked either way (statement and code differ only there); priority-0 '
    'instances are exempt from the boost/cap predicates',
    'cap comparisons use a relative margin of 1e-9',
]
TRUSTED = ['exact rational recomputation in pbt/props/c06.py',
           'pbt/cellsim.py', 'pbt/mastersim.py (reference assignment matcher)',
           'pbt/fakezk.py']
BUDGET = {'quick': 16000, 'thorough': 320000}

UNPLACED = sys.maxsize


def vec(lo, hi):
    return st.lists(st.integers(lo, hi), min_size=3, max_size=3)


@st.composite
def strategy_case(draw):
    nnodes = draw(st.integers(1, 8))
    nodes = []
    for idx in range(nnodes):
        nodes.append({
            'parent': draw(st.integers(-1, idx - 1)) if idx else -1,
            'reserved': draw(st.one_of(st.none(), vec(0, 12), vec(0, 3))),
            'rank': draw(st.sampled_from([100, 100, 100, 99, 50, 0, 10])),
            'adj': draw(st.sampled_from([0, 0, 1, 10, 20, 100])),
            'maxutil': draw(st.sampled_from(
                [None, None, None, 0, 0.5, 1, 1.5, 2, 3, 100])),
        })
    apps = draw(st.lists(st.fixed_dictionaries({
        'alloc': st.integers(0, nnodes - 1),
        'demand': st.one_of(vec(0, 8), vec(0, 2)),
        'prio': st.sampled_from([0, 0, 1, 1, 1, 2, 50, 100]),
        'running': st.booleans(),
    }), max_size=16))
    # re-evaluations: an instance is assigned again (to the same or another
    # allocation) the way Loader.load_app does it for an instance it knows
    moves = draw(st.lists(st.tuples(st.integers(0, 15),
                                    st.one_of(st.none(),
                                              st.integers(0, nnodes - 1))),
                          max_size=6)) if apps else []
    return {'nodes': nodes, 'apps': apps, 'free': draw(vec(0, 40)),
            'moves': [list(m) for m in moves]}


CELL_PROFILE = {
    'rich_allocs': True,
    'weights': {'app': 14, 'prio': 4, 'move': 2, 'rm': 2},
    'lease': False,
}


MASTER_PROFILE = {
    'weights': {'app': 12, 'prio': 6, 'allocs': 4, 'rm': 2, 'restart': 2,
                'cycle': 8, 'allocrepart': 3},
    'force': ['prio', 'allocs', 'allocrepart'],
    'max_parts': 3,
    'lease': False, 'traits': False,
    'max_ops': 20,
}


def strategy(tier):
    from pbt import gen
    cell = gen.cell_case(CELL_PROFILE).map(lambda c: dict(c, kind='cell'))
    master = gen.master_case(MASTER_PROFILE).map(
        lambda c: dict(c, kind='master'))
    return st.integers(0, 9).flatmap(
        lambda k: cell if k < 2 else (master if k < 4 else strategy_case()))


def fixed_cases():
    return []


def frac_util(acc, reserved):
    """max over dimensions of (acc - reserved) / reserved, exactly."""
    best = None
    for a, r in zip(acc, reserved):
        if r == 0:
            val = fractions.Fraction(0) if a == 0 else None  # None = +inf
        else:
            val = fractions.Fraction(a - r, r)
        if val is None:
            return None
        if best is None or val > best:
            best = val
    return best


def rank_check(tag, node, ordered, prefix='c06'):
    """Boost and cap of one allocation, in exact rationals.

    node: {'reserved': [m, c, d] or None, 'rank', 'adj', 'maxutil'};
    ordered: [(name, priority, demand, rank)] in the allocation's priority
    order. Returns (boosted, plain) counts."""
    reserved = node['reserved'] or [0, 0, 0]
    acc = [0, 0, 0]
    boosted = plain = 0
    for name, prio, demand, rank in ordered:
        before = list(acc)
        acc = [a + d for a, d in zip(acc, demand)]
        if prio == 0:
            continue
        util = frac_util(acc, reserved)
        capped = None
        if node['maxutil'] is not None:
            cap = fractions.Fraction(node['maxutil']) - 1
            if util is None:
                capped = True
            else:
                margin = fractions.Fraction(1, 10 ** 9) * (1 + abs(cap))
                if util > cap + margin:
                    capped = True
                elif util < cap - margin:
                    capped = False
        else:
            capped = False
        if capped is True and rank != UNPLACED:
            raise Violation(
                prefix + '.cap',
                '%s in %s is beyond the cap %s (cumulative %s, reserved %s) '
                'but has rank %s' % (name, tag, node['maxutil'], acc,
                                     reserved, rank))
        if capped is False and rank == UNPLACED:
            raise Violation(
                prefix + '.cap-early',
                '%s in %s is within the cap %s (cumulative %s, reserved %s) '
                'but is not scheduled' % (name, tag, node['maxutil'], acc,
                                          reserved))
        if rank == UNPLACED or capped is None:
            continue
        within_before = all(b < r for b, r in zip(before, reserved))
        within_after = all(a <= r for a, r in zip(acc, reserved))
        if within_before and within_after:
            if rank != node['rank'] - node['adj']:
                raise Violation(
                    prefix + '.boost-missing',
                    '%s in %s stays within the reservation %s (cumulative '
                    '%s) but has rank %s, expected %s' %
                    (name, tag, reserved, acc, rank,
                     node['rank'] - node['adj']))
            boosted += 1
        elif not within_before:
            if rank != node['rank']:
                raise Violation(
                    prefix + '.boost-extra',
                    '%s in %s is beyond the reservation %s (cumulative '
                    'before %s) but has rank %s, expected %s' %
                    (name, tag, reserved, before, rank, node['rank']))
            plain += 1
        else:
            if rank not in (node['rank'], node['rank'] - node['adj']):
                raise Violation(
                    prefix + '.rank-value',
                    '%s in %s has rank %s, neither %s nor boosted' %
                    (name, tag, rank, node['rank']))
    return boosted, plain


def execute_cell(case, stats):
    """Queue predicates on the queues of real cycles, plus: an instance with
    the unplaced rank is on no server after the cycle."""
    from pbt import cellsim
    seen = {'capped': False, 'multi': False}

    def observe(sim, info):
        expected = {}
        for name in sim.cell.apps:
            expected.setdefault(sim.decl_apps[name]['label'], set()).add(name)
        got = {}
        for label, entries in info.queues:
            names = [name for name, _rank, _srv in entries]
            if len(names) != len(set(names)):
                raise Violation('c06.cycle.once',
                                'queue of %s lists an instance twice: %s' %
                                (label, names))
            got.setdefault(label, set()).update(names)
            ranks = [rank for _n, rank, _s in entries]
            for left, right in zip(ranks, ranks[1:]):
                if left > right:
                    raise Violation(
                        'c06.cycle.rank-order',
                        'ranks decrease along the queue of %s: %s' %
                        (label, ranks))
            for name, rank, _srv in entries:
                if rank == UNPLACED:
                    seen['capped'] = True
                    if name in sim.cell.apps and \
                            sim.cell.apps[name].server is not None:
                        raise Violation(
                            'c06.cycle.unplaced-on-server',
                            '%s has the unplaced rank (over its '
                            'utilisation cap) but is on %s after the '
                            'cycle' % (name, sim.cell.apps[name].server))
            if len({sim.decl_apps[n]['alloc'] for n in names}) >= 2:
                seen['multi'] = True
        for label, names in expected.items():
            if got.get(label, set()) != names:
                raise Violation(
                    'c06.cycle.once',
                    'partition %s: queue considered %s, scheduled %s' %
                    (label, sorted(got.get(label, set())), sorted(names)))

    sim = cellsim.CellSim(case, observers=[observe])
    sim.run(stats)
    stats.count('kind:cell')
    return seen['capped'] and seen['multi']


def execute_master(case, stats):
    """Loader.find_assignment / load_app choose allocation and priority: the
    queue of every quiescent cycle is checked against the priorities and
    allocations *declared* in ZooKeeper (reference matcher in mastersim)."""
    from pbt import mastersim
    seen = {'zero': False, 'explicit': False, 'multi': False}

    def observe(sim, info):
        if info.kind not in ('cycle', 'init'):
            return
        cell = sim.cell
        ref = {}
        for name, app in cell.apps.items():
            alloc, prio = sim.reference_assignment(name)
            ref[name] = (alloc, prio)
            if app.priority != prio:
                raise Violation(
                    'c06.loader.priority',
                    '%s: declared priority %s (manifest %r), the scheduler '
                    'uses %s' % (name, prio, sim.decl_apps[name].get('prio'),
                                 app.priority))
            if app.allocation is None or app.allocation.name != alloc:
                raise Violation(
                    'c06.loader.allocation',
                    '%s: declared allocation %s, the scheduler uses %r' %
                    (name, alloc,
                     None if app.allocation is None else app.allocation.name))
            if sim.decl_apps[name].get('prio') is not None:
                seen['explicit'] = True
            if prio == 0:
                seen['zero'] = True
        # every instance is considered exactly once, in the cycle of the
        # partition its declared allocation belongs to
        sim.refresh_app_decl()
        times = {}
        for label, entries in info.queues:
            for name, _rank, _srv in entries:
                times[name] = times.get(name, 0) + 1
                want = sim.decl_apps[name]['label']
                if name in cell.apps and want != label:
                    raise Violation(
                        'c06.master.wrong-partition',
                        '%s (declared allocation %s, partition %s) is '
                        'considered in the cycle of partition %s' %
                        (name, ref[name][0], want, label))
        for name in cell.apps:
            if times.get(name, 0) != 1:
                raise Violation(
                    'c06.master.once',
                    '%s is considered %d times in this cycle (queues of %s)'
                    % (name, times.get(name, 0),
                       [label for label, _e in info.queues]))
        for label, entries in info.queues:
            zero_seen = {}
            per_alloc = {}
            for pos, (name, rank, srv) in enumerate(entries):
                alloc, prio = ref[name]
                per_alloc.setdefault(alloc, []).append(
                    (pos, name, prio, srv))
                if prio == 0:
                    zero_seen[rank] = name
                elif rank in zero_seen:
                    raise Violation(
                        'c06.master.prio0',
                        'priority-0 %s precedes %s (declared priority %s) '
                        'of the same rank %s in the queue of %s' %
                        (zero_seen[rank], name, prio, rank, label))
            if len(per_alloc) >= 2:
                seen['multi'] = True
            for alloc, items in per_alloc.items():
                expect = sorted(items, key=lambda it: (
                    -it[2], 0 if it[3] else 1,
                    sim.arrival.get(it[1], 1 << 60)))
                if [it[1] for it in expect] != [it[1] for it in items]:
                    raise Violation(
                        'c06.master.alloc-order',
                        'allocation %s: expected order %s by declared '
                        'priority, queue has %s' %
                        (alloc, [(it[1], it[2]) for it in expect],
                         [(it[1], it[2]) for it in items]))
                # rank, boost and cap from the allocation as DECLARED in
                # ZooKeeper (as the master last loaded it)
                node = sim.reference_allocation(alloc)
                ranks = {name: rank for name, rank, _srv in entries}
                boosted, _plain = rank_check(
                    alloc, node,
                    [(it[1], it[2], sim.decl_apps[it[1]]['demand'],
                      ranks[it[1]]) for it in items],
                    prefix='c06.master')
                if boosted:
                    seen['boosted'] = True
                if any(ranks[it[1]] == UNPLACED for it in items):
                    seen['capped'] = True

    sim = mastersim.MasterSim(case, observers=[observe], stats=stats)
    sim.run()
    stats.count('kind:master')
    return seen['zero'] and seen['explicit'] and seen['multi']


def execute(case, stats):
    if case.get('kind') == 'cell':
        return execute_cell(case, stats)
    if case.get('kind') == 'master':
        return execute_master(case, stats)
    stats.count('kind:tree')
    scheduler.DIMENSION_COUNT = 3
    clock = vclock.VClock()
    scheduler.time = clock
    root = scheduler.Partition(label='part0').allocation
    allocs = []
    depth = []
    for idx, node in enumerate(case['nodes']):
        parent = root if node['parent'] < 0 else allocs[node['parent']]
        alloc = parent.get_sub_alloc('n%d' % idx)
        alloc.update(list(node['reserved']) if node['reserved'] else None,
                     node['rank'], node['adj'], node['maxutil'])
        allocs.append(alloc)
        depth.append(1 if node['parent'] < 0 else depth[node['parent']] + 1)
    apps = []
    cell = scheduler.Cell('tree')
    final_alloc = []
    for idx, spec in enumerate(case['apps']):
        app = scheduler.Application(
            'pr.app#%010d' % idx, spec['prio'], list(spec['demand']),
            affinity='a')
        if spec['running']:
            app.server = 'srv'
        cell.add_app(allocs[spec['alloc']], app)
        apps.append(app)
        final_alloc.append(spec['alloc'])
    for aidx, target in case.get('moves', []):
        if not apps:
            break
        aidx %= len(apps)
        if target is not None:
            final_alloc[aidx] = target
        clock.advance(1)
        cell.add_app(allocs[final_alloc[aidx]], apps[aidx])
        stats.count('tree_reassignments')
    # arrival order = the order in which the instances were first submitted
    arrival = {app.name: idx for idx, app in enumerate(apps)}
    case = dict(case, apps=[dict(spec, alloc=final_alloc[idx])
                            for idx, spec in enumerate(case['apps'])])

    try:
        queue = list(root.utilization_queue(
            scheduler.np.array(case['free'], dtype=float)))
    except Exception as err:  # pylint: disable=broad-except
        raise Violation('c06.crash.%s' % type(err).__name__,
                        'utilization_queue raised %r' % (err,))

    names = [entry[-1].name for entry in queue]
    # (1) exactly once
    if sorted(names) != sorted(app.name for app in apps):
        raise Violation('c06.once',
                        'queue %s is not a permutation of the instances %s' %
                        (names, sorted(app.name for app in apps)))
    # (2) ranks non-decreasing
    ranks = [entry[0] for entry in queue]
    for left, right in zip(ranks, ranks[1:]):
        if left > right:
            raise Violation('c06.rank-order',
                            'ranks decrease along the queue: %s' % ranks)
    pos = {name: idx for idx, name in enumerate(names)}
    rank_of = {entry[-1].name: entry[0] for entry in queue}
    # (3) order within one allocation
    boosted = plain = 0
    for aidx, alloc in enumerate(allocs):
        mine = [(spec, app) for spec, app in zip(case['apps'], apps)
                if spec['alloc'] == aidx]
        expect = sorted(mine, key=lambda sa: (
            -sa[0]['prio'], 0 if sa[0]['running'] else 1,
            arrival[sa[1].name]))
        got = sorted(mine, key=lambda sa: pos[sa[1].name])
        if [a.name for _s, a in expect] != [a.name for _s, a in got]:
            raise Violation(
                'c06.alloc-order',
                'allocation n%d: expected order %s, queue has %s' %
                (aidx, [a.name for _s, a in expect],
                 [a.name for _s, a in got]))
        # (5) boost and (6) cap, exact
        node = case['nodes'][aidx]
        reserved = node['reserved'] or [0, 0, 0]
        acc = [0, 0, 0]
        for spec, app in expect:
            before = list(acc)
            acc = [a + d for a, d in zip(acc, spec['demand'])]
            rank = rank_of[app.name]
            if spec['prio'] == 0:
                continue
            util = frac_util(acc, reserved)
            capped = None
            if node['maxutil'] is not None:
                cap = fractions.Fraction(node['maxutil']) - 1
                if util is None:
                    capped = True
                else:
                    margin = fractions.Fraction(1, 10 ** 9) * \
                        (1 + abs(cap))
                    if util > cap + margin:
                        capped = True
                    elif util < cap - margin:
                        capped = False
            else:
                capped = False
            if capped is True and rank != UNPLACED:
                raise Violation(
                    'c06.cap',
                    '%s in n%d is beyond the cap %s (cumulative %s, '
                    'reserved %s) but has rank %s' %
                    (app.name, aidx, node['maxutil'], acc, reserved, rank))
            if capped is False and rank == UNPLACED:
                raise Violation(
                    'c06.cap-early',
                    '%s in n%d is within the cap %s (cumulative %s, '
                    'reserved %s) but is not scheduled' %
                    (app.name, aidx, node['maxutil'], acc, reserved))
            if rank == UNPLACED or capped is None:
                continue
            within_before = all(b < r for b, r in zip(before, reserved))
            within_after = all(a <= r for a, r in zip(acc, reserved))
            if within_before and within_after:
                if rank != node['rank'] - node['adj']:
                    raise Violation(
                        'c06.boost-missing',
                        '%s in n%d stays within the reservation %s '
                        '(cumulative %s) but has rank %s, expected %s' %
                        (app.name, aidx, reserved, acc, rank,
                         node['rank'] - node['adj']))
                boosted += 1
            elif not within_before:
                if rank != node['rank']:
                    raise Violation(
                        'c06.boost-extra',
                        '%s in n%d is beyond the reservation %s '
                        '(cumulative before %s) but has rank %s, expected '
                        '%s' % (app.name, aidx, reserved, before, rank,
                                node['rank']))
                plain += 1
            else:
                if rank not in (node['rank'], node['rank'] - node['adj']):
                    raise Violation(
                        'c06.rank-value',
                        '%s in n%d has rank %s, neither %s nor boosted' %
                        (app.name, aidx, rank, node['rank']))
    # (4) priority 0 after all others of the same rank
    seen_zero = {}
    for entry in queue:
        rank, app = entry[0], entry[-1]
        if app.priority == 0:
            seen_zero[rank] = app.name
        elif rank in seen_zero:
            raise Violation(
                'c06.prio0',
                'priority-0 %s precedes %s (priority %s) of the same rank '
                '%s' % (seen_zero[rank], app.name, app.priority, rank))

    used = sorted({spec['alloc'] for spec in case['apps']})
    nontrivial = (
        max(depth) >= 2 and len(used) >= 2 and
        len({case['nodes'][a]['rank'] for a in used}) >= 2 and
        boosted >= 1 and plain >= 1
    )
    if boosted:
        stats.count('class:boosted')
    if any(r == UNPLACED for r in ranks):
        stats.count('class:capped')
    return nontrivial
