"""C04 - affinity limits hold at every level of the topology."""

from pbt import gen, oracles
from pbt.props import _e1

ID = 'C04'
LEVEL = 'exploration'
RULE = ('70% E1 histories (pure scheduler API) and 30% E2 histories (Master + ZkBackend + masterapi on the fake ZooKeeper, incl. reload/restore/restart paths of loader.py); E1 histories with limits drawn per affinity name on any subset of '
        '{server, rack, pod, cell}, several instances per affinity and '
        'capacity pressure. After every cycle the true per-node counts '
        '(recomputed from server.apps) are compared with the declared limits '
        'and with the affinity counters of every node. Non-trivial = a '
        'finite limit at a non-server level, >=2 placed instances of that '
        'affinity and >=1 eviction in the history. distinct = canonical JSON.'
        " Since rounds 5-7: counters are also compared with the instances' own view (how many instances say they sit below a node); dense (tight, frequent) limits; allocation moves; buckets leaving the cell; bounce + re-parent into a rack at its limit; two same-shape arrivals placed through eviction in one cycle on a filled cell."
        ' Since round 8: leases, renewals and clock advances in the limit histories (renewal-failure restore path).'
        ' Since round 10: racks re-defined under another pod (rebucket).')
ASSUMPTIONS = [
    'instances of one affinity share their limits (drawn per affinity name)',
    'virtual clock replaces treadmill.scheduler.time',
]
TRUSTED = ['pbt/cellsim.py', 'pbt/mastersim.py', 'pbt/fakezk.py', 'pbt/oracles.py']
BUDGET = {'quick': 6000, 'thorough': 160000}

PROFILE = {
    'max_pods': 3, 'max_racks': 3,
    'weights': {'app': 14, 'rmsrv': 2, 'readd': 2, 'prio': 2, 'clone': 4,
                'clone2': 4, 'fillclone2': 3, 'fill': 1, 'move': 2,
                'renew': 2, 'renewold': 3, 'adv': 2},
    'force': ['clone2', 'fillclone2', 'renewold'],
    'lease': True, 'dense_limits': True,
}


E2_PROFILE = {'max_pods': 2, 'max_racks': 3, 'weights': {'app': 14, 'rmsrv': 2, 'srv': 2, 'prio': 2, 'reparent': 3, 'cellev': 3, 'cellrm': 3, 'allocs': 2, 'restart': 2, 'resize': 2, 'bouncemove': 4, 'rebucket': 2, 'rebucketwork': 4, 'renew': 2, 'adv': 2, 'tickreboots': 1}, 'force': ['bouncemove', 'rebucketwork'], 'lease': True, 'min_servers': 2, 'dense_limits': True}


def strategy(tier):
    return gen.tagged(PROFILE, E2_PROFILE, e2_share=3)


def watch(sim, info, flags):
    if _e1.evictions(info):
        flags['evict'] = True
    placed = {}
    for name, app in sim.cell.apps.items():
        if app.server:
            decl = sim.decl_apps[name]
            if any(level != 'server' for level in decl['limits']):
                placed[decl['aff']] = placed.get(decl['aff'], 0) + 1
    if any(cnt >= 2 for cnt in placed.values()):
        flags['limited'] = True


def execute(case, stats):
    flags = _e1.run_case(case, stats, [oracles.c04], watch)
    return bool(flags.get('evict') and flags.get('limited'))
