"""C15 - state kept in names and directory entries round-trips losslessly."""

import json
import os
import shutil
import subprocess
import sys
import tempfile

from pbt import codecs
from pbt.run import Violation  # noqa: F401  (re-exported for replays)

ID = 'C15'
LEVEL = 'exploration'
RULE = (
    'One case = a tagged union {codec, a, b, ...}: a pair of values of one '
    'codec (rule file name, container unique name, 13-char id, app / server '
    'trace node name, ZooKeeper payload, LDAP Application / CellAllocation / '
    'Partition entry, _diff_entries modify list incl. the real '
    'LdapObject.update -> Admin.update path for CellAllocation and '
    'Partition), b being a copy, a '
    'field-wise blend or an independent draw. Values come from the producers\' '
    'vocabulary (schema regexes, Master/_run/_finish/vring call sites). Each '
    'value is encoded and decoded by the real code (a third of the trace '
    'cases through trace.post -> EventsPublisher -> publish -> TraceLoop, a '
    'quarter of the rule cases through RuleMgr on a real directory, LDAP '
    'both with native values and through a server normaliser); distinct '
    'values must have distinct encodings. Non-trivial = the value has a '
    'separator of its own encoding inside a field (dash in app name, dot in '
    'service, colon in why), a wildcard / boundary port, None/empty optional '
    'field or container, nesting, >=17 indexed sub-objects, a list attribute '
    'with a repeated value, a padded id, or '
    'a modify list with >=2 operation kinds. Plain lists of the LDAP objects '
    '(args, tickets, ..., vring cells, vring rule endpoints, systems) are '
    'ordered and may repeat a value in the entry-level codecs (no schema has '
    'uniqueItems); one pair in six there is a list variant: the same object '
    'but for one value occurring once more / once less / two values swapped '
    'in one list. A third of the ZooKeeper payload cases write the value '
    'over a node with a history (ops put-rewrite / update-rewrite: 1-2 '
    'earlier objects written by put, then put / update with '
    'check_content=True as the masterapi, cellsync and loader writers do); '
    'the object the node held last is the same object, the same with other '
    'key order, an ==-equal object with another bool / int / float type at '
    '1..all leaves (non-trivial), the object but for one value, or '
    'unrelated. distinct = canonical JSON. '
    'codecs are drawn uniformly (counters codec:<name>).')
ASSUMPTIONS = [
    'a directory server returns what was added: attributes without values do '
    'not exist, values come back as strings (TRUE/FALSE for booleans) or, on '
    'the direct path, as the native values ldap3 formats them to; for the '
    'entry-level codecs (to_entry/from_entry, the pure functions the property '
    'is observed at) the values of one attribute come back in the order and '
    'number they were written, so lists with repeated values are in the '
    'domain; only the modify-list codecs (diff_entries, update) model the '
    'values of one attribute as a set and are given lists with unique '
    'elements',
    'modify lists are interpreted with RFC 4511 semantics (delete of an '
    'absent attribute and add of an existing value are errors)',
    'trace node name = <object>,<when>,<host>,<type>,<data> as '
    'zknamespace.path.trace and trace.*.zk.publish build it; the pipeline '
    'variant replaces treadmill.trace.time and the module-level _HOSTNAME',
    'os.stat inside treadmill.appcfg is replaced by generated '
    '(st_ctime, st_ino) for gen_uniqueid',
    'LDAP equality is taken modulo documented defaults: missing == None == '
    'empty container, ephemeral_ports protocol missing == 0, service restart '
    '{limit 5, interval 60}, cpu 0% / memory 0G / disk 0G, partition _default; '
    'keyed sub-object lists (services, endpoints, ...) are compared as sets '
    'because to_entry sorts them by key',
    'update check: the stored record is what LdapObject.create leaves '
    '(server-normalised to_entry); only fields present in the update are '
    'claimed to read back as written (no claim about untouched fields); '
    'partition limits carry all four fields as the CLI writes them',
    'fields of app.json that the LDAP Application schema does not model '
    '(archive, affinity) are outside the generated domain',
]
TRUSTED = ['pbt/codecs.py (generators, server normaliser, modify-list '
           'interpreter, capture ZooKeeper stub)']
BUDGET = {'quick': 16000, 'thorough': 480000}

ATHERIS_RUNS = 2000000
ATHERIS_MAX_SECONDS = 60

_FUZZ_SUMMARY = {}


def strategy(tier):
    return codecs.any_case()


def execute(case, stats):
    codec = case['codec']
    stats.count('codec:' + codec)
    nontrivial = codecs.CHECKS[codec](case, stats)
    if nontrivial:
        stats.count('nontrivial:' + codec)
    return bool(nontrivial)


def _event(etype, **fields):
    val = {'type': etype, 'instanceid': 'proid.app-1#0000000012',
           'host': 'master1.xx.com', 'when_us': 1537776000123457,
           'style': 'post'}
    val.update(fields)
    return val


def fixed_cases():
    if os.environ.get('VERIF_NO_FIXED') == '1':
        # calibration aid: let the random search meet a defect on its own
        return []
    dnat = {'kind': 'dnat', 'chain': 'TM_PREROUTING_DNAT', 'proto': 'tcp',
            'src_ip': None, 'src_port': None, 'dst_ip': '10.0.0.1',
            'dst_port': 65535, 'new_ip': '192.168.0.2', 'new_port': 80,
            'wild': 'omit'}
    snat = dict(dnat, kind='snat', chain='TM_POSTROUTING_SNAT', wild='none',
                src_ip='192.168.0.2', src_port=80, dst_ip=None,
                dst_port=0)
    sixteen = [{'name': 'svc%02d' % i, 'command': '/bin/s %d' % i}
               for i in range(18)]
    cases = [
        # the placement restored by Master.init_schedule: why=None
        ('scheduled-why-none', {
            'codec': 'appevent', 'pipeline': True,
            'a': _event('scheduled', where='node1.xx.com', why=None),
            'b': None}),
        ('scheduled-why-server-down', {
            'codec': 'appevent', 'pipeline': True,
            'a': _event('scheduled', where='node1.xx.com',
                        why='node0.xx.com:down'),
            'b': _event('scheduled', where='node1.xx.com', why='')}),
        ('service-exited-dots', {
            'codec': 'appevent', 'pipeline': True,
            'a': _event('service_exited', uniqueid='0000aBcDeFgH1',
                        service='web.1', rc=2, signal=3),
            'b': _event('service_exited', uniqueid='0000aBcDeFgH1',
                        service='web', rc=1, signal=2)}),
        ('server-state', {
            'codec': 'srvevent', 'pipeline': True,
            'a': {'type': 'server_state', 'servername': 'node-1.xx.com',
                  'host': 'master1', 'when_us': 1537776000000001,
                  'style': 'post', 'state': 'frozen'},
            'b': None}),
        ('rule-wildcards', {'codec': 'rule', 'fs': True, 'a': dnat,
                            'b': snat}),
        ('name-dashes', {
            'codec': 'name', 'via': 'app',
            'a': {'instance': 'pro-id.web-0000000001#0000000002',
                  'uniqueid': '0000000000001'},
            'b': {'instance': 'pro-id.web#0000000001',
                  'uniqueid': '0000000000002'}}),
        ('uniqueid-top', {'codec': 'uniqueid', 'mode': 'basen',
                          'alphabet': 'b62', 'n': 2 ** 77 - 1, 'n2': 0}),
        ('zk-key-order', {'codec': 'zkpayload', 'op': 'put',
                          'a': {'b': 1, 'a': {'d': [], 'c': None}},
                          'b': {'b': 1, 'a': {'d': [], 'c': None, 'e': 0}}}),
        # masterapi.update_appmonitor(count=1) then count=1.0 (a YAML / JSON
        # client), create_bucket / update_server_features style rewrites
        ('zk-rewrite-retyped', {
            'codec': 'zkpayload', 'op': 'put-rewrite',
            'a': {'count': 1.0, 'policy': {'shared_ip': True, 'rc': [0]}},
            'hist_a': [{'count': 1, 'policy': {'shared_ip': 1, 'rc': [0]}}],
            'b': {'count': 1, 'policy': {'shared_ip': True, 'rc': [False]}},
            'hist_b': [{'count': 2},
                       {'count': 1, 'policy': {'shared_ip': True,
                                               'rc': [0.0]}}]}),
        ('app-18-services', {
            'codec': 'ldap_app', 'via': 'server',
            'a': {'cpu': '10%', 'memory': '1G', 'disk': '1G',
                  'services': sixteen, 'ephemeral_ports': {'tcp': 2},
                  'endpoints': [{'name': 'http', 'port': 80}],
                  'affinity_limits': {'rack': 1}, 'shared_ip': False},
            'b': None}),
        ('diff-app-shrink', {
            'codec': 'diff_entries', 'mode': 'app',
            'old': {'cpu': '10%', 'endpoints': [
                {'name': 'a', 'port': 1}, {'name': 'b', 'port': 2}],
                'shared_ip': True, 'args': ['x']},
            'new': {'cpu': '20%', 'endpoints': [{'name': 'b', 'port': 3}],
                    'shared_ip': True, 'args': None, 'memory': '1G'}}),
        # a command line repeats flags; order and multiplicity are the value
        ('app-repeated-args', {
            'codec': 'ldap_app', 'via': 'direct',
            'a': {'cpu': '10%', 'memory': '1G', 'disk': '1G',
                  'image': 'docker://repo/img:1.0', 'command': 'server',
                  'args': ['--env', 'A=1', '--env', 'B=2', '-v', '-v'],
                  'vring': {'cells': ['c1', 'c2'], 'rules': [
                      {'pattern': 'proid.db.*',
                       'endpoints': ['sql', 'admin', 'sql']}]}},
            'b': {'cpu': '10%', 'memory': '1G', 'disk': '1G',
                  'image': 'docker://repo/img:1.0', 'command': 'server',
                  'args': ['--env', 'A=1', 'B=2', '-v'],
                  'vring': {'cells': ['c1', 'c2'], 'rules': [
                      {'pattern': 'proid.db.*',
                       'endpoints': ['sql', 'admin']}]}}}),
        ('partition-repeated-systems', {
            'codec': 'ldap_partition', 'via': 'server',
            'a': {'obj': {'memory': '1G', 'systems': [3032, 17, 3032]},
                  'partition': 'p1', 'cell': 'c1'},
            'b': {'obj': {'memory': '1G', 'systems': [3032, 17]},
                  'partition': 'p1', 'cell': 'c1'}}),
        # REST reservation.update merges the request into the stored record
        # and calls CellAllocation.update: traits [] must clear the traits
        ('update-empty-traits', {
            'codec': 'diff_entries', 'mode': 'cellalloc',
            'old': {'cpu': '10%', 'memory': '1G', 'disk': '1G',
                    'partition': 'p1', 'traits': ['gpu'],
                    'assignments': [{'pattern': 'proid.*', 'priority': 1}]},
            'new': {'cpu': '10%', 'memory': '2G', 'disk': '1G',
                    'partition': 'p1', 'traits': [],
                    'assignments': [{'pattern': 'proid.*', 'priority': 1}]}}),
    ]
    for idx, (decoder, data) in enumerate(codecs.FUZZ_SEEDS):
        cases.append(('fuzz-seed-%d' % idx,
                      {'codec': 'fuzz', 'decoder': decoder, 'data': data}))
    if os.environ.get('VERIF_TIER') == 'thorough' and \
            os.environ.get('VERIF_ATHERIS', '1') != '0':
        cases.extend(_atheris_cases())
    return cases


def _atheris_cases():
    """Thorough tier only: coverage-guided search over the string decoders.
    atheris is used as a *generator*: anything it flags comes back as an
    ordinary 'fuzz' case, so it is judged, reported and replayed by the same
    code path as every other case (no atheris needed to replay)."""
    try:
        import atheris  # noqa: F401  pylint: disable=unused-import
    except ImportError:
        _FUZZ_SUMMARY['atheris'] = 'not installed - tier skipped'
        return []
    seed = int(os.environ.get('VERIF_SEED', '1') or '1')
    scale = float(os.environ.get('VERIF_SCALE', '1'))
    runs = max(1000, int(ATHERIS_RUNS * scale))
    outdir = tempfile.mkdtemp(prefix='c15-atheris-')
    procs = []
    for decoder in codecs.FUZZ_DECODERS:
        out = os.path.join(outdir, decoder + '.json')
        procs.append((decoder, out, subprocess.Popen(
            [sys.executable, '-W', 'ignore', '-m', 'pbt.codecs_fuzz',
             decoder, out, '-runs=%d' % runs, '-seed=%d' % seed,
             '-max_total_time=%d' % ATHERIS_MAX_SECONDS, '-max_len=160'],
            stdout=subprocess.DEVNULL, stderr=subprocess.DEVNULL)))
    cases = []
    for decoder, out, proc in procs:
        try:
            proc.wait(timeout=ATHERIS_MAX_SECONDS + 60)
        except subprocess.TimeoutExpired:
            proc.kill()
        try:
            with open(out) as fh:
                data = json.load(fh)
        except (IOError, ValueError):
            _FUZZ_SUMMARY[decoder] = 'no result (rc=%s)' % proc.returncode
            continue
        _FUZZ_SUMMARY[decoder] = {k: data[k] for k in
                                  ('execs', 'ok', 'reject', 'flagged')}
        for idx, text in enumerate(data['findings'][:5]):
            cases.append(('atheris-%s-%d' % (decoder, idx),
                          {'codec': 'fuzz', 'decoder': decoder,
                           'data': text}))
    shutil.rmtree(outdir, ignore_errors=True)
    return cases


def extra_coverage(counters):
    per_codec = {}
    for codec in codecs.CODECS:
        total = counters.get('codec:' + codec, 0)
        hit = counters.get('nontrivial:' + codec, 0)
        per_codec[codec] = {
            'cases': total,
            'nontrivial': hit,
            'pairs_distinct': counters.get(codec + ':pair-distinct', 0),
        }
    out = {'per_codec': per_codec}
    if _FUZZ_SUMMARY:
        out['atheris'] = dict(_FUZZ_SUMMARY)
    return out
