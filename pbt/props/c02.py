"""C02 - an instance that fits an eligible up server is not left pending."""

from hypothesis import strategies as st

from treadmill import scheduler

from pbt import cellsim, gen, mastersim, oracles
from pbt.run import Discard, Violation

ID = 'C02'
LEVEL = 'exploration'
RULE = ('70% E1 / 30% E2 histories driven to a quiescent state (cycle until '
        'a cycle changes nothing, <=4 tries, else the case is discarded and '
        'counted) with servers going down/up, removed and re-added (holes in '
        'children), mixed partitions/traits, several affinities, pack and '
        'spread, freeze/work/unfreeze; then one generated probe instance (half '
        'of them aimed: demand = the exact free room of one up server; a '
        'quarter in the company of two same-shape instances that cannot fit '
        'in one dimension each) is submitted and one '
        'cycle run. Violation iff the probe is pending although a leaf '
        'server fits it by ground truth (state up, partition, traits, lease '
        'before reboot, declared room in every dimension, true affinity '
        'counts below the limit at every level, a free identity) both in the '
        'quiescent state and after the cycle, and the probe is neither '
        'blacklisted nor over its utilisation cap. Secondary oracle at the '
        'quiescent state itself: no eligible pending instance fits any '
        'server. Non-trivial = probe fits, '
        'topology has >=2 servers and >=1 server that does not fit. '
        'distinct = canonical JSON.'
        ' Since rounds 5-7: histories include instances that lost their server outside a cycle and identity groups; a quarter of the E1 probes arrive behind two same-shape instances that are impossible in one dimension each; E2 probes are judged against the quiescent pre-state as well.'
        " Since round 8: where an ancestor's aggregate (free capacity, traits, labels, reboot time) looks smaller than what an up server below it offers, the probe is aimed at that server (the hint only chooses the probe, the verdict stays ground truth); rackshift macro (largest server of a rack fails, a smaller one joins, work lands on what is left)."
        ' Since round 9: retrait macro (a node comes back with other traits, same capacity); E2 probes aimed by the traits hint.'
        ' Since round 11: a quarter of the E1 probes declare limits of their own (the same values at other levels) under an affinity name other instances use.')
ASSUMPTIONS = [
    'virtual clock replaces the time module in the scheduler modules',
    'apps ahead of the probe in the queue behave as in the quiescent cycle, '
    'so a server that fits in the quiescent state is available at the '
    "probe's turn; requiring the fit after the cycle as well makes the "
    'check robust against interference it did not anticipate',
]
TRUSTED = ['pbt/cellsim.py', 'pbt/mastersim.py', 'pbt/fakezk.py',
           'pbt/oracles.py fits()']
BUDGET = {'quick': 6000, 'thorough': 160000}

PROFILE = {
    'max_pods': 3, 'max_racks': 3,
    'weights': {'app': 10, 'down': 4, 'up': 3, 'rmsrv': 3, 'readd': 3,
                'rm': 4, 'strat': 3, 'srv': 2, 'freeze': 2, 'unfreeze': 3,
                'freezework': 3, 'orphanrm': 3, 'idg': 2, 'rackshift': 3},
    'force': ['rm', 'freezework', 'orphanrm', 'rackshift'],
    'max_ops': 30,
}
E2_PROFILE = {
    'max_pods': 2, 'max_racks': 3,
    'weights': {'app': 10, 'down': 4, 'up': 3, 'rmsrv': 3, 'srv': 3,
                'rm': 4, 'reboot': 2, 'resize': 3, 'cellev': 2, 'reparent': 2,
                'retrait': 3},
    'force': ['rm', 'retrait'],
    'max_ops': 24,
}


@st.composite
def strategy_case(draw):
    case = draw(gen.tagged(PROFILE, E2_PROFILE, e2_share=3))
    if case['engine'] == 'e2':
        ngroups = len(case['groups'])
        probe = draw(gen.e2_op_strategies(case['nparts'], ngroups,
                                          E2_PROFILE)['app'])
        probe[10] = 1
    else:
        ngroups = len(case['groups'])
        probe = draw(gen.app_op(ngroups))
        probe[9] = False
    # aimed probes: the demand becomes the exact free room of one up server
    # of the quiescent state (stresses the capacity aggregates of its
    # ancestors: often that server is the only one that fits)
    fit = draw(st.one_of(st.none(), st.integers(0, 15)))
    # skewed company: two instances of the probe's shape whose demands are
    # impossible in one dimension each (and incomparable with each other)
    # are submitted just before the probe - what the cycle learns from their
    # failures must not rule out the probe
    skew = draw(st.sampled_from([False, False, False, True]))
    # a probe that declares limits of its own (the same values at other
    # levels) under an affinity name other instances use: C02 quantifies over
    # all probe instances; nothing but the probe deviates from the shared
    # limits, so the other checks' domains are untouched
    relimit = draw(st.sampled_from([None, None, None, 1, 2, 3]))
    return dict(case, probe=probe, probe_fit=fit, probe_skew=skew,
                probe_relimit=relimit)


def strategy(tier):
    return strategy_case()


def _aggregate_hint(sim, lifetime_share=False):
    """Where an ancestor's aggregate (free capacity, reboot time, traits,
    partition labels) looks smaller than what an up server below it offers,
    return ('kind', server name): the probe is then *aimed* at that server.
    The scheduler's internals are read only to choose the probe; whether the
    probe fits is still decided by ground truth recomputed from the leaves,
    so a wrong or missing hint costs coverage, never soundness."""
    try:
        servers = sim.servers()
        found = {}
        for sname in sorted(servers):
            srv = servers[sname]
            if srv.state is not scheduler.State.up or \
                    sname not in sim.decl_servers:
                continue
            node = srv.parent
            while node is not None:
                free = getattr(node, 'free_capacity', None)
                if free is not None and any(
                        free[dim] < srv.free_capacity[dim]
                        for dim in range(3)):
                    found.setdefault('capacity', sname)
                mine = srv.traits.self_traits
                if mine and not node.traits.has(mine):
                    found.setdefault('traits', sname)
                if not set(srv.labels) <= set(node.labels):
                    found.setdefault('label', sname)
                if srv.valid_until and node.valid_until < srv.valid_until:
                    found.setdefault('lifetime', sname)
                node = node.parent
        for kind in ('capacity', 'traits', 'label'):
            if kind in found:
                return (kind, found[kind])
        # the reboot-time aggregate of this snapshot's buckets is refreshed
        # on membership changes only and is not used for pruning: stale
        # values are the rule, so this hint takes a share of the aimed probes
        if 'lifetime' in found and lifetime_share:
            return ('lifetime', found['lifetime'])
    except Exception:  # pylint: disable=broad-except
        return ('error', None)
    return None


def _placement(sim):
    return {name: (app.server, app.identity)
            for name, app in sim.cell.apps.items()}


def execute(case, stats):
    e2 = case.get('engine') == 'e2'
    if e2:
        stats.count('engine:e2')
        sim = mastersim.MasterSim(case, stats=stats)
    else:
        stats.count('engine:e1')
        sim = cellsim.CellSim(case)
        sim.stats = stats
    try:
        for op in case['ops']:
            sim.apply(op)
        # drive to quiescence
        quiet = False
        prev = None
        for _ in range(4):
            if e2:
                sim.quiescent()
            else:
                sim.cycle()
            cur = _placement(sim)
            if cur == prev:
                quiet = True
                break
            prev = cur
        if not quiet:
            stats.count('not_quiescent')
            raise Discard()
        # In a quiescent cell no eligible pending instance fits either: the
        # last cycle tried each of them in (at least) the room that is there
        # now.
        now = sim.clock.peek()
        if e2:
            sim.refresh_app_decl()
        for name, app in sorted(sim.cell.apps.items()):
            if app.server is not None or app.blacklisted or \
                    getattr(app, 'final_rank', None) in (None,
                                                         oracles.UNPLACED):
                continue
            if sim.decl_apps[name].get('once') and app.evicted:
                continue
            stats.count('pending_checked_at_quiescence')
            where = oracles.fits(sim, name, now)
            if where is not None:
                raise Violation(
                    'c02.quiescent-pending-fits',
                    '%s (demand %s, affinity %s limits %s, lease %s, traits '
                    '%s, partition %s, group %s) stays pending in a '
                    'quiescent cell although %s fits it' % (
                        name, sim.decl_apps[name]['demand'],
                        sim.decl_apps[name]['aff'],
                        sim.decl_apps[name]['limits'],
                        sim.decl_apps[name]['lease'],
                        sim.decl_apps[name]['traits'],
                        sim.decl_apps[name]['label'],
                        sim.decl_apps[name]['group'], where))
        if not case.get('probe'):
            return False
        crashes = getattr(sim, 'master_crashes', 0)
        probe_op = list(case['probe'])
        hint = _aggregate_hint(
            sim, (case.get('probe_fit') or 1) % 4 == 0)
        if hint is not None:
            stats.count('aggregate_hint:' + hint[0])
        aimed = case.get('probe_fit')
        if hint is not None and hint[1] is not None:
            aimed = 0
        if aimed is not None:
            ups = sorted(
                (n, srv) for n, srv in sim.servers().items()
                if srv.state is scheduler.State.up and n in sim.decl_servers)
            if hint is not None and hint[1] is not None:
                ups = [(n, srv) for n, srv in ups if n == hint[1]]
            if ups:
                sname, srv = ups[aimed % len(ups)]
                if hint is not None and e2 and hint[0] == 'traits':
                    probe_op[8] = [
                        t for t in sim.decl_servers[sname]['trait_names']
                        if t in gen.TRAIT_NAMES]
                    probe_op[7] = None
                    probe_op[5] = None
                if hint is not None and not e2:
                    # make the probe as undemanding as the hinted server
                    # allows: default allocation of its partition, no group,
                    # the traits / lease the hint is about
                    sdecl = sim.decl_servers[sname]
                    probe_op[1] = int(sdecl['label'][4:])
                    probe_op[7] = None
                    probe_op[8] = sdecl['traits'] if hint[0] == 'traits' \
                        else 0
                    probe_op[5] = 0
                    if hint[0] == 'lifetime':
                        left = int(srv.valid_until - sim.clock.peek()) - 60
                        probe_op[5] = max(0, left)
                room = list(sim.decl_servers[sname]['cap'])
                for other in srv.apps:
                    for dim in range(3):
                        room[dim] -= sim.decl_apps[other]['demand'][dim]
                unit = getattr(sim, 'unit', 1)
                room = [max(0, int(r) // unit) if dim != 1 else max(0, int(r))
                        for dim, r in enumerate(room)]
                probe_op[3] = room
                stats.count('probe_aimed_exact_fit')
        if case.get('probe_skew') and not e2:
            for dim in (0, 1):
                big = list(probe_op)
                big[3] = list(probe_op[3])
                big[3][dim] = 10 ** 7
                sim.apply(big)
            stats.count('probe_skewed_company')
        if case.get('probe_relimit') and not e2 and len(probe_op) == 10:
            # aim: the shape (allocation, affinity name, lease, traits) of an
            # instance that is pending in the quiescent cell and declares
            # limits - whatever the cycle learns from its failure must not
            # rule out a probe whose limits sit at other levels
            pend = [n for n in sorted(sim.cell.apps)
                    if sim.cell.apps[n].server is None and
                    sim.decl_apps[n]['limits'] and
                    not sim.cell.apps[n].blacklisted]
            if pend:
                src = sim.decl_apps[pend[case['probe_relimit'] % len(pend)]]
                probe_op[1] = src['alloc']
                probe_op[2] = [a['name'] for a in sim.affs].index(src['aff'])
                probe_op[5] = src['lease']
                probe_op[7] = None
                probe_op[8] = src['inst_traits']
                probe_op[3] = [max(p, d) for p, d in
                               zip(probe_op[3], src['demand'])]
                stats.count('probe_own_limits_aimed')
            aff = sim.affs[probe_op[2] % len(sim.affs)]
            levels = list(gen.LEVELS)
            shift = case['probe_relimit']
            moved = {levels[(levels.index(level) + shift) % len(levels)]: lim
                     for level, lim in sorted(aff['limits'].items())}
            if moved and moved != aff['limits']:
                probe_op = probe_op + [moved]
                stats.count('probe_own_limits')
        names = sim.apply(probe_op)
        probe = names[0] if isinstance(names, list) else names
        if e2:
            sim.refresh_app_decl()
            # label/traits of the probe by the reference assignment matcher
        now = sim.clock.peek()
        pre = oracles.fits(sim, probe, now + 1)
        if e2:
            sim.quiescent()
            sim.refresh_app_decl()
            app = sim.cell.apps.get(probe)
            if app is None or getattr(sim, 'master_crashes', 0) != crashes:
                stats.count('probe_not_loaded')
                raise Discard()
        else:
            sim.cycle()
            app = sim.cell.apps[probe]
        servers = sim.servers()
        if app.server is not None:
            stats.count('probe_placed')
            others = [n for n in servers if n != app.server]
            nofit = [n for n in others
                     if oracles.server_ok_for(sim, n, probe) is not None or
                     servers[n].state is not scheduler.State.up or
                     any(servers[n].free_capacity[d] <
                         sim.decl_apps[probe]['demand'][d] for d in range(3))]
            if nofit:
                stats.count('class:pruning-had-something-to-prune')
            return bool(nofit)
        stats.count('probe_pending')
        if app.blacklisted or app.final_rank == oracles.UNPLACED:
            stats.count('probe_ineligible')
            return False
        post = oracles.fits(sim, probe, sim.clock.peek())
        if pre is not None and post is not None:
            raise Violation(
                'c02.pending-but-fits',
                'probe %s (demand %s, affinity %s limits %s, lease %s, '
                'traits %s, partition %s, group %s) is pending although %s '
                'fits it' % (
                    probe, sim.decl_apps[probe]['demand'],
                    sim.decl_apps[probe]['aff'],
                    sim.decl_apps[probe]['limits'],
                    sim.decl_apps[probe]['lease'],
                    sim.decl_apps[probe]['traits'],
                    sim.decl_apps[probe]['label'],
                    sim.decl_apps[probe]['group'], post))
        return False
    finally:
        if e2:
            sim.close()
