"""C08 - server failure handling: retention, frozen servers, blacklisting."""

from treadmill import scheduler

from pbt import gen, oracles
from pbt.props import _e1

ID = 'C08'
LEVEL = 'exploration'
RULE = ('70% E1 histories (pure scheduler API) and 30% E2 histories (Master + ZkBackend + masterapi on the fake ZooKeeper, incl. reload/restore/restart paths of loader.py); E1 histories of down/up/frozen transitions with clock advances '
        'drawn relative to retention timeouts (just before/after/far), '
        'retention None/0/finite, arrivals causing pressure, blacklist flips, '
        'freeze with and without an app list. Non-trivial = some instance '
        'was kept through >=1 cycle on a down server and lost that placement '
        'in a later cycle. distinct = canonical JSON.'
        ' Since rounds 6-7: the blacklist clause is judged by ground truth (the ZooKeeper blacklist node as the master last loaded it, fnmatch by the harness) with overlapping patterns added and cleared; frozen loaded server that goes down later (retention counts from the down moment); presence flips within one event.'
        ' Since round 11 (E2): ground truth of admin freezes - a server the admin froze (event processed at a quiescence since) receives no new instance, whatever state the model holds; stateburst macro.')
ASSUMPTIONS = [
    'virtual clock replaces treadmill.scheduler.time',
    'down = presence vanished (Loader.adjust_presence); the harness records '
    'the clock window of each transition itself',
]
TRUSTED = ['pbt/cellsim.py', 'pbt/mastersim.py', 'pbt/fakezk.py', 'pbt/oracles.py']
BUDGET = {'quick': 6000, 'thorough': 160000}

PROFILE = {
    'weights': {'app': 12, 'down': 4, 'up': 3, 'freeze': 3, 'unfreeze': 2,
                'bl': 3, 'adv': 4, 'adv_ret': 4, 'downseq': 5, 'freezeflip': 2, 'stalemark': 3, 'freezedown': 4},
    'force': ['down', 'adv_ret', 'downseq', 'freezedown'],
    'lease': False,
}


E2_PROFILE = {'weights': {'app': 12, 'down': 6, 'up': 3, 'state': 5, 'bl': 3, 'blchurn': 4, 'adv': 4, 'adv_ret': 4, 'downseq': 5, 'downrestart': 4, 'stateburst': 4, 'freezeflip': 2, 'stalemark': 3, 'flap': 3, 'restart': 2, 'integrity': 2, 'running': 2}, 'force': ['stateburst', 'down', 'adv_ret', 'downseq', 'downrestart', 'flap', 'blchurn'], 'lease': False}


def strategy(tier):
    return gen.tagged(PROFILE, E2_PROFILE, e2_share=3)


def watch(sim, info, flags):
    kept = flags.setdefault('kept', set())
    servers = sim.servers()
    for name, (srv, _e, _i) in info.after.items():
        bsrv = info.before[name][0]
        if bsrv is not None and bsrv == srv and srv in servers and \
                servers[srv].state is scheduler.State.down:
            kept.add((name, srv))
        elif bsrv is not None and (name, bsrv) in kept and srv != bsrv:
            flags['expired'] = True


def execute(case, stats):
    flags = _e1.run_case(case, stats, [oracles.c08], watch)
    return bool(flags.get('expired'))
