"""C17 - presence registration never touches nodes owned by another session.

Three kinds of generated case (field "kind"):

 sched    two or three real PresenceResourceService objects, one fake
          ZooKeeper session each, explored at ZooKeeper-call granularity
          (pbt/presence_sim.py). The case is a list of world events and
          scheduling decisions.
 unreg    presence.EndpointPresence.unregister_* / presence.kill_node on a
          generated node table.
 unsched  trace.app.zk._unschedule (directly and through publish) on a
          generated placement table.
"""

from hypothesis import strategies as st

from pbt import presence_sim as sim

ID = 'C17'
LEVEL = 'exploration'
RULE = (
    'kind=sched (80%): 2-3 hosts each running the real '
    'PresenceResourceService on its own fake ZooKeeper session; ops = new '
    'container of an instance (1-2 instances, overlapping endpoint subsets, '
    'identities g/0,g/1) on a host, delete request for a live container, '
    'session expiry (+restart, replay of the request dir in either order), '
    'process restart on the same session, admin kill_node, watch delivery, '
    '"step n" = advance runnable host n by ONE ZooKeeper call, "fin n" = run '
    'its callback to the end; afterwards everything is drained, older '
    'containers are retired and blocking sessions expired. Oracle on the '
    'fake\'s audit log + the harness\'s own registration table. '
    'Non-trivial = (a) a delete callback for container k and a create '
    'callback for a newer container of the same instance were both in '
    'flight on two hosts at the same time, or (b) a delete callback for '
    'container k ran on a host that had already registered a newer container '
    'of the same instance, or (c) a session expired between two ZooKeeper '
    'calls of one callback. kind=unreg (10%): non-trivial = a node in the '
    'scope of the call names another host. kind=unsched (10%): non-trivial '
    '= stale event (instance scheduled, placed on another host, not here). '
    'distinct = canonical JSON of the case.'
)
ASSUMPTIONS = [
    'fake ZooKeeper (pbt/fakezk.py) stands in for the ensemble; DataWatch is '
    'replaced by a variant whose read+arm is atomic like ZooKeeper\'s',
    'the harness plays ResourceService._run: one callback at a time per '
    'host, retry_request = a later "modified" event if the request still '
    'exists, request replay after a restart in directory order (arbitrary: '
    'both orders are generated)',
    'a session expiry kills the service process (zkutils.exit_on_lost); the '
    'in-flight callback does no further ZooKeeper call',
    'external deletion (admin blackout -> presence.kill_node) only happens '
    'while the killed host is between callbacks: the get->delete window of '
    '_safe_delete cannot be closed with ZooKeeper\'s API and is not claimed',
    'callbacks of one process are serial; thread races between kazoo\'s '
    'watch thread and the service loop are out of scope',
]
TRUSTED = ['pbt/fakezk.py', 'pbt/presence_sim.py']
BUDGET = {'quick': 48000, 'thorough': 800000}

_KINDS = (['step'] * 10 + ['fin'] * 2 + ['wat'] * 3 + ['move'] * 3 +
          ['new'] * 1 + ['del'] * 2 + ['exp'] * 2 + ['rst'] * 1 +
          ['kill'] * 1)

_IDENT = st.sampled_from([None, None, ['g', 0], ['g', 0], ['g', 1],
                          ['g', None]])
_EPS = st.lists(st.integers(0, 2), min_size=0, max_size=3, unique=True)


@st.composite
def _new(draw, ninst, nhosts):
    return ['new', draw(st.integers(0, ninst - 1)),
            draw(st.integers(0, nhosts - 1)), sorted(draw(_EPS)),
            draw(_IDENT)]


@st.composite
def sched_case(draw):
    nhosts = draw(st.sampled_from([2, 2, 3]))
    ninst = draw(st.sampled_from([1, 1, 2]))
    ops = [draw(_new(1, nhosts))]
    lead = draw(st.integers(0, 3))
    if lead:
        ops.append(['fin', 0])
    for _ in range(draw(st.integers(3, 40))):
        kind = draw(st.sampled_from(_KINDS))
        if kind == 'step':
            ops.append(['step', draw(st.integers(0, 2))])
        elif kind == 'fin':
            ops.append(['fin', draw(st.integers(0, 2))])
        elif kind == 'wat':
            ops.append(['wat', draw(st.integers(0, 3))])
        elif kind == 'new':
            ops.append(draw(_new(ninst, nhosts)))
        elif kind == 'del':
            ops.append(['del', draw(st.integers(0, ninst - 1)),
                        draw(st.sampled_from([0, 0, 0, 1, 2]))])
        elif kind == 'move':
            # the hazard: next container is requested while the clean-up of
            # the previous one is still to come
            new = draw(_new(ninst, nhosts))
            dele = ['del', new[1], 0]
            pair = [new, dele] if draw(st.booleans()) else [dele, new]
            ops.extend(pair)
            for _s in range(draw(st.integers(0, 8))):
                ops.append(['step', draw(st.integers(0, 2))])
        elif kind == 'exp':
            ops.append(['exp', draw(st.integers(0, nhosts - 1)),
                        draw(st.integers(0, 1))])
        elif kind == 'rst':
            ops.append(['rst', draw(st.integers(0, nhosts - 1)),
                        draw(st.integers(0, 1))])
        elif kind == 'kill':
            ops.append(['kill', draw(st.integers(0, nhosts - 1))])
    return {'kind': 'sched', 'hosts': nhosts, 'ops': ops}


_OWNER = st.sampled_from([None, 0, 0, 1, 2])


@st.composite
def unreg_case(draw):
    apps = []
    for _ in range(draw(st.integers(1, 2))):
        apps.append({
            'eps': sorted(draw(_EPS)),
            'ident': draw(_IDENT),
            'placed': draw(st.booleans()),
            'running': draw(_OWNER),
            'ep_owner': draw(st.lists(_OWNER, min_size=0, max_size=3)),
            'ident_owner': draw(_OWNER),
        })
    return {
        'kind': 'unreg',
        'me': draw(st.sampled_from([0, 0, 1, 2])),
        'caller': draw(st.sampled_from(['self', 'admin'])),
        'call': draw(st.sampled_from(['running', 'endpoints', 'identity',
                                      'kill'])),
        'apps': apps,
        'target': draw(st.integers(0, 1)),
    }


@st.composite
def unsched_case(draw):
    insts = []
    for _ in range(draw(st.integers(1, 3))):
        insts.append({
            'placed': draw(st.lists(st.integers(0, 2), min_size=0,
                                    max_size=2, unique=True)),
            'scheduled': draw(st.sampled_from([True, True, True, False])),
        })
    return {
        'kind': 'unsched',
        'me': draw(st.integers(0, 2)),
        'via': draw(st.sampled_from(['direct', 'publish'])),
        'event': draw(st.sampled_from(['finished', 'killed', 'aborted',
                                       'service_running', 'configured',
                                       'pending'])),
        'insts': insts,
        'target': draw(st.integers(0, 2)),
    }


def strategy(tier):
    return st.one_of([sched_case()] * 8 + [unreg_case(), unsched_case()])


def execute(case, stats):
    kind = case['kind']
    stats.count('kind_' + kind)
    if kind == 'unreg':
        return sim.run_unregister(case, stats)
    if kind == 'unsched':
        return sim.run_unschedule(case, stats)
    flags = sim.run_schedule(case, stats)
    for flag in sorted(flags):
        stats.count('class:' + flag)
    return bool(flags & {'overlap-cross', 'overlap-samehost', 'expire-mid'})


def fixed_cases():
    ep = [0]
    return [
        # B's create for container 2 runs call by call against A's delete
        # for container 1
        ('cross-host-overlap', {'kind': 'sched', 'hosts': 2, 'ops': [
            ['new', 0, 0, ep, ['g', 0]], ['fin', 0],
            ['new', 0, 1, ep, ['g', 0]], ['del', 0, 0],
            ['step', 0], ['step', 1], ['step', 0], ['step', 1], ['step', 0],
            ['step', 1], ['step', 0], ['step', 1], ['wat', 0], ['step', 0],
            ['step', 1], ['wat', 0], ['step', 1], ['step', 0]]}),
        # container 2 on the same host, then clean-up of container 1
        ('same-host-successor', {'kind': 'sched', 'hosts': 2, 'ops': [
            ['new', 0, 0, [0, 1], None], ['fin', 0],
            ['new', 0, 0, [0], None], ['fin', 0],
            ['del', 0, 0], ['fin', 0]]}),
        # session expires between two calls of a create callback
        ('expire-mid-create', {'kind': 'sched', 'hosts': 2, 'ops': [
            ['new', 0, 0, [0, 1], ['g', 1]], ['step', 0], ['step', 0],
            ['step', 0], ['exp', 0, 0], ['new', 0, 1, [0, 1], ['g', 1]],
            ['step', 1], ['step', 0], ['step', 1], ['step', 0]]}),
        # blackout: kill_node(A), instance moves to B, A cleans up late
        ('kill-then-move', {'kind': 'sched', 'hosts': 2, 'ops': [
            ['new', 0, 0, ep, None], ['fin', 0], ['kill', 0],
            ['new', 0, 1, ep, None], ['fin', 0], ['del', 0, 0],
            ['fin', 0]]}),
        # witnesses of the findings of round 1 (see notes/C17-notes.md):
        # service restart replays the request dir newest-first, the old
        # request takes /running over, its clean-up unregisters the new one
        ('finding-replay-order-takeover', {
            'kind': 'sched', 'hosts': 2, 'ops': [
                ['new', 0, 0, [0], None], ['fin', 0],
                ['new', 0, 0, [0], None], ['fin', 0],
                ['exp', 0, 1], ['fin', 0], ['fin', 0],
                ['del', 0, 0], ['fin', 0]]}),
        # same without a restart: the older request waited for host b and is
        # retried after the newer one registered
        ('finding-retry-order-takeover', {
            'kind': 'sched', 'hosts': 2, 'ops': [
                ['new', 0, 1, [], None], ['fin', 0],
                ['new', 0, 0, [], None], ['fin', 0],
                ['del', 0, 0], ['fin', 0],
                ['new', 0, 0, [], None], ['fin', 0],
                ['wat', 0], ['fin', 0],
                ['del', 0, 0], ['fin', 0]]}),
        # identity g/0 passes from instance 1 to instance 2 on the same host
        ('finding-identity-other-instance', {
            'kind': 'sched', 'hosts': 2, 'ops': [
                ['new', 0, 0, [], ['g', 0]], ['fin', 0],
                ['new', 1, 0, [], ['g', 0]], ['fin', 0],
                ['del', 0, 0], ['fin', 0]]}),
        ('unregister-foreign', {
            'kind': 'unreg', 'me': 0, 'caller': 'admin', 'call': 'kill',
            'target': 0,
            'apps': [{'eps': [0, 1], 'ident': ['g', 0], 'placed': True,
                      'running': 1, 'ep_owner': [0, 1], 'ident_owner': 1}]}),
        ('unschedule-stale', {
            'kind': 'unsched', 'me': 0, 'via': 'publish',
            'event': 'finished', 'target': 0,
            'insts': [{'placed': [1], 'scheduled': True}]}),
    ]
