"""C17 - presence registration never touches nodes owned by another session.

Three kinds of generated case (field "kind"):

 sched    two or three real PresenceResourceService objects, one fake
          ZooKeeper session each, explored at ZooKeeper-call granularity
          (pbt/presence_sim.py). The case is a list of world events and
          scheduling decisions.
 unreg    presence.EndpointPresence.unregister_* / presence.kill_node on a
          generated node table.
 unsched  trace.app.zk._unschedule (directly and through publish) on a
          generated placement table.
 register presence.EndpointPresence.register / register_identity /
          register_running / register_endpoints of a new container with its
          own session while nodes of older containers (same or other host,
          same or different content) are still owned by other sessions that
          expire at generated points of the 13 x 5 s retry loop (virtual
          clock installed as treadmill.presence.time).
"""

from hypothesis import strategies as st

from pbt import presence_sim as sim

ID = 'C17'
LEVEL = 'exploration'
RULE = (
    'kind=sched (80%): 2-3 hosts each running the real '
    'PresenceResourceService on its own fake ZooKeeper session; ops = new '
    'container of an instance (1-2 instances, overlapping endpoint subsets, '
    'identities g/0,g/1) on a host, delete request for a live container, '
    'session expiry (+restart, replay of the request dir in either order), '
    'process restart on the same session, admin kill_node, watch delivery, '
    '(every host has a real service directory: resources/<rid> -> request '
    'dir with request.yml and, once a create callback returned a result, '
    'reply.yml as ResourceService._on_created writes it; retry_request '
    'removes the reply; the files survive restarts and session expiry, so a '
    'replayed request carries its "already answered" state), '
    '"flt h m k" = one-shot ConnectionLoss on the (k+1)-th next write of '
    'host h (m=0 request lost, m=1 applied but reply lost; kazoo\'s real '
    'KazooRetry runs, its sleep is a schedule point), '
    '"step n" = advance runnable host n by ONE ZooKeeper call, "fin n" = run '
    'its callback to the end; afterwards everything is drained, older '
    'containers are retired and blocking sessions expired. Oracle on the '
    'fake\'s audit log + the harness\'s own registration table. '
    'Non-trivial = (a) a delete callback for container k and a create '
    'callback for a newer container of the same instance were both in '
    'flight on two hosts at the same time, or (b) a delete callback for '
    'container k ran on a host that had already registered a newer container '
    'of the same instance, or (c) a session expired between two ZooKeeper '
    'calls of one callback, or (d) replay-granted-foreign = a request that '
    'was answered by an earlier run of the service (reply.yml on disk) is '
    'replayed after a restart and finds one of its nodes owned by another '
    'session (counted besides: stale-watch = a DELETED event '
    'delivered after the node was registered again, fault-interleaved). kind=unreg (5%): non-trivial = a node in the '
    'scope of the call names another host. kind=unsched (5%): non-trivial '
    '= stale event (instance scheduled, placed on another host, not here). '
    'kind=register (10%): real EndpointPresence.register_* of a new '
    'container (own session) against running/endpoint/identity nodes held '
    'by 1-2 older sessions (same host = identical content, other host, same '
    'or different real_port) that expire at a generated virtual time, before '
    'a generated ZooKeeper call of the new session, or never; after a normal '
    'return every node must be the registering session\'s own ephemeral and '
    'survive the expiry of all other sessions; non-trivial = the call had to '
    'sleep at least once or met a foreign node with identical content. '
    'Host names of every kind come from 6 triples x 3 rotations (field '
    '"names"), 5 of which contain names that are proper prefixes / suffixes '
    '/ substrings of each other (node1, node10, node1-b, tm-srv, tm-srv-b, '
    'xtm-srv, srv); counters cases_hosts_*. '
    'distinct = canonical JSON of the case.'
)
ASSUMPTIONS = [
    'fake ZooKeeper (pbt/fakezk.py) stands in for the ensemble; DataWatch is '
    'replaced by a variant whose read+arm is atomic like ZooKeeper\'s',
    'the harness plays ResourceService._run: one callback at a time per '
    'host, retry_request = a later "modified" event if the request still '
    'exists, request replay after a restart in directory order (arbitrary: '
    'both orders are generated); the service directory is real (temp dir, '
    'initialize() called): resources/<rid> link, request.yml, and reply.yml '
    'written/removed where ResourceService._on_created / _update_request do; '
    'client-side updates of an existing request (put on a known id) are not '
    'generated',
    'a session expiry kills the service process (zkutils.exit_on_lost); the '
    'in-flight callback does no further ZooKeeper call',
    'external deletion (admin blackout -> presence.kill_node) only happens '
    'while the killed host is between callbacks: the get->delete window of '
    '_safe_delete cannot be closed with ZooKeeper\'s API and is not claimed',
    'callbacks of one process are serial; thread races between kazoo\'s '
    'watch thread and the service loop are out of scope',
    'ConnectionLoss is injected on create/set/delete of the service '
    'sessions only (not on reads, not on the admin session); an exception '
    'leaving a callback becomes an _error reply as in ResourceService; '
    'leaked nodes / half-done clean-ups after an unretried loss are not '
    'C17 violations',
    'kind=register: treadmill.presence.time is a virtual clock; old sessions '
    'expire only inside time.sleep or right before a ZooKeeper call of the '
    'registering session',
]
TRUSTED = ['pbt/fakezk.py', 'pbt/presence_sim.py']
BUDGET = {'quick': 48000, 'thorough': 800000}

_KINDS = (['step'] * 10 + ['fin'] * 2 + ['wat'] * 3 + ['move'] * 3 +
          ['new'] * 1 + ['del'] * 2 + ['exp'] * 2 + ['rst'] * 1 +
          ['kill'] * 1 + ['flt'] * 2)



_IDENT_TABLE = (None, None, ['g', 0], ['g', 0], ['g', 1], ['g', None])


def _dec_new(num, ninst, nhosts):
    """['new', inst, host, endpoint subset, identity] from one integer."""
    num, inst = divmod(num, ninst)
    num, host = divmod(num, nhosts)
    num, mask = divmod(num, 8)
    num, ident = divmod(num, len(_IDENT_TABLE))
    eps = [idx for idx in range(3) if mask & (1 << idx)]
    ident = _IDENT_TABLE[ident]
    return ['new', inst, host, eps, None if ident is None else list(ident)]


def _dec_op(code, ninst, nhosts):
    """One integer -> one op (a 'move' expands to new+del+steps). Few big
    draws instead of many small ones: Hypothesis spends most of the time in
    draw bookkeeping otherwise. code 0 is the simplest op (step 0)."""
    num, kind = divmod(code, len(_KINDS))
    kind = _KINDS[kind]
    if kind == 'step':
        return [['step', num % 3]]
    if kind == 'fin':
        return [['fin', num % 3]]
    if kind == 'wat':
        return [['wat', num % 4]]
    if kind == 'new':
        return [_dec_new(num, ninst, nhosts)]
    if kind == 'del':
        num, inst = divmod(num, ninst)
        return [['del', inst, (0, 0, 0, 1, 2)[num % 5]]]
    if kind == 'move':
        # the hazard: next container is requested while the clean-up of
        # the previous one is still to come
        num, order = divmod(num, 2)
        num, burst = divmod(num, 9)
        num, newnum = divmod(num, 2 * 3 * 8 * len(_IDENT_TABLE))
        new = _dec_new(newnum, ninst, nhosts)
        dele = ['del', new[1], 0]
        ops = [new, dele] if order else [dele, new]
        for _s in range(burst):
            num, who = divmod(num, 3)
            ops.append(['step', who])
        return ops
    if kind == 'exp':
        num, host = divmod(num, nhosts)
        return [['exp', host, num % 2]]
    if kind == 'rst':
        num, host = divmod(num, nhosts)
        return [['rst', host, num % 2]]
    if kind == 'flt':
        # one-shot ConnectionLoss on the (skip+1)-th next write of a host:
        # mode 0 = request lost, 1 = applied but reply lost
        num, host = divmod(num, nhosts)
        num, mode = divmod(num, 2)
        return [['flt', host, mode, (0, 0, 1, 2, 3)[num % 5]]]
    return [['kill', num % nhosts]]


def _decode_sched(raw):
    """bytes -> case: 5 header bytes, then 5 bytes (one integer) per op."""
    nhosts = (2, 2, 3)[raw[0] % 3]
    ninst = (1, 1, 2)[raw[1] % 3]
    ops = [_dec_new(raw[2] + (raw[3] << 8), 1, nhosts)]
    if raw[4] % 4:
        ops.append(['fin', 0])
    for pos in range(5, len(raw) - 4, 5):
        code = int.from_bytes(raw[pos:pos + 5], 'little')
        ops.extend(_dec_op(code, ninst, nhosts))
    return {'kind': 'sched', 'hosts': nhosts,
            'names': sim.name_set(raw[4] // 4), 'ops': ops}


def sched_case():
    # one binary draw (3..40 ops): cheapest thing Hypothesis can generate
    return st.binary(min_size=5 + 3 * 5, max_size=5 + 40 * 5).map(
        _decode_sched)


class _Reader(object):
    """Consumes the bytes of one binary draw; 0 once they run out."""

    def __init__(self, raw):
        self.raw = raw
        self.pos = 0

    def pick(self, options):
        byte = self.raw[self.pos] if self.pos < len(self.raw) else 0
        self.pos += 1
        if isinstance(options, int):
            return byte % options
        return options[byte % len(options)]

    def eps(self):
        mask = self.pick(8)
        return [idx for idx in range(3) if mask & (1 << idx)]

    def ident(self):
        ident = self.pick(_IDENT_TABLE)
        return None if ident is None else list(ident)


_OWNER = (None, 0, 0, 1, 2)


def _decode_unreg(rdr):
    apps = []
    for _ in range(1 + rdr.pick(2)):
        apps.append({
            'eps': rdr.eps(),
            'ident': rdr.ident(),
            'placed': bool(rdr.pick(2)),
            'running': rdr.pick(_OWNER),
            'ep_owner': [rdr.pick(_OWNER) for _e in range(rdr.pick(4))],
            'ident_owner': rdr.pick(_OWNER),
        })
    return {
        'kind': 'unreg',
        'me': rdr.pick((0, 0, 1, 2)),
        'caller': rdr.pick(('self', 'admin')),
        'call': rdr.pick(('running', 'endpoints', 'identity', 'kill')),
        'apps': apps,
        'target': rdr.pick(2),
        'names': sim.name_set(rdr.pick(18)),
        # ConnectionLoss on the caller's first write: [mode, which other
        # host re-registers the node before the retry]
        'fault': rdr.pick((None, None, None, [1, 0], [1, 1], [0, 0])),
    }


def _decode_unsched(rdr):
    insts = []
    for _ in range(1 + rdr.pick(3)):
        insts.append({
            'placed': rdr.pick(([], [0], [1], [2], [0, 1], [0, 2], [1, 2])),
            'scheduled': rdr.pick((True, True, True, False)),
        })
    return {
        'kind': 'unsched',
        'me': rdr.pick(3),
        'via': rdr.pick(('direct', 'publish')),
        'event': rdr.pick(('finished', 'killed', 'aborted',
                           'service_running', 'configured', 'pending')),
        'insts': insts,
        'target': rdr.pick(3),
        'names': sim.name_set(rdr.pick(18)),
    }


_OLD = (None, 0, 0, 1)
_END_T = (0, 3, 5, 10, 12, 30, 55, 60, 61, 64, 65, 66, 70, 100, 128, 130,
          135, 200)


def _decode_register(rdr):
    me = rdr.pick(3)
    old = []
    for _ in range(rdr.pick((1, 1, 2))):
        how = rdr.pick(3)
        if how == 0:
            end = None
        elif how == 1:
            end = ['t', rdr.pick(_END_T)]
        else:
            end = ['op', 1 + rdr.pick(12)]
        old.append({
            # mostly the same host: container restarted in place
            'host': rdr.pick((me, me, me, me + 1, me + 2)) % 3,
            'same_port': bool(rdr.pick(2)),
            'end': end,
        })
    return {
        'kind': 'register',
        'me': me,
        'call': rdr.pick(('register', 'register', 'seq', 'identity',
                          'running', 'endpoints')),
        'eps': rdr.eps(),
        'ident': rdr.ident(),
        'old': old,
        'held': {
            'running': rdr.pick(_OLD),
            'ident': rdr.pick(_OLD),
            'eps': [rdr.pick(_OLD) for _e in range(rdr.pick(4))],
        },
        'names': sim.name_set(rdr.pick(18)),
    }


def _decode_any(raw):
    # weights 80% sched, 5% unreg, 5% unsched, 10% register. Everything is
    # decoded from ONE binary draw: with further draws behind some values of
    # the first byte Hypothesis re-uses those prefixes and the share of sched
    # cases fell to under 50%.
    pick = raw[0] % 20
    if pick == 16:
        return _decode_unreg(_Reader(raw[1:]))
    if pick == 17:
        return _decode_unsched(_Reader(raw[1:]))
    if pick in (18, 19):
        return _decode_register(_Reader(raw[1:]))
    return _decode_sched(raw[1:])


def _any_case():
    return st.binary(min_size=1 + 5 + 3 * 5,
                     max_size=1 + 5 + 40 * 5).map(_decode_any)


def strategy(tier):
    return _any_case()


def execute(case, stats):
    kind = case['kind']
    stats.count('kind_' + kind)
    if kind == 'unreg':
        return sim.run_unregister(case, stats)
    if kind == 'unsched':
        return sim.run_unschedule(case, stats)
    if kind == 'register':
        return sim.run_register(case, stats)
    flags = sim.run_schedule(case, stats)
    for flag in sorted(flags):
        stats.count('class:' + flag)
    return bool(flags & {'overlap-cross', 'overlap-samehost', 'expire-mid',
                         'replay-granted-foreign'})


def fixed_cases():
    ep = [0]
    return [
        # B's create for container 2 runs call by call against A's delete
        # for container 1
        ('cross-host-overlap', {'kind': 'sched', 'hosts': 2, 'ops': [
            ['new', 0, 0, ep, ['g', 0]], ['fin', 0],
            ['new', 0, 1, ep, ['g', 0]], ['del', 0, 0],
            ['step', 0], ['step', 1], ['step', 0], ['step', 1], ['step', 0],
            ['step', 1], ['step', 0], ['step', 1], ['wat', 0], ['step', 0],
            ['step', 1], ['wat', 0], ['step', 1], ['step', 0]]}),
        # container 2 on the same host, then clean-up of container 1
        ('same-host-successor', {'kind': 'sched', 'hosts': 2, 'ops': [
            ['new', 0, 0, [0, 1], None], ['fin', 0],
            ['new', 0, 0, [0], None], ['fin', 0],
            ['del', 0, 0], ['fin', 0]]}),
        # session expires between two calls of a create callback
        ('expire-mid-create', {'kind': 'sched', 'hosts': 2, 'ops': [
            ['new', 0, 0, [0, 1], ['g', 1]], ['step', 0], ['step', 0],
            ['step', 0], ['exp', 0, 0], ['new', 0, 1, [0, 1], ['g', 1]],
            ['step', 1], ['step', 0], ['step', 1], ['step', 0]]}),
        # blackout: kill_node(A), instance moves to B, A cleans up late
        ('kill-then-move', {'kind': 'sched', 'hosts': 2, 'ops': [
            ['new', 0, 0, ep, None], ['fin', 0], ['kill', 0],
            ['new', 0, 1, ep, None], ['fin', 0], ['del', 0, 0],
            ['fin', 0]]}),
        # blackout of A, instance moves to B, then comes back to A whose
        # service still remembers the nodes it registered before the kill
        ('kill-move-return', {'kind': 'sched', 'hosts': 2, 'ops': [
            ['new', 0, 0, ep, None], ['fin', 0], ['kill', 0],
            ['new', 0, 1, ep, None], ['fin', 0],
            ['new', 0, 0, ep, None], ['fin', 0], ['del', 0, 0],
            ['fin', 0]]}),
        # container restarted in place (own session each, docker runtime):
        # the dead container's session still owns identical running/identity
        # nodes and expires 12 s into the retry loop
        ('register-restart-in-place', {
            'kind': 'register', 'me': 0, 'call': 'seq', 'eps': [0],
            'ident': ['g', 0],
            'old': [{'host': 0, 'same_port': False, 'end': ['t', 12]}],
            'held': {'running': 0, 'ident': 0, 'eps': [0]}}),
        # the old owner never goes away: ContainerSetupError, not success
        ('register-owner-stays', {
            'kind': 'register', 'me': 0, 'call': 'register', 'eps': [0, 1],
            'ident': None,
            'old': [{'host': 1, 'same_port': True, 'end': None}],
            'held': {'running': None, 'ident': None, 'eps': [None, 0]}}),
        # host names where one is a proper prefix of the other: blackout of
        # node1 while node10 runs the newer container of the instance
        ('kill-prefix-named-host', {
            'kind': 'sched', 'hosts': 2,
            'names': ['node1', 'node10', 'node2'], 'ops': [
                ['new', 0, 0, [0, 1], ['g', 0]], ['fin', 0],
                ['new', 0, 1, [0, 1], ['g', 0]], ['del', 0, 0], ['fin', 0],
                ['wat', 0], ['wat', 0], ['wat', 0], ['fin', 0],
                ['new', 0, 0, [0, 1], ['g', 0]], ['kill', 0], ['fin', 0]]}),
        ('unregister-prefix-named-host', {
            'kind': 'unreg', 'me': 0, 'caller': 'self', 'call': 'endpoints',
            'target': 0, 'names': ['tm-srv', 'tm-srv-b', 'xtm-srv'],
            'apps': [{'eps': [0, 1, 2], 'ident': ['g', 0], 'placed': True,
                      'running': 1, 'ep_owner': [1, 0, 2],
                      'ident_owner': 2}]}),
        # hand-over with a connection loss: A's delete of /running is applied
        # but the reply is lost; B's watch fires and B registers before A
        # does anything else (a retry of the delete would hit B's node)
        ('handover-delete-reply-lost', {'kind': 'sched', 'hosts': 2, 'ops': [
            ['new', 0, 0, [], None], ['fin', 0],
            ['new', 0, 1, [], None], ['fin', 0],
            ['del', 0, 0], ['flt', 0, 1, 0],
            ['step', 0], ['step', 0], ['step', 0], ['step', 0],
            ['wat', 0], ['wat', 0], ['fin', 1], ['fin', 0]]}),
        # same with the request lost before it reached ZooKeeper, and with the
        # loss on the create of the waiting host
        ('handover-delete-request-lost', {'kind': 'sched', 'hosts': 2, 'ops': [
            ['new', 0, 0, [0], ['g', 0]], ['fin', 0],
            ['new', 0, 1, [0], ['g', 0]], ['fin', 0],
            ['del', 0, 0], ['flt', 0, 0, 1], ['flt', 1, 1, 0],
            ['step', 0], ['step', 0], ['step', 0], ['step', 0], ['step', 0],
            ['wat', 0], ['wat', 0], ['fin', 1], ['fin', 0], ['fin', 0]]}),
        ('unregister-identity-reply-lost', {
            'kind': 'unreg', 'me': 0, 'caller': 'self', 'call': 'identity',
            'target': 0, 'fault': [1, 0],
            'apps': [{'eps': [0], 'ident': ['g', 0], 'placed': True,
                      'running': 0, 'ep_owner': [0], 'ident_owner': 0}]}),
        # stale watch: B waits for A's node; A cleans the old container up
        # and registers the next one of the same instance BEFORE B hears of
        # the deletion; B must find the node owned by A and wait again
        ('stale-watch-after-reregistration', {
            'kind': 'sched', 'hosts': 2, 'ops': [
                ['new', 0, 0, [0], ['g', 0]], ['fin', 0],
                ['new', 0, 1, [0], ['g', 0]], ['fin', 0],
                ['del', 0, 0], ['new', 0, 0, [0], ['g', 0]],
                ['fin', 0], ['fin', 0], ['wat', 0], ['wat', 0], ['wat', 0],
                ['fin', 0], ['fin', 0]]}),
        # A's session expires after its request was granted, the instance
        # moves to B, which registers the newer container; only then does A's
        # restarted service (new session) replay the request directory: the
        # old request still has its reply.yml and meets B's nodes
        ('restart-replays-granted-request', {
            'kind': 'sched', 'hosts': 2, 'ops': [
                ['new', 0, 0, [0], ['g', 0]], ['fin', 0],
                ['exp', 0, 0],
                ['new', 0, 1, [0], ['g', 0]], ['fin', 1],
                ['fin', 0], ['del', 0, 0], ['fin', 0]]}),
        # witnesses of the findings of round 1 (see notes/C17-notes.md):
        # service restart replays the request dir newest-first, the old
        # request takes /running over, its clean-up unregisters the new one
        ('finding-replay-order-takeover', {
            'kind': 'sched', 'hosts': 2, 'ops': [
                ['new', 0, 0, [0], None], ['fin', 0],
                ['new', 0, 0, [0], None], ['fin', 0],
                ['exp', 0, 1], ['fin', 0], ['fin', 0],
                ['del', 0, 0], ['fin', 0]]}),
        # same without a restart: the older request waited for host b and is
        # retried after the newer one registered
        ('finding-retry-order-takeover', {
            'kind': 'sched', 'hosts': 2, 'ops': [
                ['new', 0, 1, [], None], ['fin', 0],
                ['new', 0, 0, [], None], ['fin', 0],
                ['del', 0, 0], ['fin', 0],
                ['new', 0, 0, [], None], ['fin', 0],
                ['wat', 0], ['fin', 0],
                ['del', 0, 0], ['fin', 0]]}),
        # identity g/0 passes from instance 1 to instance 2 on the same host
        ('finding-identity-other-instance', {
            'kind': 'sched', 'hosts': 2, 'ops': [
                ['new', 0, 0, [], ['g', 0]], ['fin', 0],
                ['new', 1, 0, [], ['g', 0]], ['fin', 0],
                ['del', 0, 0], ['fin', 0]]}),
        ('unregister-foreign', {
            'kind': 'unreg', 'me': 0, 'caller': 'admin', 'call': 'kill',
            'target': 0,
            'apps': [{'eps': [0, 1], 'ident': ['g', 0], 'placed': True,
                      'running': 1, 'ep_owner': [0, 1], 'ident_owner': 1}]}),
        ('unschedule-stale', {
            'kind': 'unsched', 'me': 0, 'via': 'publish',
            'event': 'finished', 'target': 0,
            'insts': [{'placed': [1], 'scheduled': True}]}),
    ]
