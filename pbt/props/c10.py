"""C10 - a master crash at any point never leaves an instance placed twice."""

from pbt import gen, mastersim
from pbt.props import _e2
from pbt.run import Violation

ID = 'C10'
LEVEL = 'fault_enumeration'
RULE = ('E2 histories; at generated publication steps (a cycle after '
        'events, or the start-up of a restarted master) the harness '
        'snapshots the stored tree, runs the step recording its exact write '
        'sequence W, and for EVERY prefix W[:j] rebuilds snapshot+W[:j] as '
        'pure data: no instance may have placement records under two '
        'servers, and a fresh Master on that state must complete '
        'load_model()+init_schedule(), pass check_placement_integrity() and '
        'publish a placement equal to its model. Non-trivial = a recorded '
        'step with >=1 deletion and >=1 creation of placement entries (a '
        'moved or replaced instance). distinct = canonical JSON; '
        'crash_points = prefixes explored.'
        ' Since rounds 5-7: allocation changes, server deletion races and buckets leaving the cell right before a crashed publication step.'
        ' Since round 8: rack definitions deleted under their servers (a new master cannot load them) before crashed publication steps.'
        ' Since round 9: server records pointed at a rack nobody defined before crashed publication steps (badparentcrash).'
        ' Since round 11: a server deleted while no master looks, then every write prefix of the next start-up (rmsrvcrashrestart).')
ASSUMPTIONS = [
    'a crash loses nothing but the not-yet-issued writes (ZooKeeper writes '
    'are atomic and ordered per session)',
    'fake ZooKeeper stands in for the ensemble; prefix states are rebuilt '
    'by pure data replay of the recorded writes',
    'presence nodes are named by plain host name',
]
TRUSTED = ['pbt/fakezk.py', 'pbt/mastersim.py']
BUDGET = {'quick': 2000, 'thorough': 72000}

PROFILE = {
    'weights': {'crashcycle': 8, 'crashrestart': 3, 'down': 4, 'up': 2,
                'reboot': 2, 'rm': 3, 'prio': 3, 'app': 12, 'cycle': 3,
                'adv_ret': 3, 'state': 2, 'rmsrvrace': 3, 'shrink': 4, 'allocscrash': 4, 'cellrm': 2, 'cellev': 2, 'reparent': 1,
                'cellrmcrash': 3, 'rmbucket': 1, 'rmbucketcrash': 3, 'badparentcrash': 3,
                'rmsrvcrashrestart': 2},
    'force': ['crashcycle', 'down', 'rmsrvrace', 'shrink', 'allocscrash',
              'cellrmcrash', 'rmbucketcrash', 'badparentcrash',
              'rmsrvcrashrestart'],
    'after_shrink': ['crashcycle'],
    'extra_ops': ['crashcycle', 'crashrestart'],
    'pre': (3, 10),
    'max_ops': 20,
    'demand_hi': 6,
    'min_servers': 2,
    'max_parts': 2,
    'retention': [None, None, '0s', '0s', '30s', '1h'],
}


def strategy(tier):
    return gen.master_case(PROFILE)


def execute(case, stats):
    seen = {'moved': False}

    def check_prefix(sim, j, writes, what):
        dup = _e2.double_placed(sim)
        if dup:
            raise Violation(
                'c10.double-placement.%s' % what,
                'after %d of %d writes of a %s step %s has records under '
                'both %s and %s' % (j, len(writes), what, dup[0][0],
                                    dup[0][1], dup[0][2]))
        try:
            scratch = sim.scratch_master()
        except Violation:
            raise
        except Exception as err:  # pylint: disable=broad-except
            from pbt import capture
            raise Violation(
                'c10.restart-failed.%s.%s.%s' % (
                    what, type(err).__name__, capture.where(err)),
                'after %d of %d writes of a %s step a new master fails to '
                'start: %r at %s' % (j, len(writes), what, err,
                                     capture.where(err)))
        _e2.compare_published(sim, scratch, 'c10.republish.%s' % what)

    def crashcycle(sim):
        sim.drain()
        if sim.master.up_to_date:
            sim.kick()
            sim.drain()
        generation = sim.generation

        def step():
            sim.schedule(kind='crashcycle')

        writes = sim.explore_prefixes(
            step, lambda j, w: check_prefix(sim, j, w, 'cycle'))
        if sim.generation != generation:
            stats.count('steps_with_master_crash')
        classify(writes)
        stats.count('steps_cycle')

    def crashrestart(sim):
        def step():
            sim.restart_master()

        writes = sim.explore_prefixes(
            step, lambda j, w: check_prefix(sim, j, w, 'startup'))
        classify(writes)
        stats.count('steps_startup')

    def classify(writes):
        created = [w for w in writes
                   if w[0] == 'create' and w[1].startswith('/placement/')
                   and w[1].count('/') == 3]
        deleted = [w for w in writes
                   if w[0] == 'delete' and w[1].startswith('/placement/')
                   and w[1].count('/') == 3]
        stats.count('writes_recorded', len(writes))
        if created and deleted:
            seen['moved'] = True

    sim = mastersim.MasterSim(case, observers=[], stats=stats)
    sim.op_crashcycle = lambda: crashcycle(sim)
    sim.op_crashrestart = lambda: crashrestart(sim)
    sim.run()
    return seen['moved']
