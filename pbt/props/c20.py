"""C20 - the app monitor converges to the target count without overshoot.

Every case is a history run through the real ``appmonitor._run_sync`` loop
(see pbt/appmon.py); every evaluation is compared with an independent token
bucket model.
"""

from pbt import appmon

ID = 'C20'
LEVEL = 'exploration'
RULE = ('A case is a history of 3-18 (thorough: 3-40) evaluations of the real _run_sync loop '
        'over 1-3 apps (names sharing prefixes): between evaluations the '
        'virtual clock jumps 0 s - 1 day (aimed at 299/300/301 s, 1799/1800/'
        '1801 s, 3600 s), instances die (all / some), are started by someone '
        'else, monitors are written through masterapi.update_appmonitor '
        '(count 0-50, policy None/fifo/lifo/invalid, policy-only and '
        'count-only writes), '
        '/scheduled (every node) lists its children in creation (= id) order, '
        'in reverse or in one of 8 hash orders (1/4, 1/4, 1/2 of the '
        'histories; ZooKeeper promises no order), '
        'deleted and re-created, the ZooKeeper connection flaps (SUSPENDED '
        'or LOST, then CONNECTED, no node changed; ~1 round in 10), and the '
        'instance API (a counting stand-in in 2/3 of the histories) '
        'succeeds or fails with '
        'NotFound / BadRequest / Validation / TooManyRequests / AlreadyExists '
        '/ MaxRequestRetries; in 1/3 of the histories the requests go '
        'through the real api.instance + masterapi on the API server\'s own '
        'ZooKeeper session with one-shot faults on its writes (request lost '
        'before apply / reply lost after apply / session expired). Non-trivial = in the same history a bucket ran '
        'dry (budget below the number missing) and later paid for a create '
        'again, and an API failure suspended a monitor. distinct = canonical '
        'JSON of the case.')
ASSUMPTIONS = [
    'get_children of the stand-in lists children in the order the case '
    'names (creation order / reverse / crc32 hash order with a salt), the '
    'same rule for every node and every listing of a history; ZooKeeper '
    'promises no order, so every such order is one a real server may give',
    'ZooKeeper is an in-memory stand-in delivering one-shot watches '
    'synchronously; kazoo ChildrenWatch, treadmill ExistingDataWatch, '
    'masterapi and zkutils are the real code',
    'a connection flap is delivered as KazooClient does: listeners hear '
    'SUSPENDED/LOST, every client-side watcher is dropped and told NONE, '
    'listeners hear CONNECTED (NONE notifications before or after, both '
    'generated); requests never fail with ConnectionLoss; a flap changes '
    'nothing in the model (same budget, suspension, instances)',
    'virtual clock (integer microseconds, +2us per read) replaces '
    'treadmill.sproc.appmonitor.time; its sleep() applies the next round',
    'real-API histories: the HTTP hop is one attempt dispatched as '
    'rest.api.instance does, errors mapped as rest.error_handlers + '
    'restclient do; LDAP answers one fixed manifest (or not-found / a '
    'manifest the API refuses); a site plugin stub adds proid and '
    'environment; kazoo.retry.KazooRetry is the real class with a virtual '
    'default sleep; instances that appear / vanish during one request are '
    'counted on the shared tree (nothing else runs meanwhile)',
    'restclient.post is a recorder; a successful create/delete really adds/'
    'removes /scheduled nodes before the next evaluation',
    'the model follows the configuration as the administrator issued it '
    '(update_appmonitor count/policy, None = leave as configured; a delete '
    'forgets both); from ZooKeeper it only observes whether the monitor '
    'node was rewritten',
    'a write that changes the content of a monitor node starts a new budget '
    '(2*count tokens), as _monitor_data_watch does; the budget claim is per '
    'configuration',
    'token floors are compared with a +-1e-6 window (float vs exact '
    'rational arithmetic); an invalid policy may delete nothing',
    'alerts (make_alerter) are replaced by a counter; not part of the claim',
]
TRUSTED = ['pbt/appmon.py (MiniZk, Clock, Model)']
BUDGET = {'quick': 8000, 'thorough': 160000}


def strategy(tier):
    return appmon.cases(max_rounds=18 if tier == 'quick' else 40)


def execute(case, stats):
    run = appmon.Run(case, stats)
    flags = run.run()
    stats.count('rounds', run.evals)
    for flag in sorted(flags):
        stats.count('history:' + flag)
    return {'ran_dry', 'refilled', 'suspended'} <= flags


def fixed_cases():
    web = 'proid.web'
    return [
        # 1800 s * 2/3600 is 0.999... in floats: the boundary of the window
        ('half-hour-token', {
            'seq0': 0, 'init': [['mon', web, 1, None]],
            'rounds': [
                {'dt': 0, 'ops': []},
                {'dt': 0, 'ops': [['dieall', web]]},
                {'dt': 0, 'ops': [['dieall', web]]},
                {'dt': 0, 'ops': [['dieall', web]]},
                {'dt': 1799, 'ops': []},
                {'dt': 0, 'ops': []},
                {'dt': 1800, 'ops': [['dieall', web]]},
            ]}),
        # scale down, both policies, and a suspension that ends
        ('scale-down-and-suspend', {
            'seq0': 7,
            'init': [['mon', web, 2, 'lifo'], ['spawn', web, 5],
                     ['mon', 'other.db', 3, None], ['spawn', 'other.db', 6]],
            'rounds': [
                {'dt': 0, 'ops': []},
                {'dt': 0, 'ops': [['dieall', web]],
                 'api': {web: 'notfound'}},
                {'dt': 298, 'ops': []},
                {'dt': 0, 'ops': []},
                {'dt': 5, 'ops': []},
            ]}),
        # refill is capped at 2*count: spend half, idle for a day, churn
        ('idle-day-then-churn', {
            'seq0': 0, 'init': [['mon', web, 2, None], ['spawn', web, 2]],
            'rounds': [
                {'dt': 0, 'ops': []},
                {'dt': 0, 'ops': [['dieall', web]]},
                {'dt': 86400, 'ops': []},
                {'dt': 0, 'ops': [['dieall', web]]},
                {'dt': 0, 'ops': [['dieall', web]]},
                {'dt': 0, 'ops': [['dieall', web]]},
                {'dt': 0, 'ops': []},
            ]}),
        # refill rate: 4 tokens spent, 1000 s later 1.1 tokens are back
        ('refill-rate', {
            'seq0': 0, 'init': [['mon', web, 2, 'fifo']],
            'rounds': [
                {'dt': 0, 'ops': []},
                {'dt': 0, 'ops': [['dieall', web]]},
                {'dt': 0, 'ops': [['dieall', web]]},
                {'dt': 0, 'ops': [['dieall', web]]},
                {'dt': 1000, 'ops': []},
                {'dt': 0, 'ops': []},
                {'dt': 0, 'ops': [['dieall', web]]},
            ]}),
        # a connection flap does not hand out a new budget: 4 tokens spent,
        # flap (each flavour), the crash loop goes on
        ('reconnect-keeps-budget', {
            'seq0': 0,
            'init': [['mon', web, 2, None], ['mon', 'other.db', 1, 'lifo'],
                     ['spawn', 'other.db', 3]],
            'rounds': [
                {'dt': 0, 'ops': []},
                {'dt': 0, 'ops': [['dieall', web]]},
                {'dt': 0, 'ops': [['dieall', web]]},
                {'dt': 0, 'ops': [['reconnect', 'suspended', 0],
                                  ['dieall', web]]},
                {'dt': 0, 'ops': [['dieall', web],
                                  ['reconnect', 'lost', 1]]},
                {'dt': 5, 'ops': [['reconnect', 'suspended', 1],
                                  ['spawn', 'other.db', 2]]},
                {'dt': 0, 'ops': [['reconnect', 'lost', 0]]},
                {'dt': 0, 'ops': [['mon', web, 3, None]]},
                {'dt': 0, 'ops': []},
            ]}),
        # count-only updates keep the configured policy: lifo scale-downs
        # after update_appmonitor(count=N, policy=None), also after a
        # policy-only update and a re-creation
        ('count-only-update-keeps-lifo', {
            'seq0': 7,
            'init': [['mon', web, 4, 'lifo'], ['spawn', web, 6],
                     ['mon', 'other.db', 2, None], ['spawn', 'other.db', 4]],
            'rounds': [
                {'dt': 0, 'ops': []},
                {'dt': 0, 'ops': [['mon', web, 2, None],
                                  ['mon', 'other.db', None, 'lifo']]},
                {'dt': 0, 'ops': [['mon', 'other.db', 1, None]]},
                {'dt': 0, 'ops': [['delmon', web], ['spawn', web, 3]]},
                {'dt': 0, 'ops': [['mon', web, 3, None]]},
                {'dt': 0, 'ops': [['mon', web, None, 'lifo'],
                                  ['mon', web, 1, None]]},
                {'dt': 0, 'ops': []},
            ]}),
        # the monitor's requests go through the real instance API and
        # masterapi; the API server's ZooKeeper session loses replies /
        # requests / its session in the middle of a batch: never more
        # instances than asked for, the rest is asked for again
        ('real-api-zk-faults', {
            'seq0': 0, 'real_api': True,
            'init': [['mon', web, 3, None], ['mon', 'other.db', 2, 'lifo'],
                     ['spawn', 'other.db', 2]],
            'rounds': [
                {'dt': 0, 'ops': [], 'api': {web: ['fault', 'after', 0]}},
                {'dt': 0, 'ops': [], 'api': {web: ['fault', 'after', 2]}},
                {'dt': 0, 'ops': [['dieall', web]],
                 'api': {web: ['fault', 'before', 0]}},
                {'dt': 0, 'ops': [], 'api': {web: ['fault', 'expired', 2]}},
                {'dt': 0, 'ops': [['spawn', 'other.db', 2]],
                 'api': {'other.db': ['fault', 'after', 0]}},
                {'dt': 0, 'ops': [], 'api': {web: 'badrequest'}},
                {'dt': 0, 'ops': []},
                {'dt': 301, 'ops': []},
                {'dt': 0, 'ops': []},
            ]}),
        # /scheduled lists its children in no particular order (reverse and
        # hash orders): partial scale-downs still take the oldest / newest ids
        ('scale-down-unordered-listing', {
            'seq0': 7, 'listing': ['hash', 0],
            'init': [['mon', web, 4, 'fifo'], ['spawn', web, 3],
                     ['mon', 'other.db', 5, 'lifo'], ['spawn', 'other.db', 4],
                     ['spawn', web, 3], ['spawn', 'other.db', 3]],
            'rounds': [
                {'dt': 0, 'ops': []},
                {'dt': 0, 'ops': [['mon', web, 1, None],
                                  ['mon', 'other.db', 2, None]]},
                {'dt': 0, 'ops': [['spawn', web, 4]]},
                {'dt': 0, 'ops': []},
            ]}),
        ('scale-down-reverse-listing', {
            'seq0': 98, 'listing': 'reverse',
            'init': [['mon', web, 4, None], ['spawn', web, 6],
                     ['mon', 'proid.web-x', 2, 'lifo'],
                     ['spawn', 'proid.web-x', 7]],
            'rounds': [
                {'dt': 0, 'ops': []},
                {'dt': 0, 'ops': [['mon', web, 1, None]]},
                {'dt': 0, 'ops': []},
            ]}),
        # monitors deleted / re-created / rewritten while apps interleave
        ('monitor-lifecycle', {
            'seq0': 98,
            'init': [['mon', web, 3, None], ['mon', 'proid.web-x', 1, 'lifo'],
                     ['spawn', 'proid.web-x', 1], ['spawn', web, 1],
                     ['spawn', 'proid.web-x', 2], ['spawn', web, 1]],
            'rounds': [
                {'dt': 0, 'ops': []},
                {'dt': 0, 'ops': [['delmon', web], ['dieall', web]]},
                {'dt': 0, 'ops': [['spawn', 'proid.web-x', 1],
                                  ['spawn', web, 2],
                                  ['spawn', 'proid.web-x', 1]]},
                {'dt': 0, 'ops': [['mon', web, 1, None]]},
                {'dt': 0, 'ops': [['mon', web, None, 'lifo'],
                                  ['spawn', web, 2]]},
                {'dt': 0, 'ops': []},
            ]}),
    ]
