"""Shared plumbing for the checks on the E2 engine (C09-C11)."""

from treadmill import zknamespace as z

from pbt.run import Violation


def model_placement(master):
    """{(server, instance): (identity, expires)} from the model leaves."""
    res = {}
    for name, app in master.cell.apps.items():
        if app.server is not None:
            res[(app.server, name)] = (app.identity, app.placement_expiry)
    return res


def compare_published(sim, master, prefix):
    """C09 equality between stored placement entries and the model."""
    stored = sim.stored_placement()
    model = model_placement(master)
    for key in sorted(set(stored) - set(model)):
        app = master.cell.apps.get(key[1])
        raise Violation(
            prefix + '.stale-entry',
            '/placement/%s/%s is stored but the model has the instance %s' %
            (key[0], key[1],
             'unknown' if app is None else 'on %r' % app.server))
    for key in sorted(set(model) - set(stored)):
        raise Violation(
            prefix + '.missing-entry',
            'the model has %s on %s but /placement/%s/%s is not stored' %
            (key[1], key[0], key[0], key[1]))
    for key in sorted(model):
        data = stored[key][0] or {}
        ident, expires = model[key]
        if data.get('identity') != ident:
            raise Violation(
                prefix + '.identity',
                '/placement/%s/%s stores identity %r, the model holds %r' %
                (key[0], key[1], data.get('identity'), ident))
        if data.get('expires') != expires:
            raise Violation(
                prefix + '.expires',
                '/placement/%s/%s stores expires %r, the model holds %r' %
                (key[0], key[1], data.get('expires'), expires))
    return len(model)


def double_placed(sim):
    """Instances with placement records under two servers (from the tree)."""
    seen = {}
    dup = []
    for (server, inst) in sorted(sim.stored_placement()):
        if inst in seen:
            dup.append((inst, seen[inst], server))
        seen[inst] = server
    return dup
