"""C09 - the published placement equals the scheduler's model after a cycle."""

from pbt import gen, mastersim
from pbt.props import _e2

ID = 'C09'
LEVEL = 'exploration'
RULE = ('E2 histories (Master + ZkBackend + masterapi on the fake ZooKeeper) '
        'with master starts in the middle; at every event quiescence (all '
        'watch events delivered, then a cycle) and after every '
        'init_schedule() the set of /placement/<server>/<instance> nodes and '
        'their identity/expires are compared with the model leaves, both '
        'directions. Non-trivial = a history with >=3 published cycles in '
        'which entries were created, moved/deleted, and >=1 comparison saw '
        '>=2 entries. distinct = canonical JSON.'
        ' Since round 6: buckets leaving/re-entering the cell and re-parenting are part of the histories.'
        ' Since round 8: rack definitions deleted under their servers (rmbucket, no event) followed by work and a master start.'
        ' Since round 9: server records pointed at a rack nobody defined (badparent).')
ASSUMPTIONS = [
    'fake ZooKeeper (pbt/fakezk.py) stands in for the ensemble',
    'presence nodes are named by plain host name (loader/master convention '
    'of this snapshot)',
    'watch delivery: FIFO triggers, one outstanding event, snapshot taken '
    'when the callback runs (kazoo ChildrenWatch + Master.watch)',
    'an unhandled exception in the master = process exit + new master',
]
TRUSTED = ['pbt/fakezk.py', 'pbt/mastersim.py']
BUDGET = {'quick': 4000, 'thorough': 128000}

PROFILE = {
    'weights': {'badparent': 3, 'rmbucket': 1, 'rmbucketrestart': 2, 'restart': 3, 'reboot': 3, 'down': 3, 'up': 3, 'resize': 2,
                'idg': 2, 'rm': 3, 'renew': 6, 'adv': 3, 'prio': 4, 'rmlast': 3, 'downseq': 4, 'freezeflip': 1, 'rmsrvrace': 3, 'priorm': 3,
                'shrink': 2, 'cellrm': 3, 'cellev': 2, 'reparent': 2},
    'force': ['restart', 'downseq', 'rmsrvrace', 'priorm', 'badparent'],
    'min_servers': 2,
}


def strategy(tier):
    return gen.master_case(PROFILE)


def execute(case, stats):
    seen = {'checks': 0, 'max_entries': 0, 'moved': False, 'lost': False,
            'placed': False}

    def at_quiescence(sim):
        entries = _e2.compare_published(sim, sim.master, 'c09')
        seen['checks'] += 1
        seen['max_entries'] = max(seen['max_entries'], entries)
        stats.count('comparisons')
        stats.count('entries_compared', entries)

    def on_restart(sim, phase):
        if phase == 'scheduled':
            at_quiescence(sim)
            stats.count('comparisons_after_init_schedule')

    def observe(sim, info):
        for name, (srv, _e, _i) in info.after.items():
            bsrv = info.before.get(name, (None,))[0]
            if bsrv != srv:
                if bsrv is None:
                    seen['placed'] = True
                elif srv is None:
                    seen['lost'] = True
                else:
                    seen['moved'] = True

    sim = mastersim.MasterSim.__new__(mastersim.MasterSim)
    sim.quiescent_checks_init = [at_quiescence]
    sim.on_restart_init = [on_restart]
    sim.__init__(case, observers=[observe], stats=stats)
    sim.strict_integrity = True
    sim.run()
    return (seen['checks'] >= 3 and seen['max_entries'] >= 2 and
            seen['placed'] and (seen['moved'] or seen['lost']))
