"""C14 - node VIPs, firewall rule files and endpoint specs have exactly one
owner; garbage collection reclaims exactly the entries whose owner is gone."""

import functools
import os

from hypothesis import strategies as st

from pbt import netfs

ID = 'C14'
LEVEL = 'exploration'
RULE = ('A case is a JSON list of ops tagged mgr=own|vip|rule|ep|svc (first '
        'element: cfg with the CIDRs and the directory layout: plain dirs / '
        'symlinks to relocated dirs / dirs below symlinked parents) run '
        'against real VipMgr (one or two '
        'pools sharing a directory), RuleMgr, EndpointsMgr and '
        'NetworkResourceService objects on one temp directory; 2-5 owners '
        '(container dirs apps/<unique name>, two of them the same instance) '
        'appear, disappear, come back under the same name or as a new '
        'generation; in a quarter of the cases the owners are named by '
        'process id instead (numeric names of different lengths, some of '
        'them suffixes / prefixes of others, no service ops) and '
        'unlink_all is issued by the exact appname or by the glob <app>#* '
        'that matches the specs of several owners; ops are drawn in build/contend/kill/reap phases (one or '
        'two rounds, <=35 ops quick, <=51 thorough), one manager in focus '
        'or all mixed; after every op all four directories are compared '
        'with dict models key->owner. Schedules: a gcrace op runs one '
        'garbage_collect of VipMgr / RuleMgr / endpoints with every '
        'file-system call of the pass as a preemption point and, after the '
        'k-th one, a burst of another process (container start: directory '
        '+ its entries; container finish: releases + directory removed; or '
        '1-3 arbitrary owner/create/release ops); entries that were free or '
        'held by an existing owner in every state the pass could observe '
        'must survive, entries of an owner gone in all of them must go. '
        'Non-trivial = the case had (a) '
        'contention: a create/alloc refused because another owner holds the '
        'key or other owners exhaust the pool, or a release attempted by a '
        'non-owner on a held key, AND (b) a garbage collection (or service '
        'restart+synchronize) run while that component held entries of both '
        'live and dead owners. distinct = canonical JSON of the op list.')
ASSUMPTIONS = [
    'owner = container directory <apps>/<unique name>; VipMgr/RuleMgr are '
    'given the unique name, EndpointsMgr.create_spec the full path and '
    'appname=<app>#<id>, unlink_all the unique name (runtime/linux/_run.py, '
    '_finish.py conventions)',
    'naming=pid: an owner is a directory <owners dir>/<pid> (the node '
    'services own endpoint specs through /proc/<pid>); the managers treat '
    'owner names as opaque, so the same appnames and op pool are used; only '
    'containers talk to the network service (svc ops are not drawn)',
    'netdev and the ipset calls of iptables inside services.network_service '
    'are in-memory fakes whose state survives service restarts; the real '
    '_device_info runs on top of the fake netdev',
    'the service is driven as ResourceService._run/_on_created/_on_deleted '
    'drive it: initialize, drop dangling requests, on_create_request for '
    'every valid request (exceptions become error replies), synchronize; '
    'then on_create_request/on_delete_request per request event',
    'in half of the cases the service network is shrunk through the class '
    'attribute _TM_CIDR (subclass) so that exhaustion is reachable',
    'a request keeps its environment for its lifetime; a unique name '
    'denotes one container (a directory that comes back under the same '
    'name is the same owner)',
    'a same-owner repeat of create_spec / picked alloc may either succeed '
    'or raise (both leave the directory unchanged)',
    'the root and each configured directory (apps, rules, endpoints, vips, '
    'service dir) is drawn as a plain directory, a symlink to a relocated '
    'directory 1-3 levels down another tree, or a directory below a '
    'symlinked parent; managers get the unresolved path; ownership is '
    'judged by the harness ledger (model + which owner dirs exist) and a '
    'link must name, by its physical location, the owner file of its owner',
    'collection passes and container start / finish are separate processes '
    'on a node; a pass is preempted at most twice (gcrace; C14_RACE2=0 allows '
    'one only), only between two file-system calls it makes, '
    'and the other process then runs a whole burst of manager calls (each '
    'manager call is one symlink/readlink+unlink, not interleaved further)',
    'per-case directories live on /dev/shm when writable (else the default '
    'temp dir, VERIF_TMP overrides) and are removed when the case ends',
]
TRUSTED = ['pbt/netfs.py (models, FakeNetdev, FakeIptables)']
BUDGET = {'quick': 8000, 'thorough': 320000}

CIDRS = ['10.10.0.0/30', '10.10.0.0/29', '10.10.0.0/29', '10.10.0.0/28']
CIDR2 = [None, None, '10.10.1.0/30']
SVC_CIDRS = [None, None, '192.168.0.0/30', '192.168.0.0/29']
OLD = st.sampled_from([False, False, False, False, True])
# how each configured directory is built (netfs.Engine._place): a plain
# directory, a symlink to a relocated directory d levels down another tree,
# or a directory below a symlinked parent
PLACE = st.sampled_from(['real', 'real', 'real', 'link1', 'link2', 'link3',
                         'under1', 'under2'])
LAYOUT = st.one_of(
    st.just(dict(netfs.DEFAULT_LAYOUT)),          # the default install
    st.fixed_dictionaries({
        'root': st.sampled_from(['real', 'real', 'link']),
        'apps': PLACE, 'rules': PLACE, 'endpoints': PLACE, 'vips': PLACE,
        'svc': PLACE,
    }),
    st.fixed_dictionaries({
        'root': st.sampled_from(['real', 'real', 'link']),
        'apps': PLACE, 'rules': PLACE, 'endpoints': PLACE, 'vips': PLACE,
        'svc': PLACE,
    }).map(dict),
)


def _fixed(mgr, op, **fields):
    body = {'mgr': st.just(mgr), 'op': st.just(op)}
    body.update(fields)
    return st.fixed_dictionaries(body)


def _picked(cidr, cidr2):
    """Literal addresses worth asking for: network, hosts, broadcast of the
    case's own CIDR (mostly), the other pool, the outside."""
    import ipaddress
    net = ipaddress.IPv4Network(cidr)
    hosts = [str(host) for host in net.hosts()]
    inside = [str(net.network_address), hosts[0], hosts[1], hosts[-1],
              str(net.broadcast_address)]
    outside = [str(net.broadcast_address + 1), '10.10.9.9', '192.168.0.1']
    if cidr2:
        outside.append(str(ipaddress.IPv4Network(cidr2).network_address + 1))
    return inside + inside + outside


# op classes used to shape the phases of a case
MAKE, DROP, REAP, UP, DOWN, MISC = 'make', 'drop', 'reap', 'up', 'down', 'misc'

# phase -> multiplier per op class (x/2)
PHASES = {
    'build': {MAKE: 8, DROP: 1, REAP: 0, UP: 1, DOWN: 0, MISC: 0},
    'contend': {MAKE: 2, DROP: 3, REAP: 1, UP: 2, DOWN: 1, MISC: 2},
    'kill': {MAKE: 0, DROP: 1, REAP: 0, UP: 1, DOWN: 8, MISC: 0},
    'reap': {MAKE: 1, DROP: 1, REAP: 8, UP: 1, DOWN: 1, MISC: 1},
}
# phase -> (min, max) number of ops, for one round / for each of two rounds
SIZES = {
    1: (('build', 5, 9), ('contend', 4, 10), ('kill', 1, 2), ('reap', 2, 5)),
    2: (('build', 3, 5), ('contend', 2, 5), ('kill', 1, 2), ('reap', 1, 3)),
}


ERRNO = st.sampled_from(['EACCES', 'EIO', 'ESTALE'])
# unlink_all by the exact appname (_finish.py) or by the glob <app>#* (the
# node services' form), which matches the specs of several owners
PAT = st.sampled_from([False, False, True])
# how owners are named: container unique names, or process ids (node services
# own their specs through <proc>/<pid>): numeric names of different lengths,
# some of them suffixes / prefixes of others (netfs.PID_BASE)
NAMING = st.sampled_from(['uniq', 'uniq', 'uniq', 'pid'])


# Up to two preemptions per collection pass: the second burst comes a few
# calls after the first one.  That reaches the stat-then-unlink window of the
# three garbage collectors (an entry released after the listing and granted
# to another live owner between the pass's stat() and its unlink() used to be
# reclaimed: repo fix recorded in known_findings.json, notes/C14-notes.md).
# C14_RACE2=0 goes back to one preemption per pass.
RACE2 = os.environ.get('C14_RACE2', '1') != '0'


def _race(mgr, point, burst, **fields):
    if RACE2:
        fields['more'] = st.lists(
            st.fixed_dictionaries({'k': st.integers(1, 3), 'do': burst}),
            max_size=1)
    return _fixed(mgr, 'gcrace', k=point, do=burst, **fields)


def _burst(up, down, make_new, others):
    """What another process does between two system calls of a collection
    pass: a container starts (its directory appears, then it takes its
    entries), a container finishes (releases, then its directory goes), or
    up to three arbitrary owner / create / release ops."""
    start = st.tuples(up, st.lists(make_new, min_size=1, max_size=2)).map(
        lambda pair: [pair[0]] + pair[1])
    finish = st.tuples(st.lists(others, max_size=2), down).map(
        lambda pair: pair[0] + [pair[1]])
    free = st.lists(st.one_of(up, down, make_new, others, others),
                    min_size=1, max_size=3)
    return st.sampled_from([0, 0, 1, 2, 2]).flatmap(
        lambda pos: (start, finish, free)[pos])


def _op_strategies(nown, picked):
    slot = st.integers(0, nown - 1)
    pool = st.integers(0, 1)
    sel = st.integers(0, 5)
    who = st.sampled_from(['holder', 'o'])
    new = st.just(True)
    # preemption point of a collection pass: after its k-th system call
    point = st.sampled_from([1, 1, 1, 2, 2, 2, 3, 3, 4, 4, 5, 6, 8])
    b_up = st.one_of(
        _fixed('own', 'up', o=slot, fresh=st.booleans(), sel=sel),
        _fixed('own', 'up', o=slot, fresh=st.booleans()))
    b_down = _fixed('own', 'down', o=slot, veth=st.booleans(), sel=sel)
    own = [
        (1, UP, _fixed('own', 'up', o=slot, fresh=st.booleans())),
        (1, UP, _fixed('own', 'up', o=slot, fresh=st.booleans(), sel=sel)),
        (1, DOWN, _fixed('own', 'down', o=slot, veth=st.booleans())),
        (5, DOWN, _fixed('own', 'down', o=slot, veth=st.booleans(),
                         sel=sel)),
    ]
    vip = [
        (6, MAKE, _fixed('vip', 'alloc', p=pool, o=slot, old=OLD,
                         ip=st.none())),
        (3, MAKE, _fixed('vip', 'alloc', p=pool, o=slot, old=OLD,
                         ip=st.sampled_from(picked))),
        (3, DROP, _fixed('vip', 'alloc', p=pool, o=slot, old=OLD,
                         ip=st.sampled_from(picked), sel=sel)),
        (5, DROP, _fixed('vip', 'free', p=pool, o=slot, old=OLD, sel=sel,
                         who=who)),
        (1, DROP, _fixed('vip', 'free', p=pool, o=slot, old=OLD,
                         ip=st.sampled_from(picked))),
        (4, REAP, _fixed('vip', 'gc', p=pool)),
        (1, MISC, _fixed('vip', 'init', p=pool)),
        # os.stat fails once during the next gc/init pass of this manager
        (2, REAP, _fixed('vip', 'fsfault', errno=ERRNO, k=st.integers(1, 4))),
        # a collection pass with another process running in the middle of it
        (3, REAP, _race('vip', point, p=pool, burst=_burst(
            b_up, b_down,
            _fixed('vip', 'alloc', p=pool, o=slot, new=new, ip=st.none()),
            st.one_of(
                _fixed('vip', 'alloc', p=pool, o=slot, old=OLD,
                       ip=st.none()),
                _fixed('vip', 'alloc', p=pool, o=slot, old=OLD,
                       ip=st.sampled_from(picked), sel=sel),
                _fixed('vip', 'free', p=pool, o=slot, old=OLD, sel=sel,
                       who=who),
                _fixed('vip', 'free', p=pool, o=slot, old=OLD, sel=sel,
                       who=who))))),
    ]
    ridx = st.integers(0, len(netfs.RULES) - 1)
    rule = [
        (7, MAKE, _fixed('rule', 'create', o=slot, old=OLD, r=ridx)),
        (3, DROP, _fixed('rule', 'create', o=slot, old=OLD, r=ridx,
                         sel=sel)),
        (5, DROP, _fixed('rule', 'unlink', o=slot, old=OLD, sel=sel,
                         who=who)),
        (1, DROP, _fixed('rule', 'unlink', o=slot, old=OLD, r=ridx)),
        (4, REAP, _fixed('rule', 'gc')),
        (1, MISC, _fixed('rule', 'init')),
        (2, REAP, _fixed('rule', 'fsfault', errno=ERRNO,
                         k=st.integers(1, 4))),
        (3, REAP, _race('rule', point, burst=_burst(
            b_up, b_down,
            _fixed('rule', 'create', o=slot, new=new, r=ridx),
            st.one_of(
                _fixed('rule', 'create', o=slot, old=OLD, r=ridx),
                _fixed('rule', 'create', o=slot, old=OLD, r=ridx, sel=sel),
                _fixed('rule', 'unlink', o=slot, old=OLD, sel=sel, who=who),
                _fixed('rule', 'unlink', o=slot, old=OLD, sel=sel,
                       who=who))))),
    ]
    sidx = st.integers(0, len(netfs.SPECS) - 1)
    form = st.sampled_from(['path', 'base'])
    ept = [
        (7, MAKE, _fixed('ep', 'create', o=slot, old=OLD, s=sidx)),
        (3, DROP, _fixed('ep', 'create', o=slot, old=OLD, s=sidx, sel=sel)),
        (3, DROP, _fixed('ep', 'unlink', o=slot, old=OLD, s=sidx, sel=sel,
                         who=who, form=form)),
        (1, DROP, _fixed('ep', 'unlink', o=slot, old=OLD, s=sidx,
                         form=form)),
        (3, DROP, _fixed(
            'ep', 'unlink_all', o=slot, old=OLD, s=sidx, sel=sel, who=who,
            pat=PAT,
            proto=st.sampled_from([None, None, None, 'tcp', 'udp']),
            endpoint=st.sampled_from([None, None, None, 'http', 'ssh']))),
        (4, REAP, _fixed('ep', 'gc')),
        (1, MISC, _fixed('ep', 'init')),
        (2, REAP, _fixed('ep', 'fsfault', errno=ERRNO, k=st.integers(1, 4))),
        (3, REAP, _race('ep', point, burst=_burst(
            b_up, b_down,
            _fixed('ep', 'create', o=slot, new=new, s=sidx),
            st.one_of(
                _fixed('ep', 'create', o=slot, old=OLD, s=sidx),
                _fixed('ep', 'create', o=slot, old=OLD, s=sidx, sel=sel),
                _fixed('ep', 'unlink', o=slot, old=OLD, s=sidx, sel=sel,
                       who=who, form=form),
                _fixed('ep', 'unlink_all', o=slot, old=OLD, s=sidx, sel=sel,
                       who=who, pat=PAT, proto=st.none(),
                       endpoint=st.none()))))),
    ]
    svc = [
        (6, MAKE, _fixed('svc', 'req', o=slot, sel=sel)),
        (3, MAKE, _fixed('svc', 'req', o=slot)),
        (3, DROP, _fixed('svc', 'del', o=slot, old=OLD, sel=sel)),
        (1, DROP, _fixed('svc', 'del', o=slot, old=OLD)),
        (1, MISC, _fixed('svc', 'stop')),
        (3, REAP, _fixed('svc', 'restart')),
        # one-shot command failure inside the handlers of the next svc op
        (2, REAP, _fixed('svc', 'fault', on=st.sampled_from(['ipt', 'net']),
                         k=st.integers(1, 4))),
        (2, DROP, _fixed('svc', 'fault', on=st.sampled_from(['ipt', 'net']),
                         k=st.integers(1, 7))),
        # os.stat fails once in the vips GC of the next start-up
        (1, REAP, _fixed('svc', 'fsfault', errno=ERRNO, k=st.integers(1, 3))),
    ]
    return {'own': own, 'vip': vip, 'rule': rule, 'ep': ept, 'svc': svc}


@functools.lru_cache(maxsize=None)
def _phase_ops(nown, cidr, cidr2, focus, phase, min_size, max_size,
               svc=True):
    """List strategy of one phase (cached: building strategies per case
    costs more than running the case).  svc=False: the owners are not
    containers, no network service requests."""
    groups = _op_strategies(nown, tuple(_picked(cidr, cidr2)))
    if not svc:
        del groups['svc']
    return st.lists(_weighted(groups, focus, phase), min_size=min_size,
                    max_size=max_size)


def _weighted(groups, focus, phase):
    """Weighted choice of one op: the focused manager gets about half of
    the ops, owner ups/downs a fifth, and the phase shifts the balance
    between making, releasing and collecting entries."""
    strats = []
    picks = []
    for mgr, ops in groups.items():
        if mgr == 'own' or mgr == focus:
            mult = 6
        elif focus == 'mix':
            mult = 2
        else:
            mult = 1
        for weight, klass, strat in ops:
            times = weight * mult * PHASES[phase][klass]
            if mult == 1:
                times = min(times, 6)
            picks.extend([len(strats)] * times)
            strats.append(strat)
    # (one_of drops duplicate alternatives, hence the index draw)
    return st.sampled_from(picks).flatmap(lambda pos: strats[pos])


@st.composite
def case_strategy(draw, extra):
    nown = draw(st.sampled_from([2, 3, 3, 4, 4, 5, 5]))
    naming = draw(NAMING)
    if naming == 'uniq':
        focus = draw(st.sampled_from(
            ['vip', 'rule', 'ep', 'svc', 'mix', 'mix']))
    else:
        focus = draw(st.sampled_from(['ep', 'ep', 'vip', 'rule', 'mix']))
    cfg = {
        'mgr': 'cfg',
        'cidr': draw(st.sampled_from(CIDRS)),
        'cidr2': draw(st.sampled_from(CIDR2)),
        'svc_cidr': draw(st.sampled_from(SVC_CIDRS)),
        'layout': draw(LAYOUT),
    }
    if naming != 'uniq':
        cfg['naming'] = naming      # (absent = container names: old replays)
    # owners that exist from the start (explicit ops, the case stays a list)
    ops = [
        {'mgr': 'own', 'op': 'up', 'o': slot, 'fresh': True}
        for slot in range(nown) if draw(st.integers(0, 3)) > 0
    ]
    rounds = draw(st.integers(1, 2))
    for _round in range(rounds):
        for phase, lo, hi in SIZES[rounds]:
            ops.extend(draw(_phase_ops(
                nown, cfg['cidr'], cfg['cidr2'], focus, phase,
                lo, hi + extra, naming == 'uniq')))
    return [cfg] + ops


def strategy(tier):
    # quick: at most 5 + 30 ops, thorough: at most 5 + 46
    return case_strategy(0 if tier == 'quick' else 2)


def execute(case, stats):
    flags = netfs.run_case(case, stats)
    if flags.get('contended'):
        stats.count('cases.contended')
    if flags.get('gc_mixed'):
        stats.count('cases.gc-mixed')
    if flags.get('fault'):
        stats.count('cases.fault-fired')
    if flags.get('fsfault'):
        stats.count('cases.fs-fault-fired')
    if flags.get('race'):
        stats.count('cases.race-fired')
    return bool(flags.get('contended') and flags.get('gc_mixed'))


def _up(slot):
    return {'mgr': 'own', 'op': 'up', 'o': slot, 'fresh': True}


def fixed_cases():
    if os.environ.get('C14_NO_FIXED'):
        return []       # sensitivity runs: the random search on its own
    vip = [
        {'mgr': 'cfg', 'cidr': '10.10.0.0/30', 'cidr2': '10.10.1.0/30',
         'svc_cidr': None},
        _up(0), _up(1),
        {'mgr': 'vip', 'op': 'alloc', 'p': 0, 'o': 0, 'ip': None},
        {'mgr': 'vip', 'op': 'alloc', 'p': 0, 'o': 1, 'ip': None},
        {'mgr': 'vip', 'op': 'alloc', 'p': 0, 'o': 0, 'ip': None},
        {'mgr': 'vip', 'op': 'alloc', 'p': 0, 'o': 1, 'ip': '10.10.0.1'},
        {'mgr': 'vip', 'op': 'alloc', 'p': 0, 'o': 1, 'ip': '10.10.0.3'},
        {'mgr': 'vip', 'op': 'alloc', 'p': 0, 'o': 1, 'ip': '10.10.1.1'},
        {'mgr': 'vip', 'op': 'alloc', 'p': 1, 'o': 1, 'ip': '10.10.1.1'},
        {'mgr': 'vip', 'op': 'free', 'p': 0, 'o': 1, 'sel': 0},
        {'mgr': 'own', 'op': 'down', 'o': 0, 'veth': False},
        {'mgr': 'vip', 'op': 'gc', 'p': 1},
        {'mgr': 'vip', 'op': 'init', 'p': 0},
    ]
    rule = [
        _up(0), _up(1),
        {'mgr': 'rule', 'op': 'create', 'o': 0, 'r': 0},
        {'mgr': 'rule', 'op': 'create', 'o': 1, 'r': 0},
        {'mgr': 'rule', 'op': 'create', 'o': 0, 'r': 0},
        {'mgr': 'rule', 'op': 'create', 'o': 1, 'r': 1},
        {'mgr': 'rule', 'op': 'create', 'o': 1, 'r': 3},
        {'mgr': 'rule', 'op': 'create', 'o': 1, 'r': 4},
        {'mgr': 'rule', 'op': 'create', 'o': 1, 'r': 5},
        {'mgr': 'rule', 'op': 'unlink', 'o': 1, 'r': 0},
        {'mgr': 'own', 'op': 'down', 'o': 0, 'veth': False},
        {'mgr': 'rule', 'op': 'gc'},
        {'mgr': 'rule', 'op': 'unlink', 'o': 1, 'r': 1},
    ]
    ept = [
        _up(0), _up(1), _up(2),
        {'mgr': 'ep', 'op': 'create', 'o': 0, 's': 0},
        {'mgr': 'ep', 'op': 'create', 'o': 1, 's': 0},
        {'mgr': 'ep', 'op': 'create', 'o': 1, 's': 1},
        {'mgr': 'ep', 'op': 'create', 'o': 2, 's': 0},
        {'mgr': 'ep', 'op': 'unlink', 'o': 1, 's': 0, 'form': 'base'},
        {'mgr': 'ep', 'op': 'unlink_all', 'o': 1, 'proto': None,
         'endpoint': None},
        {'mgr': 'own', 'op': 'down', 'o': 0, 'veth': False},
        {'mgr': 'ep', 'op': 'gc'},
        {'mgr': 'ep', 'op': 'unlink', 'o': 2, 's': 0, 'form': 'path'},
    ]
    # owners named by process id, all alive, every one of them releasing by
    # the exact appname and by the <app>#* pattern, then registering again
    pids = [{'mgr': 'cfg', 'cidr': '10.10.0.0/29', 'cidr2': None,
             'svc_cidr': None, 'naming': 'pid'}]
    pids += [_up(slot) for slot in range(5)]
    for _round in (0, 1):
        for slot in range(5):
            pids += [
                {'mgr': 'ep', 'op': 'create', 'o': slot, 's': slot % 4},
                {'mgr': 'vip', 'op': 'alloc', 'p': 0, 'o': slot, 'ip': None},
                {'mgr': 'rule', 'op': 'create', 'o': slot, 'r': slot},
            ]
        for slot in (3, 4, 0, 1, 2):
            pids += [
                {'mgr': 'ep', 'op': 'unlink_all', 'o': slot, 'proto': None,
                 'endpoint': None, 'pat': bool(_round)},
                {'mgr': 'ep', 'op': 'create', 'o': slot, 's': slot % 4},
                {'mgr': 'vip', 'op': 'free', 'p': 0, 'o': slot, 'sel': slot},
                {'mgr': 'rule', 'op': 'unlink', 'o': slot, 'r': (slot + 1) % 5},
            ]
    pids += [
        {'mgr': 'own', 'op': 'down', 'o': 1, 'veth': False},
        {'mgr': 'ep', 'op': 'gc'}, {'mgr': 'rule', 'op': 'gc'},
        {'mgr': 'vip', 'op': 'gc', 'p': 0},
        _up(1),
        {'mgr': 'ep', 'op': 'create', 'o': 1, 's': 1},
        {'mgr': 'ep', 'op': 'unlink_all', 'o': 0, 'proto': 'tcp',
         'endpoint': None, 'pat': True},
    ]
    svc = [
        {'mgr': 'cfg', 'cidr': '10.10.0.0/29', 'cidr2': None,
         'svc_cidr': '192.168.0.0/30'},
        _up(0), _up(2), _up(3),
        {'mgr': 'svc', 'op': 'req', 'o': 0},
        {'mgr': 'svc', 'op': 'req', 'o': 2},
        {'mgr': 'svc', 'op': 'req', 'o': 3},
        {'mgr': 'svc', 'op': 'req', 'o': 0},
        {'mgr': 'own', 'op': 'down', 'o': 2, 'veth': True},
        {'mgr': 'svc', 'op': 'restart'},
        {'mgr': 'svc', 'op': 'req', 'o': 3},
        {'mgr': 'svc', 'op': 'del', 'o': 0},
        {'mgr': 'svc', 'op': 'stop'},
        {'mgr': 'svc', 'op': 'del', 'o': 3},
        {'mgr': 'svc', 'op': 'restart'},
    ]
    svc_big = [
        _up(0), _up(1), _up(3),
        {'mgr': 'svc', 'op': 'req', 'o': 0},
        {'mgr': 'svc', 'op': 'req', 'o': 1},
        {'mgr': 'svc', 'op': 'req', 'o': 3},
        {'mgr': 'own', 'op': 'down', 'o': 1, 'veth': False},
        {'mgr': 'svc', 'op': 'restart'},
        {'mgr': 'svc', 'op': 'req', 'o': 0},
    ]
    svc_fault = [
        _up(0), _up(2), _up(3),
        {'mgr': 'svc', 'op': 'req', 'o': 0},
        {'mgr': 'svc', 'op': 'req', 'o': 2},
        {'mgr': 'svc', 'op': 'fault', 'on': 'ipt', 'k': 1},
        {'mgr': 'svc', 'op': 'req', 'o': 3},
        {'mgr': 'svc', 'op': 'req', 'o': 3},
        {'mgr': 'svc', 'op': 'fault', 'on': 'net', 'k': 3},
        {'mgr': 'svc', 'op': 'req', 'o': 3},
        {'mgr': 'svc', 'op': 'fault', 'on': 'ipt', 'k': 2},
        {'mgr': 'svc', 'op': 'restart'},
        {'mgr': 'svc', 'op': 'req', 'o': 3},
        {'mgr': 'svc', 'op': 'req', 'o': 2},
        {'mgr': 'svc', 'op': 'fault', 'on': 'ipt', 'k': 1},
        {'mgr': 'svc', 'op': 'del', 'o': 0},
        {'mgr': 'svc', 'op': 'fault', 'on': 'net', 'k': 1},
        {'mgr': 'svc', 'op': 'del', 'o': 2},
        {'mgr': 'svc', 'op': 'restart'},
    ]
    fsf = [
        {'mgr': 'cfg', 'cidr': '10.10.0.0/29', 'cidr2': None,
         'svc_cidr': None},
        _up(0), _up(1), _up(2),
    ]
    for slot in (0, 1, 2, 3):
        fsf.append({'mgr': 'vip', 'op': 'alloc', 'p': 0, 'o': slot,
                    'ip': None})
        fsf.append({'mgr': 'rule', 'op': 'create', 'o': slot, 'r': slot})
        fsf.append({'mgr': 'ep', 'op': 'create', 'o': slot, 's': slot})
    for mgr in ('vip', 'rule', 'ep'):
        for k in (1, 2, 3, 4):
            fsf.append({'mgr': mgr, 'op': 'fsfault', 'errno': 'EACCES',
                        'k': k})
            fsf.append({'mgr': mgr, 'op': 'gc', 'p': 0})
    fsf += [
        {'mgr': 'vip', 'op': 'alloc', 'p': 0, 'o': 2, 'ip': None},
        {'mgr': 'svc', 'op': 'req', 'o': 0},
        {'mgr': 'svc', 'op': 'req', 'o': 1},
        {'mgr': 'svc', 'op': 'fsfault', 'errno': 'EIO', 'k': 1},
        {'mgr': 'svc', 'op': 'restart'},
        {'mgr': 'svc', 'op': 'restart'},
        {'mgr': 'svc', 'op': 'req', 'o': 2},
    ]
    # a container starts / finishes at each of the first preemption points
    # of a collection pass of each manager (owners 0 and 2 live with
    # entries, owner 1 gone with entries; slot 3 is the one coming and going)
    race = [
        {'mgr': 'cfg', 'cidr': '10.10.0.0/28', 'cidr2': None,
         'svc_cidr': None},
        _up(0), _up(1), _up(2),
    ]
    for slot in (0, 1, 2):
        race += [
            {'mgr': 'vip', 'op': 'alloc', 'p': 0, 'o': slot, 'ip': None},
            {'mgr': 'rule', 'op': 'create', 'o': slot, 'r': slot},
            {'mgr': 'ep', 'op': 'create', 'o': slot, 's': slot},
        ]
    race.append({'mgr': 'own', 'op': 'down', 'o': 1, 'veth': False})
    for k in (1, 2, 3, 4, 5):
        starts = {
            'vip': {'mgr': 'vip', 'op': 'alloc', 'p': 0, 'o': 3, 'new': True,
                    'ip': None},
            'rule': {'mgr': 'rule', 'op': 'create', 'o': 3, 'new': True,
                     'r': 3 + k % 3},
            'ep': {'mgr': 'ep', 'op': 'create', 'o': 3, 'new': True,
                   's': k % 4},
        }
        ends = {
            'vip': {'mgr': 'vip', 'op': 'free', 'p': 0, 'o': 3, 'sel': 5,
                    'who': 'holder'},
            'rule': {'mgr': 'rule', 'op': 'unlink', 'o': 3, 'r': 3 + k % 3},
            'ep': {'mgr': 'ep', 'op': 'unlink_all', 'o': 3, 'proto': None,
                   'endpoint': None},
        }
        for mgr in ('vip', 'rule', 'ep'):
            race += [
                {'mgr': mgr, 'op': 'gcrace', 'p': 0, 'k': k, 'do': [
                    {'mgr': 'own', 'op': 'up', 'o': 3, 'fresh': True},
                    starts[mgr], dict(starts[mgr])]},
                {'mgr': mgr, 'op': 'gcrace', 'p': 0, 'k': k, 'do': [
                    ends[mgr],
                    {'mgr': 'own', 'op': 'down', 'o': 3, 'veth': False}]},
                {'mgr': mgr, 'op': 'gc', 'p': 0},
            ]
    relocated = []
    layouts = [
        {'root': 'real', 'apps': 'real', 'rules': 'link2',
         'endpoints': 'under1', 'vips': 'link1', 'svc': 'under2'},
        {'root': 'link', 'apps': 'link3', 'rules': 'under2',
         'endpoints': 'link2', 'vips': 'under1', 'svc': 'link1'},
        {'root': 'link', 'apps': 'under1', 'rules': 'real',
         'endpoints': 'real', 'vips': 'real', 'svc': 'real'},
    ]
    for pos, layout in enumerate(layouts):
        ops = [
            {'mgr': 'cfg', 'cidr': '10.10.0.0/30', 'cidr2': None,
             'svc_cidr': '192.168.0.0/30', 'layout': layout},
            _up(0), _up(1), _up(2),
        ]
        for slot in (0, 1, 2):
            ops += [
                {'mgr': 'vip', 'op': 'alloc', 'p': 0, 'o': slot, 'ip': None},
                {'mgr': 'rule', 'op': 'create', 'o': slot, 'r': slot},
                {'mgr': 'rule', 'op': 'create', 'o': slot, 'r': 0},
                {'mgr': 'ep', 'op': 'create', 'o': slot, 's': 0},
                {'mgr': 'svc', 'op': 'req', 'o': slot},
            ]
        ops += [
            {'mgr': 'vip', 'op': 'gc', 'p': 0}, {'mgr': 'rule', 'op': 'gc'},
            {'mgr': 'ep', 'op': 'gc'}, {'mgr': 'svc', 'op': 'restart'},
            {'mgr': 'own', 'op': 'down', 'o': 1, 'veth': False},
            {'mgr': 'vip', 'op': 'gc', 'p': 0}, {'mgr': 'rule', 'op': 'gc'},
            {'mgr': 'ep', 'op': 'gc'}, {'mgr': 'svc', 'op': 'restart'},
            {'mgr': 'rule', 'op': 'create', 'o': 2, 'r': 1},
            {'mgr': 'rule', 'op': 'unlink', 'o': 0, 'r': 0},
            {'mgr': 'ep', 'op': 'unlink_all', 'o': 0, 'proto': None,
             'endpoint': None},
            {'mgr': 'vip', 'op': 'free', 'p': 0, 'o': 0, 'sel': 0,
             'who': 'holder'},
            {'mgr': 'svc', 'op': 'del', 'o': 0},
        ]
        relocated.append(('aimed-layout-%d' % pos, ops))
    return relocated + [
        ('aimed-gc-race', race), ('aimed-svc-faults', svc_fault), ('aimed-fs-faults', fsf),
            ('aimed-pid-owners', pids),
            ('aimed-vip', vip), ('aimed-rule', rule), ('aimed-ep', ept),
            ('aimed-svc-small', svc), ('aimed-svc-16', svc_big)]
