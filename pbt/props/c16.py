"""C16 - what a container start registers on the host, its finish removes.

Case = {hosts, busy, plugin, foreign, containers:[spec...], ops:[[kind, idx(, k)]...]}
ops:  ['start', i]      the real _run.run() for container i (resource requests,
                        port allocation, save_app, _unshare_network, root dir,
                        image, presence, exec) - as `treadmill sproc run`
      ['fstart', i, k]  the same with the k-th boundary call of the start
      ['fstart', i, L, n]   (or the n-th boundary call labelled L) failing;
      [..., 'native']   run() then fails or copes as the code decides; a failed
                        run flags the container aborted, like sproc run (reason
                        = what LinuxRuntime._run / sproc run derive from the
                        exception type), and the container is finished later
                        like any other.  With a trailing 'native' the call
                        fails with the exception type the real call raises
                        (a resource service wait(): ResourceServiceTimeoutError
                        -> aborted with reason 'timeout') instead of EIO.
      ['finish', i]     the real _finish.finish() for container i (first or
                        repeated), as the cleanup service runs it through
                        RuntimeBase.finish: when finish() returns, the
                        container directory is removed, and later finish ops
                        of i find nothing to run on (Cleanup.invoke)
      ['finish', i, 'keep']  the same, but the runtime is killed between
                        _finish() and the rmtree: finish stays repeatable
      ['crash', i, k]   a finish of container i killed at its k-th boundary
                        call (k beyond the number of calls = finish() returned
                        and the directory is kept)
      ['ffinish', i, k]     a finish of i whose k-th boundary call (or the
      ['ffinish', i, L, n]  n-th one labelled L) fails once with OSError(EIO).
                        If finish() raises, the container is not finished and
                        finish is simply run again by a later op, as the
                        cleanup service does; if it returns normally the
                        container counts as finished (directory removed).
Boundary call = any call that leaves the process (resource service clients,
ipset, rule / endpoint spec files, resolver, sockets, newnet, mounts, image,
hooks, exec ...; the full list is in pbt/netsim.py).

Oracle (state based, shares no code with _finish): the observable host state is
  rules/ (name -> link target), endpoints/ (name -> link target), every ip set
  (members) and the firewall plugin's per-container exception rules.
  owned[i] = what start i added (difference of two snapshots), whether the
  start succeeded or failed half way.  After a
  completed finish of i the state must equal the state before that finish minus
  owned[i]; after a repeated finish it must be unchanged; a killed finish, or
  one that raised on an injected fault, may leave some of owned[i] behind but
  must not touch anything else, and the next finish that returns normally must
  have removed the rest.  A finish() that returns normally - with or without a
  fault injected - has removed everything; one that raises without an injected
  fault is a violation.  At every point the state must equal
  seeded foreign entries + the union of owned[j] over the containers j not yet
  completely finished.  Ports: per protocol all real ports of a container are
  distinct, lie in the range of its environment class, avoid busy ports and the
  ports held by running containers; 'port 0' endpoints get port == real_port;
  the two ranges are disjoint.
"""

from hypothesis import strategies as st

from pbt import netsim
from pbt.run import Violation

ID = 'C16'
LEVEL = 'exploration'
RULE = ('Histories of start / start with a fault injected at a generated '
        'boundary call / finish / repeated finish / killed finish / finish '
        'with a one-shot error at a generated boundary call (retried by a '
        'later finish when it raised; container directory removed when it '
        'returned), driven '
        'through the real run() and finish() entry points, over '
        '1-4 containers with generated manifests (0-6 endpoints tcp/udp, '
        'infra type, port 0, explicit ports equal to allocatable ports, '
        'ephemeral tcp/udp counts, 0-3 passthrough hosts through a fake '
        'resolver where hosts share IPs, vring cells, shared/private '
        'network, dev/qa/uat/prod), containers sharing an app name, vips '
        'reused after release, generated busy ports and sampling order, '
        'foreign entries seeded in rules/, endpoints/ and the ip sets. '
        'Non-trivial = a private-network container with >=1 tcp endpoint, '
        '>=1 udp endpoint, >=1 infra endpoint, ephemeral ports, passthrough '
        'and vring cells completed its finish while another private-network '
        'container was registered on the host, and every entry it owned was '
        'checked; or a container whose start failed after it had registered '
        'at least one entry completed its finish. distinct = canonical JSON '
        'of the case.')
ASSUMPTIONS = [
    'manifest fields are normalised as appcfg.manifest.load and '
    'add_linux_system_services leave them (endpoint name/port/type/proto, '
    'ephemeral_ports tcp+udp ints, passthrough list, vring with cells)',
    'host names resolve to the same address at start and at finish (the '
    'code carries a FIXME for the other case; not part of the statement)',
    'a container has exited (its sockets are closed) before it is finished; '
    'containers are started and finished one at a time on a node',
    'a failed run() is followed by what sproc run does (aborted flag with the '
    'reason LinuxRuntime._run / sproc run derive from the exception, process '
    'exit) and later by finish; an injected fault makes one boundary call '
    'raise, before it has any effect, OSError(EIO) or (native) the error of '
    'the real call - ResourceServiceTimeoutError for a resource service '
    'wait(); a run killed and restarted by the supervisor is not modelled',
    'the firewall plugin is outside the repository and both call sites '
    'swallow its errors on purpose: a fault at plugin.cleanup is modelled as '
    'the plugin failing after it dropped its own rules',
    'a shared-network container never gets through run() in this snapshot '
    '(run waits for a network resource it did not request; the client times '
    'out): such a start is an aborted start without saved state',
    'resource services (cgroup, localdisk, network, presence) are not part of '
    'the statement: a vip still allocated after the finish of a container '
    'whose start failed before its state was saved is counted, not reported',
    'the network resource client returns nothing after delete, as '
    'ResourceServiceClient.get does once the request directory is renamed',
    'ipset add/del carry -exist (idempotent), as iptables.add_ip_set does',
    'ranges of the port policy are read from treadmill.iptables (the '
    'constants the node firewall is generated from); prod class = prod, uat',
]
TRUSTED = ['pbt/netsim.py (fake socket/sampler/resolver/ipset/resource '
           'service clients/firewall plugin/newnet/mount/image/hooks/exec)']
BUDGET = {'quick': 6000, 'thorough': 128000}

APP_NAMES = ['proid.web#0000000001', 'proid.web#0000000002',
             'other-p.db.main#0000000001']
EP_NAMES = ['http', 'ssh', 'ws', 'ep_4-x']
HOSTS = ['hosta', 'hostb', 'hostc', '10.9.9.9']
HOST_IPS = ['10.1.1.1', '10.1.1.2', '10.1.1.3']
ENVS = ['dev', 'qa', 'uat', 'prod']
# offsets into a port range, from the low end (>= 0) or the high end (< 0)
OFFSETS = [0, 1, 2, 3, 4, -1, -2]
FOREIGN_OFFSET = 7
FOREIGN_OWNER = 'zz.other-0000000009-00000foreign1'
FOREIGN_VIP = '192.168.9.9'
# boundary labels of the start path worth aiming a fault at (see netsim)
FINISH_FAULT_LABELS = ['resolve', 'rules.unlink_rule', 'rules.unlink_rule',
                       'ipset.rm', 'ipset.rm', 'endpoints.unlink_all',
                       'conntrack.flush', 'net.get', 'net.delete',
                       'presence.delete', 'localdisk.delete', 'cgroup.delete',
                       'plugin.cleanup', 'rrd.flush', 'archive_logs',
                       'apphook.cleanup', 'trace.post']
FAULT_LABELS = ['net.put', 'net.wait', 'socket.bind', 'rules.create_rule',
                'rules.create_rule', 'endpoints.create_spec', 'ipset.add',
                'ipset.add', 'resolve', 'plugin.apply', 'newnet', 'newnet',
                'fs.mount', 'image.unpack', 'presence.put', 'exec_pid1',
                'cgroup.wait', 'localdisk.wait', 'presence.wait',
                'presence.wait']


def _fault_of(oper):
    """['x', i, k] | ['x', i, L, n], each optionally followed by 'native'."""
    rest = list(oper[2:])
    fault = {}
    if rest and rest[-1] == 'native':
        rest.pop()
        fault['native'] = True
    if len(rest) == 1:
        fault['at'] = rest[0]
    else:
        fault['label'], fault['nth'] = rest
    return fault


# --------------------------------------------------------------------------
# generator
# --------------------------------------------------------------------------

def _explicit_ports():
    (plo, phi), (nlo, nhi) = ((32768, 40959), (40960, 49151))
    return [0, 0, 0, 8000, 8000, 8001, 22, plo, plo + 1, phi, nlo, nlo + 1,
            nhi]


@st.composite
def endpoint(draw, proto=None, infra=None):
    is_infra = draw(st.booleans()) if infra is None else infra
    return {
        'name': draw(st.sampled_from(EP_NAMES)),
        'port': draw(st.sampled_from(_explicit_ports())),
        'proto': proto or draw(st.sampled_from(['tcp', 'tcp', 'udp'])),
        'type': 'infra' if is_infra else None,
    }


@st.composite
def container_spec(draw, idx):
    rich = draw(st.integers(0, 9)) < 6
    eps = []
    if rich:
        eps.append(draw(endpoint(proto='tcp', infra=draw(st.booleans()))))
        eps.append(draw(endpoint(proto='udp', infra=draw(st.booleans()))))
        if not any(ep['type'] for ep in eps):
            eps.append(draw(endpoint(infra=True)))
        extra = draw(st.integers(0, 6 - len(eps)))
    else:
        extra = draw(st.integers(0, 4))
    for _ in range(extra):
        eps.append(draw(endpoint()))
    eps = draw(st.permutations(eps)) if len(eps) > 1 else eps

    eph_t = draw(st.integers(1 if rich else 0, 3))
    eph_u = draw(st.integers(0, 2))
    hosts = draw(st.lists(st.sampled_from(HOSTS),
                          min_size=1 if rich else 0, max_size=3))
    cells = draw(st.lists(st.sampled_from(['cell-a', 'cell-b']),
                          min_size=1 if rich else 0, max_size=2,
                          unique=True))
    vring = {'cells': cells}
    if cells and eps:
        vring['rules'] = [{'pattern': 'proid.*',
                           'endpoints': [eps[0]['name']]}]
    shared = (not rich) and draw(st.integers(0, 5)) == 0
    order = {
        proto: draw(st.lists(st.sampled_from(OFFSETS), max_size=6))
        for proto in ('tcp', 'udp')
    }
    return {
        'name': draw(st.sampled_from(APP_NAMES[:2] * 2 + APP_NAMES[2:])),
        'uid': 'c%dx%d' % (idx, draw(st.integers(0, 1))),
        'env': draw(st.sampled_from(ENVS)),
        'shared_network': shared,
        'shared_ip': draw(st.booleans()),
        'endpoints': list(eps),
        'eph': {'tcp': eph_t, 'udp': eph_u},
        'passthrough': hosts,
        'vring': vring,
        'order': order,
    }


@st.composite
def history(draw):
    ncont = draw(st.sampled_from([1, 2, 2, 3, 3, 4, 4]))
    containers = [draw(container_spec(idx)) for idx in range(ncont)]
    pending = list(range(ncont))
    live = []       # started, no plain finish issued yet
    done = []       # finished, container directory kept (finish repeatable)
    gone = []       # finished, container directory removed by the runtime
    ops = []
    for _ in range(draw(st.integers(ncont, 3 * ncont + 3))):
        kinds = []
        if pending:
            kinds += ['start'] * 3 + ['fstart']
        if live:
            kinds += ['finish'] * 3 + ['crash'] * 2 + ['ffinish'] * 2
        if done:
            kinds += ['refinish'] * 2
        if gone and not done:
            kinds += ['refinish']
        if not kinds:
            break
        kind = draw(st.sampled_from(kinds))
        if kind == 'start':
            idx = pending.pop(0)
            live.append(idx)
            ops.append(['start', idx])
        elif kind == 'fstart':
            idx = pending.pop(0)
            live.append(idx)
            if draw(st.booleans()):
                oper = ['fstart', idx, draw(st.integers(1, 70))]
                native = draw(st.integers(0, 3)) == 0
            else:
                label = draw(st.sampled_from(FAULT_LABELS))
                oper = ['fstart', idx, label,
                        draw(st.sampled_from([1, 1, 2, 3]))]
                # the way a resource service wait() really fails
                native = label.endswith('.wait') and \
                    draw(st.integers(0, 3)) > 0
            ops.append(oper + (['native'] if native else []))
        elif kind == 'finish':
            idx = draw(st.sampled_from(live))
            live.remove(idx)
            if draw(st.booleans()):
                # the runtime is killed between _finish() and the removal
                # of the container directory: finish stays repeatable
                done.append(idx)
                ops.append(['finish', idx, 'keep'])
            else:
                gone.append(idx)
                ops.append(['finish', idx])
        elif kind == 'crash':
            idx = draw(st.sampled_from(live))
            ops.append(['crash', idx, draw(st.integers(1, 34))])
        elif kind == 'ffinish':
            # whether this finish raises or returns is the code's decision;
            # the container stays in `live`, so more finishes follow.
            idx = draw(st.sampled_from(live))
            if draw(st.booleans()):
                ops.append(['ffinish', idx, draw(st.integers(1, 34))])
            else:
                ops.append(['ffinish', idx,
                            draw(st.sampled_from(FINISH_FAULT_LABELS)),
                            draw(st.sampled_from([1, 1, 2, 3]))])
        else:
            idx = draw(st.sampled_from(done or gone))
            ops.append(['finish', idx] +
                       (['keep'] if draw(st.booleans()) else []))
    if draw(st.integers(0, 3)) > 0:
        for idx in draw(st.permutations(live)) if live else []:
            ops.append(['finish', idx])
    table = {host: draw(st.sampled_from(HOST_IPS)) for host in HOSTS[:3]}
    busy = draw(st.lists(
        st.tuples(st.sampled_from(['tcp', 'udp']),
                  st.sampled_from(['prod', 'nonprod']),
                  st.sampled_from(OFFSETS)).map(list),
        max_size=6))
    return {
        'hosts': table,
        'busy': busy,
        'plugin': draw(st.sampled_from(['ok', 'ok', 'missing'])),
        'foreign': {
            'rules': draw(st.booleans()),
            'same_app_spec': draw(st.booleans()),
            'ipset': draw(st.booleans()),
        },
        'containers': containers,
        'ops': ops,
    }


def strategy(tier):  # pylint: disable=unused-argument
    return history()


# --------------------------------------------------------------------------
# oracle helpers
# --------------------------------------------------------------------------

def _flatten(snap):
    return {(area, key): val
            for area, entries in snap.items() for key, val in entries.items()}


def _diff(before, after):
    """(added, removed, changed) between two flattened snapshots."""
    added = {k: v for k, v in after.items() if k not in before}
    removed = {k: v for k, v in before.items() if k not in after}
    changed = {k: (before[k], after[k]) for k in before
               if k in after and before[k] != after[k]}
    return added, removed, changed


def _kind(entry, cont):
    """Names the sort of registration an entry is, for bucketing."""
    area, key = entry
    eph = {'tcp': set(), 'udp': set()}
    ep_infra = set()
    if cont is not None and cont.manifest is not None:
        for proto in ('tcp', 'udp'):
            ports = cont.manifest['ephemeral_ports'][proto]
            if isinstance(ports, list):
                eph[proto] = {str(p) for p in ports}
        ep_infra = {(ep['proto'], str(ep['port']))
                    for ep in cont.manifest['endpoints']
                    if ep.get('type') == 'infra'}
    if area == 'rules':
        parts = key.split(':')
        if len(parts) > 2 and parts[1] == 'passthrough':
            return 'rule.passthrough'
        if len(parts) > 2 and parts[1] == 'snat':
            return 'rule.snat'
        if len(parts) > 2 and parts[1] == 'dnat':
            proto = parts[2]
            dst_port = parts[6].split('-')[0] if len(parts) > 6 else '?'
            if dst_port in eph.get(proto, ()):
                return 'rule.dnat-ephemeral-%s' % proto
            return 'rule.dnat-endpoint'
        return 'rule.other'
    if area == 'endpoints':
        return 'endpoint-spec'
    if area == 'plugin':
        return 'plugin-exception-rules'
    if area.startswith('ipset:'):
        set_name = area[len('ipset:'):]
        if set_name == 'tm:vring-containers':
            return 'ipset.vring'
        if set_name == 'tm:container-infra-services':
            try:
                proto, port = key.split(',')[1].split(':')
            except (IndexError, ValueError):
                return 'ipset.infra'
            if (proto, port) in ep_infra:
                return 'ipset.infra-endpoint'
            if port in eph.get(proto, ()):
                return 'ipset.infra-ephemeral-%s' % proto
            return 'ipset.infra'
        return 'ipset.' + set_name
    return area


def _fmt(entries, limit=4):
    items = sorted('%s/%s' % key for key in entries)
    more = '' if len(items) <= limit else ' (+%d more)' % (len(items) - limit)
    return ', '.join(items[:limit]) + more


def _seed_foreign(world, case, ranges):
    """Entries owned by a container that is not part of the history."""
    (plo, _phi), (nlo, _nhi) = ranges
    flags = case['foreign']
    busy = set()
    if flags['rules']:
        for low in (plo, nlo):
            port = low + FOREIGN_OFFSET
            busy.add(('tcp', port))
            world.seed_rule(
                'TM_PREROUTING_DNAT:dnat:tcp:*:*:%s:%d-%s:8000' % (
                    netsim.EXT_IP, port, FOREIGN_VIP), FOREIGN_OWNER)
            world.seed_rule(
                'TM_POSTROUTING_SNAT:snat:tcp:%s:8000:*:*-%s:%d' % (
                    FOREIGN_VIP, netsim.EXT_IP, port), FOREIGN_OWNER)
        for ipaddr in HOST_IPS[:2]:
            world.seed_rule('TM_PASSTHROUGH:passthrough:%s-%s' % (
                ipaddr, FOREIGN_VIP), FOREIGN_OWNER)
        world.seed_endpoint('zz.other#0000000009~tcp~http~%d~1~8000' % (
            plo + FOREIGN_OFFSET), FOREIGN_OWNER)
    if flags['same_app_spec']:
        # an older instance of the same app, still to be cleaned by its own
        # finish: same app name, different unique id.
        for name in APP_NAMES[:2]:
            owner = '%s-%s' % (name.replace('#', '-'), '000000old0001')
            port = nlo + FOREIGN_OFFSET + 1
            busy.add(('tcp', port))
            world.seed_endpoint('%s~tcp~http~%d~1~8000' % (name, port),
                                owner)
    if flags['ipset']:
        world.seed_ipset('tm:vring-containers', FOREIGN_VIP)
        world.seed_ipset('tm:container-infra-services',
                         '%s,tcp:22' % FOREIGN_VIP)
        world.seed_ipset('tm:container-infra-services',
                         '%s,udp:%d' % (FOREIGN_VIP, nlo))
    return busy


def _check_ports(cont, world, ranges, busy, held_before, stats):
    """allocate_network_ports: distinct, in range, not busy, port 0 rule."""
    (plo, phi), (nlo, nhi) = ranges
    if not (phi < nlo or nhi < plo) or plo > phi or nlo > nhi:
        raise Violation('c16.ports.ranges-overlap',
                        'prod %r and non-prod %r port ranges are not disjoint'
                        % ((plo, phi), (nlo, nhi)))
    low, high = (plo, phi) if netsim.env_class(cont.spec['env']) == 'prod' \
        else (nlo, nhi)
    manifest = cont.manifest
    spec = cont.spec
    for proto in ('tcp', 'udp'):
        eps = [ep for ep in manifest['endpoints'] if ep['proto'] == proto]
        eph = manifest['ephemeral_ports'][proto]
        want_eph = spec['eph'][proto]
        if not isinstance(eph, list) or len(eph) != want_eph:
            raise Violation('c16.ports.count',
                            '%s: asked %d ephemeral %s ports, got %r' % (
                                cont.unique_name, want_eph, proto, eph))
        ports = [ep.get('real_port') for ep in eps] + list(eph)
        if any(not isinstance(p, int) for p in ports):
            raise Violation('c16.ports.count',
                            '%s: %s endpoint without real port: %r' % (
                                cont.unique_name, proto, ports))
        if len(set(ports)) != len(ports):
            raise Violation('c16.ports.duplicate',
                            '%s: %s ports %r are not distinct' % (
                                cont.unique_name, proto, ports))
        for port in ports:
            if not low <= port <= high:
                raise Violation(
                    'c16.ports.out-of-range',
                    '%s: environment %s got %s port %d outside %d-%d' % (
                        cont.unique_name, spec['env'], proto, port, low, high))
            if (proto, port) in busy:
                raise Violation('c16.ports.busy-reused',
                                '%s: %s port %d is held by another process' % (
                                    cont.unique_name, proto, port))
            if (proto, port) in held_before:
                raise Violation('c16.ports.shared-with-running-container',
                                '%s: %s port %d is held by container %s' % (
                                    cont.unique_name, proto, port,
                                    held_before[(proto, port)]))
        stats.count('ports_checked', len(ports))
        orig = [ep for ep in spec['endpoints']
                if ep.get('proto', 'tcp') == proto]
        for before, after in zip(orig, eps):
            want = after['real_port'] if before['port'] == 0 \
                else before['port']
            if after['port'] != want:
                raise Violation('c16.ports.port-zero',
                                '%s: endpoint %r port %r, expected %r' % (
                                    cont.unique_name, before, after['port'],
                                    want))
    bound = [s for s in cont.sockets if s.addr is not None]
    got = sorted((s.proto, s.addr[1]) for s in bound)
    exp = sorted(
        [(ep['proto'], ep['real_port']) for ep in manifest['endpoints']] +
        [(proto, p) for proto in ('tcp', 'udp')
         for p in manifest['ephemeral_ports'][proto]])
    if got != exp:
        raise Violation('c16.ports.sockets-mismatch',
                        '%s: returned sockets %r, manifest ports %r' % (
                            cont.unique_name, got, exp))


def _is_rich(spec):
    eps = spec['endpoints']
    return (not spec['shared_network'] and
            any(ep['proto'] == 'tcp' for ep in eps) and
            any(ep['proto'] == 'udp' for ep in eps) and
            any(ep['type'] == 'infra' for ep in eps) and
            spec['eph']['tcp'] + spec['eph']['udp'] > 0 and
            len(spec['passthrough']) > 0 and
            len(spec['vring']['cells']) > 0)


# --------------------------------------------------------------------------
# execution
# --------------------------------------------------------------------------

def execute(case, stats):  # pylint: disable=too-many-locals,too-many-branches
    ranges = netsim.port_ranges()
    (plo, _phi), (nlo, _nhi) = ranges
    busy = set()
    for proto, klass, off in case['busy']:
        low, high = ranges[0] if klass == 'prod' else ranges[1]
        busy.add((proto, low + off if off >= 0 else high + 1 + off))

    nontrivial = False
    rich_with_neighbour = False
    failed_start_cleaned = False
    world = netsim.World(case['hosts'], (), case['plugin'])
    with world:
        busy |= _seed_foreign(world, case, ranges)
        world.sockmod.busy = set(busy)
        baseline = _flatten(world.snapshot())
        if baseline:
            stats.count('histories_with_foreign_entries')

        owned = {}        # idx -> {entry: value} added by its start
        registered = []   # idx started and not completely finished
        complete = set()
        failed_with_entries = set()
        vips_seen = {}

        def expect_global(now, where):
            want = dict(baseline)
            for idx in registered:
                want.update(owned[idx])
            added, removed, changed = _diff(want, now)
            if added or removed or changed:
                raise Violation(
                    'c16.state.drift',
                    '%s: host state differs from seeded + live containers: '
                    'extra [%s] missing [%s] changed [%s]' % (
                        where, _fmt(added), _fmt(removed), _fmt(changed)))

        for opno, oper in enumerate(case['ops']):
            kind, idx = oper[0], oper[1]
            where = 'op %d %r' % (opno, oper)
            if kind not in ('start', 'fstart') and \
                    not world.container_dir_exists(idx):
                # the runtime removed the container directory after a finish
                # that returned: the cleanup service has nothing to run
                # finish() on any more (treadmill.cleanup.Cleanup.invoke)
                stats.count('op:finish-skipped-container-dir-gone')
                continue
            before = _flatten(world.snapshot())

            if kind in ('start', 'fstart'):
                spec = case['containers'][idx]
                fault = None
                if kind == 'fstart':
                    fault = _fault_of(oper)
                held = {key: world.containers[j].unique_name
                        for j in world.containers
                        for key in [(s.proto, s.addr[1])
                                    for s in world.containers[j].sockets
                                    if s.addr is not None and not s.closed]}
                refused0 = world.sockmod.refused
                cont = world.start(idx, spec, fault)
                stats.count('op:' + kind)
                stats.count('start:shared' if spec['shared_network']
                            else 'start:private')
                if world.sockmod.refused > refused0:
                    stats.count('start:port-collision')
                failed = cont.start_error is not None
                if cont.fault_label is not None:
                    stats.count('fault-at:' + cont.fault_label)
                    if cont.fault_native:
                        stats.count('fault-native-at:' + cont.fault_label)
                    stats.count('fault:start-failed' if failed
                                else 'fault:handled-by-the-code')
                elif kind == 'fstart':
                    stats.count('fault:point-not-reached')
                if failed and cont.fault_label is None:
                    if spec['shared_network'] and isinstance(
                            cont.start_error,
                            netsim.services.ResourceServiceTimeoutError):
                        stats.count('start:shared-network-wait-times-out')
                    elif isinstance(cont.start_error, FileExistsError):
                        # an entry this container needs is already there and
                        # belongs to somebody else.  Not judged here (the
                        # statement is about finish): the container is
                        # aborted and finished like any failed start, and
                        # whoever left the entry behind is caught at its
                        # own finish.
                        stats.count('start:failed-on-existing-entry')
                    else:
                        # run() failed without an injected fault: not
                        # something the generator produces -> harness error
                        raise cont.start_error
                if failed:
                    stats.count('start:failed')
                    stats.count('start:failed-%s-state' % (
                        'with' if cont.state_saved else 'without'))
                    stats.count('start:aborted-why-%s' % cont.abort_reason)
                else:
                    _check_ports(cont, world, ranges, busy, held, stats)
                after = _flatten(world.snapshot())
                added, removed, changed = _diff(before, after)
                if removed or changed:
                    raise Violation(
                        'c16.start.removed-foreign',
                        '%s: start of %s removed [%s] changed [%s]' % (
                            where, cont.unique_name, _fmt(removed),
                            _fmt(changed)))
                owned[idx] = added
                registered.append(idx)
                stats.count('entries_registered', len(added))
                if failed and added:
                    stats.count('start:failed-after-registering')
                    stats.count('start:failed-after-registering-why-%s'
                                % cont.abort_reason)
                    failed_with_entries.add(idx)
                network = world.network_of(cont)
                if not spec['shared_network'] and network:
                    vip = network['vip']
                    if vip in vips_seen:
                        stats.count('start:vip-reused')
                    vips_seen[vip] = idx
                    if any(case['containers'][j]['name'] == spec['name']
                           for j in registered if j != idx):
                        stats.count('start:same-app-name-registered')
                continue

            cont = world.containers[idx]
            mine = owned[idx]
            others_private = [j for j in registered if j != idx and owned[j]]
            fault = None
            if kind in ('crash', 'ffinish'):
                fault = _fault_of(oper)
            keep_dir = kind == 'crash' or (
                kind == 'finish' and len(oper) > 2 and oper[2] == 'keep')
            repeated = idx in complete
            outcome, detail = world.finish(idx, fault, kill=kind == 'crash')
            fault_at = world.fault_hit
            if outcome == 'raised' and fault_at is None:
                raise Violation(
                    'c16.%s.raised.%s' % (
                        'refinish' if repeated else 'finish',
                        type(detail).__name__),
                    '%s: finishing %s raised %r' % (
                        where, cont.unique_name, detail))
            if kind == 'ffinish':
                if fault_at is None:
                    stats.count('finish-fault:point-not-reached')
                else:
                    stats.count('finish-fault-at:' + fault_at)
                    stats.count('finish-fault:finish-raised'
                                if outcome == 'raised'
                                else 'finish-fault:handled-by-the-code')
            after = _flatten(world.snapshot())
            added, removed, changed = _diff(before, after)
            foreign_removed = {k: v for k, v in removed.items()
                               if k not in mine}
            if repeated:
                stats.count('op:refinish')
                if outcome != 'returned':
                    stats.count('op:refinish-' + outcome)
                if added or removed or changed:
                    entry = sorted(list(removed) + list(added) +
                                   list(changed))[0]
                    raise Violation(
                        'c16.refinish.changed.%s' % _kind(entry, None),
                        '%s: repeated finish of %s removed [%s] added [%s] '
                        'changed [%s]' % (where, cont.unique_name,
                                          _fmt(removed), _fmt(added),
                                          _fmt(changed)))
                expect_global(after, where)
                if outcome == 'returned' and not keep_dir:
                    world.remove_container_dir(idx)
                continue

            if foreign_removed or changed:
                entry = sorted(list(foreign_removed) + list(changed))[0]
                owner = [world.containers[j].unique_name
                         for j in registered if j != idx
                         and entry in owned[j]]
                raise Violation(
                    'c16.foreign-removed.%s' % _kind(entry, None),
                    '%s: finish of %s removed entries it does not own: [%s] '
                    '(owner %s) changed [%s]' % (
                        where, cont.unique_name, _fmt(foreign_removed),
                        owner[0] if owner else 'outside the history',
                        _fmt(changed)))
            if added:
                entry = sorted(added)[0]
                raise Violation(
                    'c16.finish.added.%s' % _kind(entry, cont),
                    '%s: finish of %s added [%s]' % (
                        where, cont.unique_name, _fmt(added)))

            if outcome != 'returned':
                # killed, or finish() raised on the injected fault: the
                # container is not finished, its directory stays, and the
                # cleanup service runs finish() again later.  Only own
                # entries may be gone (checked above).
                if outcome == 'killed':
                    stats.count('op:finish-killed')
                    stats.count('killed-at:' + detail)
                else:
                    stats.count('op:finish-raised-on-fault')
                owned[idx] = {k: v for k, v in mine.items() if k in after}
                expect_global(after, where)
                continue

            # finish() returned normally: the container counts as finished.
            stats.count('op:finish')
            if kind == 'crash':
                stats.count('op:finish-kill-point-beyond-end')
            how = ''
            if fault_at is not None:
                how = '; finish() returned normally although its call %s ' \
                    'failed' % fault_at
            if cont.start_error is not None:
                how += '; its start had failed at %s with %s, aborted ' \
                    'with reason %r' % (cont.fault_label,
                                        type(cont.start_error).__name__,
                                        cont.abort_reason)
            left = {k: v for k, v in mine.items() if k in after}
            if left:
                entry = sorted(left)[0]
                raise Violation(
                    'c16.leak.%s' % _kind(entry, cont),
                    '%s: after finish of %s (vip %s%s) still registered: [%s]'
                    % (where, cont.unique_name,
                       (world.network_of(cont) or {}).get('vip'), how,
                       _fmt(left)))
            stats.count('entries_checked_removed', len(mine))
            stats.count('foreign_entries_checked_kept',
                        len(before) - len(mine))
            registered.remove(idx)
            complete.add(idx)
            owned[idx] = {}
            expect_global(after, where)
            if cont.unique_name in world.services()['net']:
                if cont.state_saved:
                    raise Violation(
                        'c16.finish.vip-not-released',
                        '%s: network resource of %s still allocated' % (
                            where, cont.unique_name))
                # start failed before save_app: finish has nothing to go on
                stats.count('finish:no-state-vip-still-allocated')
            if fault_at is not None and kind == 'ffinish':
                stats.count('finish:returned-despite-fault-all-removed')
            if not keep_dir:
                # RuntimeBase.finish: rmtree(container_dir) - from now on
                # nobody can run this container's finish again
                world.remove_container_dir(idx)
                stats.count('finish:container-dir-removed')
            if others_private:
                stats.count('finish:with-other-registered')
            if _is_rich(cont.spec) and mine and cont.start_error is None:
                stats.count('finish:rich')
                if others_private:
                    nontrivial = True
                    rich_with_neighbour = True
            if idx in failed_with_entries:
                stats.count('finish:failed-start-entries-removed')
                nontrivial = True
                failed_start_cleaned = True

        if not registered:
            final = _flatten(world.snapshot())
            if final != baseline:
                added, removed, changed = _diff(baseline, final)
                raise Violation(
                    'c16.state.drift',
                    'all containers finished: extra [%s] missing [%s] '
                    'changed [%s]' % (_fmt(added), _fmt(removed),
                                      _fmt(changed)))
            stats.count('histories_drained')
    if rich_with_neighbour:
        stats.count('class:rich-finish-with-neighbour')
    if failed_start_cleaned:
        stats.count('class:failed-start-with-entries-finished')
    return nontrivial


# --------------------------------------------------------------------------
# aimed cases
# --------------------------------------------------------------------------

def _spec(idx, name=0, env='dev', shared=False, **kw):
    spec = {
        'name': APP_NAMES[name], 'uid': 'c%dx0' % idx, 'env': env,
        'shared_network': shared, 'shared_ip': False,
        'endpoints': [
            {'name': 'http', 'port': 8000, 'proto': 'tcp', 'type': None},
            {'name': 'ssh', 'port': 0, 'proto': 'tcp', 'type': 'infra'},
            {'name': 'ws', 'port': 0, 'proto': 'udp', 'type': 'infra'},
            {'name': 'http', 'port': 8000, 'proto': 'udp', 'type': None},
        ],
        'eph': {'tcp': 2, 'udp': 1},
        'passthrough': ['hosta', 'hostb', '10.9.9.9'],
        'vring': {'cells': ['cell-a'],
                  'rules': [{'pattern': 'proid.*', 'endpoints': ['http']}]},
        'order': {'tcp': [0, 1, 2], 'udp': [0, 1, -1]},
    }
    spec.update(kw)
    return spec


def fixed_cases():
    hosts = {'hosta': '10.1.1.1', 'hostb': '10.1.1.1', 'hostc': '10.1.1.2'}
    foreign = {'rules': True, 'same_app_spec': True, 'ipset': True}
    base = {'hosts': hosts, 'plugin': 'ok', 'foreign': foreign,
            'busy': [['tcp', 'nonprod', 0], ['udp', 'prod', -1]]}
    two = dict(base, containers=[_spec(0), _spec(1, env='prod')],
               ops=[['start', 0], ['start', 1], ['finish', 0, 'keep'],
                    ['finish', 0, 'keep'], ['finish', 1, 'keep'],
                    ['finish', 1], ['finish', 0], ['finish', 0]])
    same_name = dict(base, containers=[_spec(0), _spec(1), _spec(2, name=1)],
                     ops=[['start', 0], ['start', 1], ['finish', 1, 'keep'],
                          ['start', 2], ['finish', 1, 'keep'], ['finish', 0],
                          ['finish', 2], ['finish', 1]])
    killed = dict(base, plugin='missing',
                  containers=[_spec(0), _spec(1, env='uat')],
                  ops=[['start', 0], ['start', 1]] +
                  [['crash', 0, k] for k in (1, 4, 9, 14, 19, 23)] +
                  [['finish', 0, 'keep'], ['finish', 1], ['finish', 0]])
    # one-shot errors at every kind of boundary call of finish(), next to a
    # running container; the finish is run again until it has returned.
    ffaults = [['resolve', 1], ['resolve', 3], ['rules.unlink_rule', 1],
               ['rules.unlink_rule', 6], ['ipset.rm', 1], ['ipset.rm', 4],
               ['endpoints.unlink_all', 1], ['conntrack.flush', 1],
               ['net.get', 1], ['net.delete', 1], ['presence.delete', 1],
               ['localdisk.delete', 1], ['cgroup.delete', 1],
               ['plugin.cleanup', 1], ['rrd.flush', 1], ['archive_logs', 1],
               ['apphook.cleanup', 1]]
    ffailed = []
    for num, (label, nth) in enumerate(ffaults):
        ffailed.append((
            'finish-fault-at-%s-%d' % (label, nth),
            dict(base, plugin='ok' if num % 3 else 'missing',
                 containers=[_spec(0), _spec(1, name=num % 2),
                             _spec(2, env='prod')],
                 ops=[['start', 0], ['start', 1], ['ffinish', 1, label, nth],
                      ['finish', 1, 'keep'], ['start', 2], ['finish', 1],
                      ['finish', 1], ['finish', 0], ['finish', 2]])))
    shared = dict(base, containers=[_spec(0, shared=True), _spec(1)],
                  ops=[['start', 0], ['start', 1], ['finish', 0],
                       ['finish', 1]])
    bare = dict(base, containers=[
        _spec(0, endpoints=[], eph={'tcp': 0, 'udp': 0}, passthrough=[],
              vring={'cells': []}),
        _spec(1, endpoints=[], eph={'tcp': 0, 'udp': 2})],
                ops=[['start', 0], ['start', 1], ['finish', 0],
                     ['finish', 1]])
    # starts failing at every kind of boundary call, next to a running
    # container; each is finished twice, then a third container reuses vips.
    faults = [['newnet', 1], ['rules.create_rule', 3], ['ipset.add', 2],
              ['endpoints.create_spec', 2], ['resolve', 2], ['net.wait', 1],
              ['socket.bind', 2], ['fs.mount', 1], ['presence.put', 1],
              ['exec_pid1', 1], ['plugin.apply', 1],
              # resource services not answering in time, first to last wait
              ['cgroup.wait', 1, 'native'], ['localdisk.wait', 1, 'native'],
              ['net.wait', 1, 'native'], ['presence.wait', 1, 'native']]
    failed = []
    for num, fault in enumerate(faults):
        failed.append((
            'failed-start-at-%s' % '-'.join(str(f) for f in fault
                                            if not isinstance(f, int)),
            dict(base, containers=[_spec(0), _spec(1, name=num % 2),
                                   _spec(2, env='prod')],
                 ops=[['start', 0], ['fstart', 1] + fault,
                      ['finish', 1, 'keep'], ['finish', 1, 'keep'],
                      ['start', 2], ['finish', 1], ['finish', 0],
                      ['finish', 2]])))
    counted = dict(base, containers=[_spec(0), _spec(1)],
                   ops=[['fstart', 0, 40], ['fstart', 1, 55], ['crash', 0, 9],
                        ['ffinish', 1, 12], ['finish', 1, 'keep'],
                        ['finish', 0], ['finish', 1]])
    return failed + ffailed + [('failed-starts-by-count', counted),
                     ('two-rich-containers', two), ('same-app-name-vip-reuse',
                                                    same_name),
            ('killed-finishes', killed), ('shared-network', shared),
            ('bare-manifests', bare)]
