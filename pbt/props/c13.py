"""C13 - a container is running or in cleanup, never both, and follows the cache."""

import os

from hypothesis import strategies as st

from pbt import c13sim

ID = 'C13'
LEVEL = 'exploration'
RULE = ('Histories of <=25 operations on a real AppCfgMgr over a temporary '
        'root: manifests of 3 instances cached / removed / rewritten by '
        'eventmgr, .ready flips, directory events delivered in order but late, '
        'containers finishing on their own (real MonitorContainerCleanup), '
        'the cleanup service completing links later (real Cleanup.invoke), '
        'manager restarts and node reboots; re-created cache files reuse freed '
        'inode numbers and get ctimes microseconds to k*128 s apart; the salt '
        'varies container names and with them the iteration order inside '
        '_synchronize. Generations are identified by the harness counter, '
        'never by container name. Link structure '
        'is checked after every step, the cache/running correspondence after '
        'every synchronisation, and at event quiescence (queue empty, manager '
        'active) every running link must match the current cache generation. '
        'Non-trivial = two generations of one instance '
        'coexisted under apps/, or a synchronisation ran while a cleanup link '
        'was outstanding. distinct = canonical JSON of the case.')
ASSUMPTIONS = [
    'treadmill.appcfg.configure.configure is replaced by a stand-in (the '
    'runtime class hook, features and supervisor.create_service need entry '
    'points / s6): it runs the REAL appcfg.manifest.load on the cache file '
    '(a valid scheduled manifest + placement data; 1 in 2 carries keys of a '
    'runtime manifest - uniqueid, name/app of another instance, or a whole '
    'app.json-like dump), names the container '
    'appcfg.app_unique_name(utils.to_obj(manifest)) as configure() does, '
    'creates apps/<container>/data, returns None for a vanished event file; '
    'unconfigurable manifests have an invalid environment (load raises) or '
    'raise ContainerSetupError',
    'the os.stat seen by appcfg.gen_uniqueid is virtualised: inode and ctime '
    'come from a model file system stored in the case (inode numbers handed '
    'out in sequence and reused - most recently freed first - when the put '
    'op says so; ctime advances by the put op\'s microsecond distance: '
    'sub-second, seconds, or k*128 s plus a sub-second part), so names are '
    'reproducible; a ctime whose low 13 microsecond bits equal those of an '
    'earlier generation on the same inode (1 re-creation in 8192, a name '
    'collision on any tree) is moved on by 17 us and counted, not claimed',
    'supervisor.control_svscan is a no-op; runtime.get_runtime(...).finish() '
    'only removes the container directory (runtime_base.finish)',
    'directory events reach the manager in inotify order, possibly late, '
    'identical consecutive events coalesced; events pending at a manager '
    'restart are lost',
    'a tombstone that arrives after running/<instance> was re-pointed to '
    'another container is not generated',
]
TRUSTED = ['pbt/c13sim.py']
BUDGET = {'quick': 2400, 'thorough': 192000}

# 'killed' (no flag file at all) is kept out of the first three: 'exit' takes
# KINDS[:3] + killed, 'finish' any
KINDS = ['exitinfo', 'aborted', 'oom', 'pid1', 'killed', 'killed']


# ctime distance (microseconds) between successive cache files: mostly well
# below a second, sometimes seconds, sometimes k*128 s plus a sub-second part
# (128 s = 15625 * 8192 us is where the low 13 bits of the microsecond ctime
# that gen_uniqueid keeps wrap around exactly)
DT_US = [7, 61, 443, 2909, 7919, 40009, 250007, 999983,
         1000457, 2500003, 61000019,
         128000311, 128070001, 256001013, 384499979]


# keys of the runtime manifest carried by the cached one: 0 none, 1 uniqueid,
# 2 name/app of another instance, 3 a whole app.json-like dump
EXTRA = [0, 0, 0, 1, 1, 2, 3]


def _identity(draw):
    """[reuse the inode freed last?, ctime distance in us, extra keys]"""
    return [draw(st.sampled_from([1, 1, 0])), draw(st.sampled_from(DT_US)),
            draw(st.sampled_from(EXTRA))]


def _weighted(draw, choices):
    """choices: [(weight, value)] -> one value; earlier entries shrink first."""
    pool = []
    for weight, value in choices:
        pool.extend([value] * weight)
    return draw(st.sampled_from(pool))


@st.composite
def _case(draw):
    """Operations drawn against a rough model of the node, so that most of
    them apply (the interpreter skips and counts the ones that do not)."""
    salt = draw(st.integers(0, 63))
    n_ops = draw(st.integers(8, 25))
    ops = []
    cached = set()      # instance indexes with a cache entry
    placed = set()      # instance indexes that were ever cached
    ready = False
    active = False      # the manager has seen .ready since it started (rough)
    pending = 0         # queued events (rough)
    waiting = set()     # 'exit' without 'tomb'
    handed = 0          # cleanup links (rough)
    evicted = None      # instance index of the last 'del'
    # aimed openings: nothing / a running instance / an old generation in
    # cleanup next to the new one / a container that finished on its own
    opening = draw(st.sampled_from([0, 1, 2, 2, 3, 4, 5]))
    if opening == 5:
        # the synchronisation configures X, its created event is still queued
        # when the container dies
        ops += [['ready', 1], ['put', 0, 1] + _identity(draw), ['deliver', 1],
                ['finish', 0, draw(st.sampled_from(KINDS))]]
        cached.add(0)
        placed.add(0)
        ready = active = True
        pending = 1
        handed = 1
    elif opening:
        ops += [['put', 0, 1] + _identity(draw), ['ready', 1],
                ['deliver', 99]]
        cached.add(0)
        placed.add(0)
        ready = active = True
    if opening == 2:
        ops += [['del', 0], ['deliver', 99],
                ['put', 0, 1] + _identity(draw), ['deliver', 99]]
        handed = 1
    elif opening == 4:
        # evicted and placed again, both events still queued
        ops += [['del', 0], ['put', 0, 1] + _identity(draw)]
        pending = 2
    elif opening == 3:
        ops += [['finish', 0, draw(st.sampled_from(KINDS))]]
        handed = 1
    while len(ops) < n_ops:
        choices = []
        for idx, w_put, w_del, w_fin in ((0, 8, 5, 4), (1, 3, 2, 2),
                                         (2, 2, 1, 1)):
            if idx not in cached:
                # placed again right away (delete event still queued) is the
                # interesting order
                choices.append((w_put * 3 if idx == evicted and pending
                                else w_put, ('put', idx)))
            else:
                choices.append((w_del, ('del', idx)))
                if not ready:
                    choices.append((2, ('put', idx)))
            if idx in placed and active:
                choices.append((w_fin, ('finish', idx)))
                choices.append((max(1, w_fin // 2), ('exit', idx)))
            if idx in waiting:
                choices.append((6, ('tomb', idx)))
        choices.append((1 if ready and active else 15, ('ready', 1)))
        if ready:
            choices.append((3, ('ready', 0)))
        if pending:
            choices.append((min(60, 25 + 10 * pending), ('deliver',)))
        if handed:
            choices.append((5, ('cleanup',)))
        choices.append((2, ('restart',)))
        choices.append((1, ('reboot',)))
        pick = _weighted(draw, choices)
        kind = pick[0]
        if kind == 'put':
            okay = draw(st.sampled_from([1, 1, 1, 1, 1, 0]))
            ops.append(['put', pick[1], okay] + _identity(draw))
            cached.add(pick[1])
            placed.add(pick[1])
            pending += 1
        elif kind == 'del':
            ops.append(['del', pick[1]])
            evicted = pick[1]
            cached.discard(pick[1])
            pending += 1
            handed += 1
        elif kind == 'ready':
            ops.append(['ready', pick[1]])
            ready = bool(pick[1])
            active = active or ready
            pending += 1
        elif kind == 'deliver':
            count = draw(st.sampled_from([99, 99, 1, 1, 2, 3]))
            ops.append(['deliver', count])
            pending = max(0, pending - count)
        elif kind == 'finish':
            ops.append(['finish', pick[1], draw(st.sampled_from(KINDS))])
            handed += 1
        elif kind == 'exit':
            ops.append(['exit', pick[1], draw(st.sampled_from(KINDS[:3] + ['killed']))])
            waiting.add(pick[1])
        elif kind == 'tomb':
            ops.append(['tomb', pick[1]])
            waiting.discard(pick[1])
            handed += 1
        elif kind == 'cleanup':
            ops.append(['cleanup', draw(st.integers(0, 2))])
            handed -= 1
        elif kind == 'restart':
            ops.append(['restart'])
            pending = 0
            active = False
        else:
            ops.append(['reboot'])
            pending = 0
            handed = 0
            ready = False
            active = False
            waiting.clear()
    return {'salt': salt, 'ops': ops}


def strategy(tier):
    return _case()


def execute(case, stats):
    return c13sim.run_case(case, stats)


def fixed_cases():
    """Aimed histories; X = instance 0.  On the tree as pinned, the last six
    are the minimal witnesses of six distinct failure buckets."""
    if os.environ.get('C13_NO_FIXED'):     # sensitivity runs of the search
        return []
    ready = [['ready', 1], ['deliver', 99]]
    resync = [['ready', 0], ['ready', 1], ['deliver', 99]]
    running = [['put', 0, 1]] + ready
    return [
        # plain life cycle: place, run, evict, clean, resynchronise
        ('life-cycle', {'salt': 0, 'ops': running + [
            ['put', 1, 1], ['deliver', 99], ['del', 0], ['deliver', 99],
            ['cleanup', 0]] + resync}),
        # a container finishes on its own, the instance is placed again
        ('finish-replace-resync', {'salt': 1, 'ops': running + [
            ['finish', 0, 'exitinfo'], ['del', 0], ['put', 0, 1],
            ['deliver', 99]] + resync}),
        # node reboot with a finished and a healthy container on disk
        ('reboot', {'salt': 3, 'ops': [['put', 1, 1]] + running + [
            ['exit', 0, 'oom'], ['reboot'], ['ready', 1], ['deliver', 99]]}),
        # two old generations without links after a reboot, cache moved on
        ('reboot-two-orphans', {'salt': 0, 'ops': running + [
            ['del', 0], ['deliver', 99], ['put', 0, 1], ['deliver', 99],
            ['reboot'], ['put', 0, 1], ['ready', 1], ['deliver', 99]]}),
        # X evicted and placed again while generation 1 is being cleaned, then
        # a resynchronisation: generation 2 must stay
        ('resync-with-old-generation-in-cleanup', {'salt': 0, 'ops': running + [
            ['del', 0], ['put', 0, 1], ['ready', 0], ['deliver', 3],
            ['ready', 1], ['deliver', 3]]}),
        # X terminated, then a resynchronisation: still exactly one link
        ('resync-after-terminate', {'salt': 0, 'ops': running + [
            ['del', 0], ['ready', 0], ['ready', 1], ['deliver', 2],
            ['deliver', 1]]}),
        # X re-placed while the manager was down: the new generation must run
        ('replaced-while-manager-down', {'salt': 0, 'ops': running + [
            ['restart'], ['del', 0], ['put', 0, 1], ['ready', 1],
            ['deliver', 3]]}),
        # X evicted while the manager was down: the container must go
        ('evicted-while-manager-down', {'salt': 0, 'ops': running + [
            ['restart'], ['del', 0], ['ready', 1], ['deliver', 99]]}),
        # X evicted and placed again, both events handled afterwards, no
        # resynchronisation: the old container goes, the new one runs
        ('replaced-with-both-events-queued', {'salt': 0, 'ops': running + [
            ['del', 0], ['put', 0, 1], ['deliver', 99]]}),
        # delete event handled after X was placed again and configured
        ('stale-delete-event', {'salt': 0, 'ops': [
            ['put', 0, 1], ['ready', 1], ['del', 0], ['put', 0, 1],
            ['deliver', 99]]}),
        # created event handled after the synchronisation configured X and
        # the container already died
        ('late-created-event-after-finish', {'salt': 0, 'ops': [
            ['ready', 1], ['put', 0, 1], ['deliver', 1],
            ['finish', 0, 'oom'], ['deliver', 99]]}),
        # re-placed within the same second on the inode just freed, eviction
        # handled first, then a resynchronisation
        ('replace-same-inode-same-second', {'salt': 0, 'ops': running + [
            ['del', 0], ['deliver', 99], ['put', 0, 1, 1, 443],
            ['deliver', 99]] + resync}),
        # the same with both events still queued, and 128 s later
        ('replace-same-inode-128s-later-both-queued', {'salt': 0,
                                                       'ops': running + [
            ['del', 0], ['put', 0, 1, 1, 128000311], ['deliver', 99]]}),
        # the cached manifest carries keys of a runtime manifest (scheduled
        # from an app.json dump): running, resynchronised, finished, again
        ('manifest-with-uniqueid-resync', {'salt': 0, 'ops': [
            ['put', 0, 1, 0, 443, 1]] + ready + resync + [
                ['finish', 0, 'exitinfo']] + resync}),
        ('manifest-dump-restart-evict', {'salt': 1, 'ops': [
            ['put', 0, 1, 0, 443, 3], ['put', 1, 1, 0, 61, 2]] + ready + [
                ['restart'], ['ready', 1], ['deliver', 99], ['del', 0],
                ['deliver', 99], ['put', 0, 1, 1, 7, 1], ['deliver', 99]]
         + resync}),
        # the same with a container that was killed: no flag file at all
        ('late-created-event-after-flagless-death', {'salt': 0, 'ops': [
            ['ready', 1], ['put', 0, 1], ['deliver', 1],
            ['finish', 0, 'killed'], ['deliver', 99]]}),
        # reboot, cache rewritten, reboot again: both generations on disk
        # without links
        ('reboot-rewrite-reboot', {'salt': 0, 'ops': running + [
            ['reboot'], ['put', 0, 1], ['ready', 1], ['deliver', 3],
            ['reboot'], ['ready', 1], ['deliver', 99]]}),
    ]
