"""C07 - a running instance is displaced only for one ahead of it."""

from pbt import gen, oracles
from pbt.props import _e1

ID = 'C07'
LEVEL = 'exploration'
RULE = ('70% E1 histories (pure scheduler API) and 30% E2 histories (Master + ZkBackend + masterapi on the fake ZooKeeper, incl. reload/restore/restart paths of loader.py); E1 histories under capacity pressure (arrivals larger than free '
        'space, servers failing, priorities changing, equal priorities, '
        'schedule-once). Per cycle the captured queue of each partition is '
        'walked: an eligible instance that was on an up server and is no '
        'longer there must have an instance at a smaller queue index that '
        'gained a placement. Non-trivial = a history with a cycle in which '
        '>=1 instance was displaced and >=1 other kept/regained its server '
        'while something was placed. distinct = canonical JSON.'
        ' Since round 7: capacity pressure that exhausts a dimension exactly (fill), cell re-announcements and re-parenting in E2.'
        " Since round 8: reslot op (a server's reboot slot is assigned again after a presence change, possibly before the expiry of leases granted on it).")
ASSUMPTIONS = [
    'virtual clock replaces treadmill.scheduler.time',
    'queue order is captured by wrapping Cell._find_placements (observing '
    'only)',
]
TRUSTED = ['pbt/cellsim.py', 'pbt/mastersim.py', 'pbt/fakezk.py', 'pbt/oracles.py']
BUDGET = {'quick': 6000, 'thorough': 160000}

PROFILE = {
    'weights': {'app': 14, 'clone': 6, 'prio': 4, 'down': 2, 'rm': 3, 'adv': 4, 'freezeflip': 3, 'renew': 3, 'renewold': 3, 'fill': 2, 'fillclone2': 3, 'reslot': 3},
    'force': ['clone', 'adv', 'freezeflip', 'renew', 'renewold', 'fill',
              'fillclone2', 'reslot'],
    'demand_hi': 10,
    'pre': (4, 16),
}


E2_PROFILE = {'weights': {'app': 16, 'prio': 4, 'down': 2, 'rm': 3, 'finish': 2, 'freezeflip': 3, 'cellev': 4, 'reparent': 2}, 'force': ['freezeflip', 'cellev'], 'demand_hi': 10, 'pre': (3, 12)}


def strategy(tier):
    return gen.tagged(PROFILE, E2_PROFILE, e2_share=3)


def watch(sim, info, flags):
    gained = [n for n, (srv, _e, _i) in info.after.items()
              if srv is not None and srv != info.before[n][0]]
    if _e1.evictions(info) and gained:
        flags['evict'] = True


def execute(case, stats):
    flags = _e1.run_case(case, stats, [oracles.c07], watch)
    return bool(flags.get('evict'))
