"""C12 - the node's manifest cache mirrors what is placed on the node; a cache
file is absent or complete under any crash point of the write.

Two kinds of case share the budget (case['kind']):

 sync   generated prior cache (stale / missing / extra / outdated entries,
        .ready, leftover dot-prefixed temp files), placement list, ZooKeeper
        state with the manifest or the placement node missing, check_existing
        on/off with the placement node created before or after the file.
        One real EventMgr._synchronize; oracle on listing + content. The write
        hooks run in observe-only mode, so the atomicity invariant is also
        checked at every point of every write of these cases.
 fault  one synchronisation that performs at least one write. A reference run
        enumerates the points of the write path (before temp-file creation,
        after it, before the dump, between the pieces the dump's output is cut
        into, after the dump, fchmod, close, before/after replace, after the
        cleanup) and checks at each what another process would see (= a crash
        there). Then one fresh run per raisable point raises an OSError there
        (case['errno']: ENOSPC, EDQUOT, EMFILE, ENFILE, EACCES, EROFS, EIO,
        as the builtin subclass the interpreter would raise) and the
        directory is checked again afterwards. What the failed run did is
        part of the observation: if it raised, the service exits and
        (case['recover']) the restarted agent's first synchronisation
        (check_existing) runs on whatever the aborted one left behind and must
        produce the mirror; if it returned normally it *is* a completed
        synchronisation and the mirror clause is applied to it as it stands.
 agent  what else the agent writes into the cache directory: the real
        EventMgr.run(once=True) (presence watch, placement watch with the
        first synchronisation, ready notifications, heartbeat) and single
        _cache_notify(True/False) / _synchronize steps. Nothing of treadmill is
        wrapped here: a sys audit hook reports every file system operation
        that names a path below the cache directory or works on a descriptor
        (open, mkstemp, chmod, rename, remove, mkdir, scandir ...), whoever
        performs it; the directory is observed at each (= after the previous
        operation, = a crash there) and, when case['faults'], one rerun per
        mutating operation makes that operation fail; every synchronisation
        step of such a rerun that returns normally is held to the mirror
        clause. The same audit watch also runs (observe only) during sync and
        fault cases.
        Half of the agent cases are *histories* (_history_case): after
        run(once=True) has installed the placement watch, the scheduler
        session changes ZooKeeper several times (instances arrive with or
        without a manifest, leave, are moved, lose their manifest, lose their
        placement record while the agent is handling a notification) and
        every change is delivered, through the fake's ChildrenWatch (kazoo's
        contract: a callback returning False is never called again), to that
        one running agent. After each delivered placement change the mirror
        clause is applied to the ZooKeeper state the agent was notified of
        (c12.placement-event.*).
"""

import os

import hypothesis.strategies as st

from pbt import cachefs
from pbt.run import Violation

ID = 'C12'
LEVEL = 'fault_enumeration'
RULE = ('sync cases: a real EventMgr._synchronize on a temp root against the '
        'in-memory ZooKeeper; non-trivial = the case has >=1 extra (cached, '
        'not placed), >=1 missing (placed, not cached) and >=1 existing '
        '(placed and cached) entry. fault cases: every point of every '
        'write_safe call of one synchronisation is observed (crash_points) '
        'and one run per raisable point raises there (injected_faults, '
        'errno class drawn per case); a failed run that raises is followed by '
        'the restarted agent\'s synchronisation (recovery_syncs), one that '
        'returns normally is judged as a completed synchronisation '
        '(fault_swallowed_mirror_checked); '
        'non-trivial = some injected failure happened after >=1 byte of the '
        'manifest had been written to the temp file. agent cases: real '
        'run(once=True) / _cache_notify / _synchronize steps with the cache '
        'directory observed at every file system operation (audit hook) and '
        'each mutating operation failed once; non-trivial = >=1 mutating '
        'operation and >=1 ready notification. Half of the agent cases are '
        'histories: run(once=True), then 2-6 scheduler actions (place with / '
        'without manifest, unplace, app deleted, move, placement record '
        'removed while the notification is being handled), each delivered '
        'through the placement watch to the same running agent and followed '
        'by the mirror oracle (history:events_notified; '
        'history:events_after_incomplete_sync = changes delivered after a '
        'synchronisation that could not cache a listed instance). '
        'distinct = canonical JSON of the case.')
ASSUMPTIONS = [
    'ZooKeeper is the in-memory fake (pbt/fakezk.py); placement and '
    'scheduled nodes are written by the real zkutils.put (JSON), placement '
    'data is the dict Master._placement_data writes or, rarely, empty',
    'file ctimes come from the real kernel clock; the placement node ctime is '
    'set >= 1 s before or after the ctime of the cache file it is compared '
    'with, the exact boundary is not asserted',
    'a crash is modelled as (a) the process stopping at a point: the '
    'directory as another process reads it at that point, and (b) an OSError '
    'raised at that point; points are the steps of fs.write_safe (temp file '
    'creation, dump output cut into pieces and optionally flushed, fchmod, '
    'close, replace, cleanup); power-loss reordering below the file system '
    'API is out of scope',
    'a synchronisation has happened when _synchronize (or the run(once) / '
    'sync step that contains it) returns normally, whatever was made to fail '
    'inside it; when it raises, the service exits (utils.exit_on_unhandled), '
    'the supervisor restarts it, and the restarted agent synchronises with '
    'check_existing on the directory the aborted run left (same ZooKeeper '
    'state, no second fault)',
    'under check_existing an entry whose placement node is newer than its '
    'file must be refreshed (the "outdated files" of the quantifier)',
    'set iteration order of _synchronize is that of PYTHONHASHSEED=0',
    'agent cases: context.GLOBAL.zk is the fake client, the heartbeat sleep '
    'returns at once, utils.exit_on_unhandled lets the failure propagate '
    '(instead of os._exit); watches are delivered synchronously, so a reader '
    'racing the agent is modelled as an observation between two of its file '
    'system operations, not as a second thread',
    'histories: the agent that run(once=True) leaves behind (watches '
    'installed, main loop only sleeping and refreshing .ready) is the '
    'running service; run() synchronises only from its placement '
    'ChildrenWatch callback, so "the agent synchronises with ZooKeeper" '
    'happens when a change of the children of /placement/<host> is '
    'delivered to that callback, and the mirror is judged when the '
    'delivery has returned, against the ZooKeeper state at that moment; '
    'several mutations of one scheduler action give one notification '
    '(one-shot watches); the fake ChildrenWatch follows '
    'kazoo.recipe.watchers (callback result False = never called again); '
    'the placement root itself is not deleted under a running agent',
]
TRUSTED = ['pbt/fakezk.py', 'pbt/cachefs.py', 'PyYAML safe loader']
BUDGET = {'quick': 6400, 'thorough': 96000}

PROIDS = ['treadmld', 'foo']
APPS = ['web', 'api.v2', 'db-1']
TEXT = st.text(
    alphabet=st.sampled_from(
        list('abcXYZ019 _-:#/\'"{}[],&*!|>%@`\\\n\t.=~?') + ['é', '中', '☃']),
    max_size=6)
ODD = [
    'yes', 'no', 'null', '~', 'true', '1e3', '0x10', '012', '1_000', '', ' ',
    ' lead', 'trail ', '- x', 'a: b', '#c', 'multi\nline\n', '\n', '"q"',
    "it's", '2020-01-06', '1.5', '.5', '=', '<<', '{}', '[]', '%TAG', '---',
    '...', '|', '>', '@x', '`x`', '!t', '&a', '*a', '? x', 'a\tb', 'x' * 200,
    '/bin/sleep 10', 'exec /usr/bin/app --port=$PORT 2>&1 | tee "log"\n',
    'line1\n  indented\n\nline4', ' \n', 'tab\there: x', 'caf\u00e9 \u4e2d',
    "'single'", 'a #b', 'key: [1, 2]', '- - x', 'x\n...\n', '%d%%', '\\n',
]
# the rest of the JSON string domain a manifest can legally carry: non-BMP
# characters (stored by zkutils.put as \\ud83d\\ude80 escape pairs), control
# characters, line/paragraph separators, BOM, YAML 1.1 scalar look-alikes
NASTY = [
    '\U0001F680', 'launch \U0001F680 now', '\U00020000\U0001F600', 'a\U0010FFFDb',
    '\x00', '\x01\x02', '\x1b[0m', '\x7f', '\x85', '\u2028', '\u2029',
    '\ufeff', 'a\rb', '\r\n', 'x\x0cy', '\u00a0', '\ud7ff\ue000\ufffd',
    '1e5', '1e-05', '1e+16', '1:30', '190:20:30', '+1', '-0', '.inf', '-.inf',
    '.nan', 'Infinity', 'NaN', '0o7', '0b101', '1.', '1.e3', '1,000', 'on',
    'off', 'y', 'n', 'Y', 'N', 'Null', 'NULL', 'TRUE', 'False', ': ', '# ',
    'a: ', ' #', 'k: v #c', '- ', '?', ':', ',', '[', ']', '{', '}', '"',
    "'", '\\', '\\ud83d\\ude80', '\\x41', '%', '@', '`', '!!str x', '!!binary |',
    '\n a', ' \na', 'a \nb', 'a\n\tb', 'a\n\n', '\n\n', '\ta', 'a\n ',
]
WIDE_TEXT = st.text(max_size=4)      # any code point except surrogates
STRINGS = ODD + NASTY
# one draw for a catalogue string; sometimes glued to generated text
STRING = st.one_of(
    st.sampled_from(STRINGS), st.sampled_from(STRINGS[::-1]),
    st.tuples(st.sampled_from(STRINGS), TEXT).map(''.join), TEXT, WIDE_TEXT)
WORD = st.sampled_from(['web', 'app', 'db_1', 'sshd', 'a', 'http-0', 'x9',
                        'worker'])

# JSON numbers: exponent forms (1e-05, 1e+16 as json.dumps writes them), very
# large / small magnitudes, signed zero, integers beyond 64 bit
FLOATS = st.one_of(
    st.sampled_from([
        1e-05, 1e+16, 1e-300, 1.7976931348623157e+308, 5e-324, -0.0, 0.0,
        1.0, 1e22, 1e21, 1.2345678901234568e+17, 0.1, -1e-07, 1.5e+300,
        2.5e-05, -1e+16, 100000.0, 1e15, 9999999999999998.0]),
    st.floats(allow_nan=False, allow_infinity=False))
BIGINTS = st.one_of(
    st.sampled_from([2 ** 31, 2 ** 63, -2 ** 63 - 1, 10 ** 30, -10 ** 18,
                     2 ** 53 + 1]),
    st.integers(-10 ** 30, 10 ** 30))


def _number(small):
    """Mostly the ordinary small integer, sometimes any JSON number."""
    return st.one_of(small, small, small, FLOATS, BIGINTS)


JSON_SCALAR = st.one_of(st.none(), st.booleans(), st.integers(-5, 5), FLOATS,
                        BIGINTS, st.sampled_from(STRINGS), WIDE_TEXT)
JSON_KEY = st.one_of(st.sampled_from(['k', 'yes', '1', '~', '', 'a: b',
                                      '? x', '\U0001F680', 'k' * 200, 'null']),
                     st.text(max_size=4))
JSON_VALUE = st.recursive(
    JSON_SCALAR,
    lambda inner: st.one_of(st.lists(inner, max_size=3),
                            st.dictionaries(JSON_KEY, inner, max_size=3)),
    max_leaves=6)

MEMS = ['100M', '1G', '512M']
CPUS = ['10%', '100%', '250%']
DISKS = ['500M', '2G']
WORDS = ['web', 'app', 'db_1', 'sshd', 'a', 'http-0', 'x9', 'worker']
SHAPE = st.integers(0, 255)
SMALL = st.integers(0, 65535)
PRIORITY = _number(st.integers(0, 100))
INTERVAL = _number(st.integers(1, 600))
ANNOTATIONS = st.one_of(
    st.just({}), st.just({'a': [], 'b': {}}),
    st.dictionaries(JSON_KEY, JSON_VALUE, max_size=2))
BIG_COUNT = st.sampled_from([300, 900, 2500])


def _manifest(draw, big=False):
    """Keys of etc/schema/app.json plus what the master side adds; values
    range over the JSON value domain (str, int, float, bool, None, list,
    dict - nested and empty). EventMgr is schema-agnostic: it must cache
    whatever JSON document is in /scheduled, so 'annotations' carries an
    arbitrary small JSON tree. Few draws: `shape` selects the optional
    sections, `small` feeds the boring fields, the strings / numbers that
    matter are drawn individually."""
    shape = draw(SHAPE)
    small = draw(SMALL)
    one, two = draw(STRING), draw(STRING)
    man = {
        'memory': MEMS[small % 3],
        'cpu': CPUS[(small // 3) % 3],
        'disk': DISKS[(small // 9) % 2],
        'services': [{'name': WORDS[small % 8], 'command': one,
                      'restart': {'limit': small % 6,
                                  'interval': draw(INTERVAL)}}],
        'priority': draw(PRIORITY),
    }
    if shape & 1:
        man['services'].append(
            {'name': WORDS[(small // 8) % 8], 'command': two,
             'restart': {'limit': 5 - small % 6, 'interval': 60}})
    if shape & 2:
        man['endpoints'] = [
            {'name': WORDS[(small // 64) % 8], 'port': small,
             'type': 'infra' if small & 1 else None}
        ] if shape & 128 else []
    if shape & 4:
        man['environ'] = [{'name': 'OPT_A', 'value': two},
                          {'name': 'OPT_B', 'value': draw(STRING)}
                          ][:1 + (small & 1)] if shape & 128 or small & 2 \
            else []
    if shape & 8:
        man['args'] = [draw(STRING), one][:small % 3]
    if shape & 16:
        man['identity_group'] = WORDS[small % 8] if small & 4 else None
        man['shared_network'] = bool(small & 8)
        man['ephemeral_ports'] = {'tcp': small % 5, 'udp': small % 4}
    if shape & 32:
        man['affinity_limits'] = {'server': 1 + small % 3} if small & 16 \
            else {}
        man['tickets'] = [WORDS[small % 7]][:small % 2]
        man['lease'] = ['0s', '1h', '7d'][small % 3]
    if shape & 64 and small & 32:
        man['annotations'] = draw(ANNOTATIONS)
    if big:
        # beyond the 8 KiB buffer of the temp file / libyaml's output buffer
        man['args'] = [(two or 'x') + str(i)
                       for i in range(draw(BIG_COUNT))]
    return man


def _pdata(tup):
    ident, more, expires = tup
    return {'identity': ident,
            'identity_count': None if ident is None else ident + 1 + more,
            'expires': expires}


PDATA_DICT = st.tuples(
    st.one_of(st.none(), st.integers(0, 9)), st.integers(0, 3),
    st.one_of(st.none(),
              st.integers(1578268800000, 1609459200000).map(
                  lambda ms: ms / 1000.0),
              st.integers(1578268800000, 1609459200000).map(
                  lambda ms: ms / 1000.0),
              FLOATS)).map(_pdata)
# None: legacy placement node without data (rare)
PDATA = st.sampled_from(list(range(12))).flatmap(
    lambda die: st.none() if die == 0 else PDATA_DICT)


def pdatas():
    return PDATA


OLD_EDIT = st.tuples(st.integers(101, 200), st.sampled_from(['2G', '3G']))
KIND3 = st.sampled_from([0, 1, 2])
REL = st.sampled_from(['before', 'after'])
DELTA = st.sampled_from([1000, 5000, 3600000, 864000000])
DIE6 = st.sampled_from(list(range(6)))
DIE8 = st.sampled_from(list(range(8)))
DIE4 = st.sampled_from(list(range(4)))
DIE12 = st.sampled_from(list(range(12)))
BOOL = st.booleans()


def _old_file(draw, manifest, can_same):
    """Content of a cache file left by an earlier synchronisation."""
    kind = draw(KIND3)
    if kind == 0 and can_same:
        return 'same'
    if kind == 1 and manifest is not None:
        # same manifest, earlier placement data
        return {'manifest': manifest, 'pdata': draw(PDATA)}
    if manifest is not None and len(manifest.get('args', ())) < 50:
        # an earlier version of the manifest
        prio, mem = draw(OLD_EDIT)
        old = dict(manifest)
        old['priority'] = prio
        old['memory'] = mem
        old.pop('environ', None)
        return {'manifest': old, 'pdata': draw(PDATA)}
    return {'manifest': _manifest(draw), 'pdata': draw(PDATA)}


def _instance(draw, name, role, big=False):
    inst = {'name': name, 'role': role}
    if role == 'extra':
        inst['placed'] = False
        inst['manifest'] = _manifest(draw) if draw(BOOL) else None
        inst['pnode'] = draw(DIE8) == 0
        inst['pdata'] = draw(PDATA) if inst['pnode'] else None
        inst['file'] = _old_file(draw, inst['manifest'],
                                 inst['manifest'] is not None)
        inst['rel'] = draw(REL)
        inst['delta_ms'] = draw(DELTA)
    elif role in ('missing', 'existing'):
        inst['placed'] = True
        inst['manifest'] = _manifest(draw, big) if draw(DIE6) else None
        inst['pnode'] = draw(DIE6) != 0
        inst['pdata'] = draw(PDATA) if inst['pnode'] else None
        inst['file'] = None
        if role == 'existing':
            inst['file'] = _old_file(draw, inst['manifest'],
                                     inst['manifest'] is not None)
            inst['rel'] = draw(REL)
            inst['delta_ms'] = draw(DELTA)
    else:   # 'absent': known to ZooKeeper, neither placed here nor cached
        inst['placed'] = False
        inst['manifest'] = _manifest(draw)
        inst['pnode'] = False
        inst['pdata'] = None
        inst['file'] = None
    return inst


POOL = ['%s.%s#%010d' % (proid, app, num)
        for proid in PROIDS for app in APPS for num in (1, 2, 12)]
NAME_ORDER = st.lists(st.sampled_from(POOL), min_size=7, max_size=7,
                      unique=True)
ROLES = st.lists(
    st.sampled_from(['extra', 'missing', 'existing', 'existing', 'absent']),
    min_size=0, max_size=4)
SUFFIX = st.sampled_from(['abc123_x', 'q0w9e8r7'])
PARTIAL = st.sampled_from(['', 'cpu: 10%\nmemo', 'services:\n- command: "x'])
BIG_AT = st.sampled_from(list(range(30)))
CUTS = st.lists(st.integers(1, 999), max_size=3, unique=True)
OTHERS = st.lists(st.sampled_from(['extra', 'missing', 'existing']),
                  max_size=2)
FAULT_DELTA = st.sampled_from([1000, 3600000])
ERRNO = st.sampled_from(list(cachefs.ERRNOS) + ['ENOSPC', 'EACCES'])


def _dotfiles(draw, names):
    res = []
    if draw(BOOL):
        res.append({'name': '.ready', 'text': ''})
    for name in names:
        if draw(DIE4) == 0:
            # what a killed write leaves: dot-prefixed, truncated
            res.append({'name': '.%s-%s' % (name, draw(SUFFIX)),
                        'text': draw(PARTIAL)})
    return res


def _shuffled(draw, insts):
    # rotation + optional reversal: cheap, still varies creation order
    if not insts:
        return insts
    rot = draw(DIE8) % len(insts)
    insts = insts[rot:] + insts[:rot]
    if draw(BOOL):
        insts.reverse()
    return insts


def _sync_case(draw):
    roles = draw(ROLES)
    if draw(DIE4) != 0:
        roles = ['extra', 'missing', 'existing'] + roles[:2]
    names = draw(NAME_ORDER)[:len(roles)]
    big_at = draw(BIG_AT)
    insts = [_instance(draw, name, role, big=(idx == big_at))
             for idx, (name, role) in enumerate(zip(names, roles))]
    return {
        'kind': 'sync',
        'check_existing': draw(DIE8) < 5,
        'instances': _shuffled(draw, insts),
        'dotfiles': _dotfiles(draw, names),
    }


def _fault_case(draw):
    others = draw(OTHERS)
    names = draw(NAME_ORDER)[:1 + len(others)]
    big = draw(DIE4) == 0
    target = {'name': names[0], 'role': 'target', 'placed': True,
              'manifest': _manifest(draw, big), 'pnode': True,
              'pdata': draw(PDATA)}
    check_existing = draw(BOOL)
    if check_existing and draw(BOOL):
        # outdated entry that gets replaced
        target['file'] = _old_file(draw, target['manifest'], True)
        target['rel'] = 'after'
        target['delta_ms'] = draw(FAULT_DELTA)
    else:
        target['file'] = None
    insts = [target] + [_instance(draw, name, role)
                        for name, role in zip(names[1:], others)]
    return {
        'kind': 'fault',
        'check_existing': check_existing,
        'instances': _shuffled(draw, insts),
        'dotfiles': _dotfiles(draw, names[:1]),
        'cuts': sorted(draw(CUTS)),
        'flush': draw(DIE4) != 0,
        'errno': draw(ERRNO),
        'recover': draw(BOOL),
    }


STEPS = st.sampled_from([
    ['run_once'], ['run_once'], ['run_once', 'notify_stale', 'notify_ready'],
    ['notify_ready', 'run_once'], ['sync', 'notify_ready'],
    ['run_once', 'run_once'], ['notify_stale', 'run_once', 'sync'],
    ['notify_ready', 'notify_stale'], ['notify_ready', 'sync', 'notify_ready'],
])
AGENT_ROLES = st.sampled_from([
    ['missing'], ['missing', 'extra'], ['missing', 'existing', 'extra'],
    ['existing', 'missing'], ['existing', 'existing'], ['extra'], [],
    ['missing', 'missing', 'existing'],
])


def _agent_case(draw):
    """What the agent does around the synchronisation: run(once=True) with
    its presence / placement watches, ready notifications and heartbeat.
    The placement list is the real children list, so placed == pnode."""
    roles = list(draw(AGENT_ROLES))
    names = draw(NAME_ORDER)[:len(roles)]
    root = draw(DIE8) != 0
    insts = []
    for name, role in zip(names, roles):
        inst = _instance(draw, name, role)
        if not root:
            inst['placed'] = False
            inst['pnode'] = False
            inst['pdata'] = None
        elif inst['placed'] != inst['pnode']:
            inst['pnode'] = inst['placed']
            inst['pdata'] = draw(PDATA) if inst['pnode'] else None
        insts.append(inst)
    steps = list(draw(STEPS))
    if not root:
        steps = [step for step in steps if step != 'sync'] or ['run_once']
    return {
        'kind': 'agent',
        'check_existing': True,     # the first synchronisation of run()
        'presence': draw(DIE4) != 0,
        'placement_root': root,
        'instances': _shuffled(draw, insts),
        'dotfiles': _dotfiles(draw, names[:1]),
        'steps': steps,
        'faults': draw(BOOL),
        'errno': draw(ERRNO),
    }


EVENT_KIND = st.sampled_from([
    'place', 'place', 'place', 'unplace', 'unplace', 'move', 'delete_app',
    'place_orphan', 'race', 'create_app', 'create_app'])
EVENT_COUNT = st.sampled_from([2, 3, 3, 4, 5, 6])
DIE5 = st.sampled_from(list(range(5)))


def _history_case(draw):
    """A running agent and a *history* of placement lists: run(once=True)
    installs the placement watch (the heartbeat loop of the real service then
    only sleeps), after which the scheduler changes ZooKeeper several times
    and every change is delivered to that same agent through the watch it
    installed. Steps that are dicts are scheduler actions:

      place         /scheduled/<i> (unless there) then /placement/<host>/<i>
      place_orphan  the placement record only: the app was deleted before the
                    scheduler placed it, or its manifest is gone
      unplace       the placement record removed (half of the time the
                    manifest first: app deleted)
      delete_app    the manifest removed, the placement record stays for now
                    (no placement notification)
      create_app    the manifest of an instance that is placed here without
                    one is written (the writer of /scheduled lagging behind
                    the scheduler, a restored / re-created node): "manifest
                    missing" then "manifest present" under one unchanged
                    placement record. Alone (no placement notification, the
                    next placement change is the agent's next look at
                    ZooKeeper) or, 1 in 3, in one notification with an
                    arrival or a departure
      move          one instance leaves, another arrives, one notification
      race          two instances arrive; while the agent handles the
                    notification (it has listed the children) the record of
                    one placed instance is removed again

    The generator keeps a model (placed / scheduled names) only to aim; every
    mutation is a no-op when it does not apply, so any such list is a legal
    history."""
    roles = list(draw(AGENT_ROLES))
    order = draw(NAME_ORDER)
    names = order[:len(roles)]
    insts = []
    placed, scheduled = [], set()
    for name, role in zip(names, roles):
        inst = _instance(draw, name, role)
        if inst['placed'] != inst['pnode']:
            inst['pnode'] = inst['placed']
            inst['pdata'] = draw(PDATA) if inst['pnode'] else None
        insts.append(inst)
        if inst['placed']:
            placed.append(name)
        if inst['manifest'] is not None:
            scheduled.add(name)
    free = [name for name in order if name not in placed]

    def arrive(muts, orphan=False):
        name = free.pop(draw(DIE8) % len(free))
        if not orphan and name not in scheduled:
            muts.append({'do': 'schedule', 'name': name,
                         'manifest': _manifest(draw)})
            scheduled.add(name)
        muts.append({'do': 'place', 'name': name, 'pdata': draw(PDATA)})
        placed.append(name)
        return name

    def leave(muts, app_deleted):
        name = placed.pop(draw(DIE8) % len(placed))
        if app_deleted and name in scheduled:
            muts.append({'do': 'unschedule', 'name': name})
            scheduled.discard(name)
        muts.append({'do': 'unplace', 'name': name})
        free.append(name)
        return name

    steps = ['run_once']
    repaired = None
    kind, muts = None, []
    for _ in range(draw(EVENT_COUNT)):
        kind = draw(EVENT_KIND)
        if kind in ('unplace', 'move', 'delete_app') and not placed:
            kind = 'place'
        orphans = [name for name in placed if name not in scheduled]
        if kind == 'create_app' and not orphans:
            # nothing to repair yet: make the instance a later one repairs
            kind = 'place_orphan'
        if kind in ('place', 'place_orphan', 'move', 'race') and not free:
            kind = 'unplace'
        muts, race = [], None
        if kind == 'place':
            arrive(muts)
        elif kind == 'place_orphan':
            arrive(muts, orphan=True)
        elif kind == 'unplace':
            leave(muts, draw(BOOL))
        elif kind == 'move':
            leave(muts, False)
            arrive(muts, orphan=draw(DIE5) == 0)
        elif kind == 'delete_app':
            name = placed[draw(DIE8) % len(placed)]
            muts.append({'do': 'unschedule', 'name': name})
            scheduled.discard(name)
        elif kind == 'create_app':
            name = orphans[draw(DIE8) % len(orphans)]
            muts.append({'do': 'schedule', 'name': name,
                         'manifest': _manifest(draw)})
            scheduled.add(name)
            with_change = draw(DIE6)
            if with_change == 0 and free:
                arrive(muts)
            elif with_change == 1 and len(placed) > 1:
                placed.remove(name)
                leave(muts, False)
                placed.append(name)
            repaired = name
        else:   # race
            arrive(muts)
            if free and draw(BOOL):
                arrive(muts)
            race = placed.pop(-1 if draw(BOOL) else
                              draw(DIE8) % len(placed))
            free.append(race)
        steps.append({'op': kind, 'muts': muts, 'race': race})
        if draw(DIE5) == 0:
            # the heartbeat of the main loop between two notifications
            steps.append('notify_ready')
    if kind == 'create_app' and len(muts) == 1:
        # the history must not end on a change the agent is not told about:
        # one more placement change (of another instance), so that the agent
        # looks at ZooKeeper again
        muts = []
        placed.remove(repaired)
        if free and (not placed or draw(BOOL)):
            arrive(muts)
            kind = 'place'
        else:
            leave(muts, False)
            kind = 'unplace'
        steps.append({'op': kind, 'muts': muts, 'race': None})
    return {
        'kind': 'agent',
        'check_existing': True,
        'presence': draw(DIE4) != 0,
        'placement_root': True,
        'instances': _shuffled(draw, insts),
        'dotfiles': _dotfiles(draw, names[:1]),
        'steps': steps,
        'faults': draw(DIE4) == 0,
        'errno': draw(ERRNO),
    }


@st.composite
def cases(draw):
    die = draw(DIE12)
    if die == 0:
        return _fault_case(draw)
    if die == 1:
        return _agent_case(draw)
    if die == 2:
        return _history_case(draw)
    return _sync_case(draw)


STRATEGY = cases()


def strategy(tier):
    return STRATEGY


# -- execution ---------------------------------------------------------------
def _classify(case):
    extra = missing = existing = 0
    for inst in case['instances']:
        cached = inst.get('file') is not None
        if inst.get('placed') and cached:
            existing += 1
        elif inst.get('placed'):
            missing += 1
        elif cached:
            extra += 1
    return extra, missing, existing


def _value_classes(value, found):
    if isinstance(value, dict):
        for key, item in value.items():
            _value_classes(key, found)
            _value_classes(item, found)
        if not value:
            found.add('empty_container')
    elif isinstance(value, list):
        for item in value:
            _value_classes(item, found)
        if not value:
            found.add('empty_container')
    elif isinstance(value, str):
        for char in value[:64]:
            code = ord(char)
            if code > 0xffff:
                found.add('str_non_bmp')
            elif code > 0x7f:
                found.add('str_non_ascii')
            elif (code < 0x20 and char not in '\n\t') or code == 0x7f:
                found.add('str_control_char')
    elif isinstance(value, float):
        found.add('float_exponent_form' if 'e' in repr(value) else 'float')
    elif isinstance(value, int) and not isinstance(value, bool) and \
            abs(value) >= 2 ** 63:
        found.add('int_beyond_64bit')


def _count_case(case, stats):
    found = set()
    for inst in case['instances']:
        if inst.get('placed') and inst.get('pnode') and \
                inst.get('manifest') is not None:
            # values that go through ZooKeeper read -> merge -> YAML write
            _value_classes(inst['manifest'], found)
            _value_classes(inst.get('pdata'), found)
    for klass in found:
        stats.count('cases_with_' + klass)
    for inst in case['instances']:
        if inst.get('placed') and inst.get('manifest') is None:
            stats.count('placed_manifest_missing')
        if inst.get('placed') and not inst.get('pnode'):
            stats.count('placed_pnode_missing')
        if inst.get('pnode') and inst.get('pdata') is None:
            stats.count('placement_without_data')
        if inst.get('placed') and inst.get('file') is not None and \
                inst.get('pnode'):
            stats.count('existing_placement_%s_file' % inst.get('rel'))
        if inst.get('file') == 'same':
            stats.count('prior_file_current')
        elif inst.get('file') is not None:
            stats.count('prior_file_old_content')
    stats.count('dotfiles', len(case.get('dotfiles', [])))
    stats.count('check_existing_%s' % bool(case.get('check_existing')))


def _fault_free_sync(world, ctl):
    try:
        cachefs.synchronize(world, ctl)
    except Violation:
        raise
    except Exception as err:  # pylint: disable=broad-except
        raise Violation(
            'c12.sync.raised.%s' % type(err).__name__,
            '_synchronize did not complete on a cache state and '
            'ZooKeeper state the node can be in: %s: %s' % (
                type(err).__name__, ' '.join(str(err).split())[:300]))


def _run_sync(case, stats):
    extra, missing, existing = _classify(case)
    stats.count('kind:sync')
    stats.count('entries_extra', extra)
    stats.count('entries_missing', missing)
    stats.count('entries_existing', existing)
    _count_case(case, stats)
    world = cachefs.World(case)
    try:
        ctl = cachefs.Controller(world, fault_at=None, cuts=(), flush=False)
        _fault_free_sync(world, ctl)
        stats.count('writes', ctl.writes)
        stats.count('sync_snapshots', len(ctl.points))
        world.check_observable('the end of the synchronisation')
        cachefs.check_after_sync(world, stats)
        for name, text in world.prior_dot.items():
            if name not in world.dot_names():
                stats.count('dotfile_removed_by_sync')
    finally:
        world.close()
    return extra >= 1 and missing >= 1 and existing >= 1


def _run_fault(case, stats):
    stats.count('kind:fault')
    _count_case(case, stats)
    cuts = case.get('cuts', [])
    flush = bool(case.get('flush'))
    errno_name = case.get('errno', 'ENOSPC')
    stats.count('fault_errno:' + errno_name)

    world = cachefs.World(case)
    try:
        # reference run: enumerate and observe every point.
        ctl = cachefs.Controller(world, None, cuts, flush)
        _fault_free_sync(world, ctl)
        world.check_observable('the end of the fault-free run')
        cachefs.check_after_sync(world, stats)
        points = list(ctl.points)
        stats.count('fault_case_writes', ctl.writes)
        stats.count('crash_points', len(points))
        for label, _ in points:
            stats.count('point:' + label)

        after_bytes = False
        for index, (label, raisable) in enumerate(points):
            if not raisable:
                continue
            world.reset()
            ctl = cachefs.Controller(world, index, cuts, flush, errno_name)
            try:
                cachefs.synchronize(world, ctl)
                raised = False
            except cachefs.InjectedFault:
                raised = True
            except Violation:
                raise
            except Exception:  # pylint: disable=broad-except
                # the failure handling itself raised something else; what
                # matters is the directory it leaves (checked below)
                if ctl.fired is None:
                    raise
                raised = True
                stats.count('fault_masked_by_other_exception')
            if ctl.fired is None:
                raise AssertionError(
                    'harness: point %d (%s) not reached on the rerun'
                    % (index, label))
            stats.count('injected_faults')
            stats.count('fault_at:' + label)
            if not raised:
                stats.count('fault_swallowed')
            if ctl.fired[2] > 0:
                after_bytes = True
                stats.count('faults_after_bytes_written')
                if flush:
                    stats.count('faults_after_bytes_on_disk')
            where = 'after the failure injected at point %d (%s)' % (
                index, label)
            world.check_observable(where, bucket_prefix='c12.fault')
            litter = [name for name in world.dot_names()
                      if name not in world.prior_dot]
            if litter:
                stats.count('dot_litter_after_fault', len(litter))
            if not raised:
                # the failure did not stop the synchronisation: it returned
                # normally, the agent carries on (.ready stays set, nothing
                # retries), so it is a completed synchronisation
                stats.count('fault_swallowed_mirror_checked')
                cachefs.check_after_sync(
                    world, cachefs.PrefixedStats(stats, 'swallowed:'),
                    prefix='c12.fault.sync-completed',
                    where='after the synchronisation that returned normally '
                    'although %s was injected at point %d (%s),' % (
                        errno_name, index, label))
            elif case.get('recover'):
                # service exit + restart: first synchronisation of the new
                # agent on what the aborted one left behind
                stats.count('recovery_syncs')
                world.restart_agent()
                rec = cachefs.Controller(world, None, cuts, flush)
                rwhere = ('the restart after the synchronisation aborted by '
                          '%s at point %d (%s)' % (errno_name, index, label))
                try:
                    cachefs.synchronize(world, rec, check_existing=True)
                except Violation:
                    raise
                except Exception as err:  # pylint: disable=broad-except
                    raise Violation(
                        'c12.recovery.raised.%s' % type(err).__name__,
                        'the synchronisation of %s did not complete: %s: %s'
                        % (rwhere, type(err).__name__,
                           ' '.join(str(err).split())[:300]))
                world.check_observable('the end of ' + rwhere)
                cachefs.check_after_sync(
                    world, cachefs.PrefixedStats(stats, 'recovery:'),
                    prefix='c12.recovery',
                    where='after the synchronisation of %s,' % rwhere,
                    check_existing=True)
    finally:
        world.close()
    return after_bytes


def _history_step(world, step, ctl, raisable, stats):
    """One scheduler action and the delivery of its watch notification.

    When the children of /placement/<host> changed and a run() has installed
    its placement watch, the notification *is* the agent synchronising with
    ZooKeeper (run() synchronises nowhere else), so once the delivery has
    returned the mirror clause applies to the ZooKeeper state the agent was
    notified of. stats None: a rerun with an injected failure (judged only
    once the failure has happened, like the other steps)."""
    mutations = cachefs.agent_step(world, step, ctl, raisable)
    event = world.last_event
    what = 'placement event %d (%s: +%s -%s%s%s)' % (
        event['no'], step.get('op'), event['added'], event['removed'],
        ', record of %r removed while the agent handled the notification'
        % event['raced'] if event['raced'] else '',
        ', manifest of %s written to ZooKeeper after a synchronisation of '
        'this agent had listed it without one' % event['late_manifest']
        if event['late_manifest'] else '')
    world.check_observable('the end of ' + what)
    notified = event['children_changed'] and world.watching
    if stats is not None:
        stats.count('history:events')
        stats.count('history:event:%s' % step.get('op'))
        if event['raced']:
            stats.count('history:event_record_vanished_during_sync')
    if not notified:
        if stats is not None:
            stats.count('history:events_without_notification')
        return mutations
    where = ('after %s had been delivered to the running agent (%d file '
             'system operations on the cache directory during the delivery%s),'
             % (what, event['fs_points'],
                '' if event['fs_points'] else
                ': the agent did not synchronise'))
    if stats is not None:
        stats.count('history:events_notified')
        if event['fs_points']:
            stats.count('history:events_agent_synchronised')
        if event['after_incomplete']:
            # the part of the quantifier this schedule exists for: a placement
            # change *after* a synchronisation that could not cache a listed
            # instance (manifest or placement record missing)
            stats.count('history:events_after_incomplete_sync')
        if event['uncachable'] or event['raced']:
            stats.count('history:event_sync_with_uncachable_instance')
        if event['late_manifest']:
            # "manifest missing" then "manifest present" under one placement
            # record, seen by one agent process
            stats.count('history:events_after_manifest_appeared')
            if event['fs_points']:
                # same clause as placed-without-file below, named by the
                # history that shows it (the agent did synchronise)
                visible = world.visible()
                for name in event['late_manifest']:
                    if name in world.expected and \
                            world.new.get(name) is not None and \
                            name not in visible:
                        raise Violation(
                            'c12.placement-event.manifest-appeared-after-'
                            'placement.placed-without-file',
                            '%s %r is placed, its placement node and manifest '
                            'exist, but it has no cache file (the agent '
                            'synchronised, yet did not fetch the manifest it '
                            'had not found earlier)' % (where, name))
        cachefs.check_after_sync(
            world, cachefs.PrefixedStats(stats, 'history:'),
            prefix='c12.placement-event', where=where, check_existing=False)
    elif ctl.fired is not None:
        cachefs.check_after_sync(
            world, cachefs.PrefixedStats(None, ''),
            prefix='c12.fault.sync-completed',
            where='%s which returned normally although %s was injected at fs '
            'operation %d (%s),' % (where.rstrip(','), ctl.errno_name,
                                    ctl.fired[0], ctl.fired[1]),
            check_existing=False)
    if event['uncachable'] or event['raced']:
        world.incomplete_sync = True
    world.event_synchronised()      # (the delivery was a synchronisation)
    return mutations


def _agent_steps(world, case, ctl, raisable, stats=None):
    """Run the steps; returns (mutating fs operations, syncs performed).

    stats None: a rerun with one file system operation made to fail. A step
    that raises ends the rerun (the service exits). A synchronisation step
    that returns normally after the failure has synchronised, so the mirror
    clause applies to it (all of them are checked on a rerun: the failure may
    sit in any of them)."""
    mutations = syncs = 0
    for step in case['steps']:
        if isinstance(step, dict):
            mutations += _history_step(world, step, ctl, raisable, stats)
            continue
        if step == 'run_once' and world.uncachable():
            world.incomplete_sync = True
            if stats is not None:
                stats.count('history:first_sync_with_uncachable_instance')
        mutations += cachefs.agent_step(world, step, ctl, raisable)
        if step == 'sync' or (step == 'run_once' and
                              case.get('placement_root') is not False):
            world.event_synchronised()
        synced = step == 'sync' or (step == 'run_once' and
                                    case.get('placement_root') is not False)
        world.check_observable('the end of step %r' % step)
        if synced:
            syncs += 1
            if stats is not None and syncs == 1:
                cachefs.check_after_sync(world, stats)
            elif stats is None and ctl.fired is not None:
                cachefs.check_after_sync(
                    world, cachefs.PrefixedStats(None, ''),
                    prefix='c12.fault.sync-completed',
                    where='after step %r, which returned normally although '
                    '%s was injected at fs operation %d (%s),' % (
                        step, ctl.errno_name, ctl.fired[0], ctl.fired[1]))
    return mutations, syncs


def _run_agent(case, stats):
    stats.count('kind:agent')
    _count_case(case, stats)
    for step in case['steps']:
        if not isinstance(step, dict):
            stats.count('agent_step:' + step)
    if any(isinstance(step, dict) for step in case['steps']):
        stats.count('kind:agent:history')
    errno_name = case.get('errno', 'ENOSPC')
    world = cachefs.World(case)
    try:
        # reference run: the directory after every file system operation.
        ctl = cachefs.Controller(world, None)
        try:
            mutations, syncs = _agent_steps(world, case, ctl, True, stats)
        except Violation:
            raise
        except Exception as err:  # pylint: disable=broad-except
            raise Violation(
                'c12.agent.raised.%s' % type(err).__name__,
                'the agent died in steps %r on a cache / ZooKeeper state the '
                'node can be in: %s: %s' % (
                    [step.get('op') if isinstance(step, dict) else step
                     for step in case['steps']], type(err).__name__,
                    ' '.join(str(err).split())[:300]))
        points = list(ctl.points)
        stats.count('agent_fs_operations_observed', len(points))
        stats.count('agent_syncs', syncs)
        for label, _ in points:
            stats.count('agent_point:' + label)
        ready = os.path.exists(os.path.join(world.cache, '.ready'))
        if ready:
            stats.count('agent_ends_ready')

        if case.get('faults'):
            # one rerun per mutating operation: that operation fails.
            for index, (label, raisable) in enumerate(points):
                if not raisable:
                    continue
                world.reset()
                ctl = cachefs.Controller(world, index,
                                         errno_name=errno_name)
                try:
                    _agent_steps(world, case, ctl, True)
                    stats.count('agent_fault_swallowed')
                except Violation:
                    raise
                except Exception:  # pylint: disable=broad-except
                    if ctl.fired is None:
                        raise
                if ctl.fired is None:
                    raise AssertionError(
                        'harness: fs operation %d (%s) not reached on the '
                        'rerun' % (index, label))
                stats.count('crash_points')
                stats.count('agent_injected_faults')
                stats.count('agent_fault_at:' + label)
                world.check_observable(
                    'after the agent failed at fs operation %d (%s)' % (
                        index, label), bucket_prefix='c12.fault')
    finally:
        world.close()
    return mutations >= 1 and any(
        step in ('run_once', 'notify_ready') for step in case['steps'])


def execute(case, stats):
    if case.get('kind') == 'fault':
        return _run_fault(case, stats)
    if case.get('kind') == 'agent':
        return _run_agent(case, stats)
    return _run_sync(case, stats)


# -- aimed cases ---------------------------------------------------------------
def _man(version, extra=None):
    man = {
        'memory': '100M', 'cpu': '10%', 'disk': '500M', 'priority': version,
        'services': [{'name': 'web', 'command': '/bin/sleep 10\n',
                      'restart': {'limit': 5, 'interval': 60}}],
        'endpoints': [{'name': 'http', 'port': 8000, 'type': None}],
    }
    if extra:
        man.update(extra)
    return man


def _pd(identity, expires):
    return {'identity': identity,
            'identity_count': None if identity is None else 3,
            'expires': expires}


def fixed_cases():
    if os.environ.get('VERIF_NO_AIMED'):
        return []      # sensitivity runs of the generated search alone
    mixed = {
        'kind': 'sync', 'check_existing': True,
        'instances': [
            {'name': 'foo.web#0000000001', 'role': 'extra', 'placed': False,
             'manifest': None, 'pnode': False, 'pdata': None,
             'file': {'manifest': _man(1), 'pdata': _pd(None, 1578270000.5)},
             'rel': 'before', 'delta_ms': 5000},
            {'name': 'foo.web#0000000002', 'role': 'missing', 'placed': True,
             'manifest': _man(2), 'pnode': True, 'pdata': _pd(1, 1578279999.25),
             'file': None},
            {'name': 'foo.db-1#0000000012', 'role': 'existing', 'placed': True,
             'manifest': _man(3), 'pnode': True, 'pdata': _pd(0, 1578280000.0),
             'file': {'manifest': _man(3), 'pdata': _pd(0, 1578270000.0)},
             'rel': 'after', 'delta_ms': 5000},
            {'name': 'treadmld.api.v2#0000000001', 'role': 'existing',
             'placed': True, 'manifest': _man(4), 'pnode': True,
             'pdata': _pd(None, None), 'file': 'same',
             'rel': 'before', 'delta_ms': 3600000},
            {'name': 'treadmld.api.v2#0000000002', 'role': 'missing',
             'placed': True, 'manifest': None, 'pnode': True,
             'pdata': _pd(None, None), 'file': None},
            {'name': 'treadmld.web#0000000012', 'role': 'missing',
             'placed': True, 'manifest': _man(5), 'pnode': False,
             'pdata': None, 'file': None},
        ],
        'dotfiles': [{'name': '.ready', 'text': ''},
                     {'name': '.foo.web#0000000002-abc123_x',
                      'text': 'cpu: 10%\nmemo'}],
    }
    replace_old = {
        'kind': 'fault', 'check_existing': True,
        'instances': [
            {'name': 'foo.web#0000000002', 'role': 'target', 'placed': True,
             'manifest': _man(7, {'args': ['arg-%d' % i for i in range(900)]}),
             'pnode': True, 'pdata': _pd(2, 1578279999.25),
             'file': {'manifest': _man(6), 'pdata': _pd(2, 1578270000.0)},
             'rel': 'after', 'delta_ms': 1000},
            {'name': 'foo.web#0000000001', 'role': 'extra', 'placed': False,
             'manifest': None, 'pnode': False, 'pdata': None,
             'file': {'manifest': _man(1), 'pdata': _pd(None, None)},
             'rel': 'before', 'delta_ms': 5000},
        ],
        'dotfiles': [{'name': '.ready', 'text': ''}],
        'cuts': [1, 500, 999], 'flush': True,
        'errno': 'EDQUOT', 'recover': True,
    }
    create_new = {
        'kind': 'fault', 'check_existing': False,
        'instances': [
            {'name': 'treadmld.db-1#0000000012', 'role': 'target',
             'placed': True, 'manifest': _man(8), 'pnode': True,
             'pdata': _pd(None, 1578279999.25), 'file': None},
        ],
        'dotfiles': [], 'cuts': [400], 'flush': False,
        'errno': 'EMFILE', 'recover': True,
    }
    wide = {
        'kind': 'sync', 'check_existing': False,
        'instances': [
            {'name': 'foo.web#0000000001', 'role': 'missing', 'placed': True,
             'manifest': _man(1), 'pnode': True,
             'pdata': _pd(None, 1578279999.25), 'file': None},
            {'name': 'foo.api.v2#0000000002', 'role': 'missing',
             'placed': True, 'pnode': True, 'pdata': _pd(0, 1e+16),
             'file': None,
             'manifest': _man(2.5e-05, {
                 'environ': [{'name': 'BANNER',
                              'value': 'launch \U0001F680 now'},
                             {'name': 'CTRL', 'value': '\x01\x7f\x85\u2028'},
                             {'name': 'NUM', 'value': '1e5'},
                             {'name': 'T', 'value': '1:30'}],
                 'args': ['yes', '~', ' lead', 'trail ', 'a: b', '#c', ''],
                 'annotations': {'big': 2 ** 70, 'tiny': 5e-324,
                                 'huge': 1.7976931348623157e+308,
                                 'negzero': -0.0, 'nested': [[], {}, [{}]],
                                 '': None, 'yes': True}})},
            {'name': 'foo.db-1#0000000012', 'role': 'missing', 'placed': True,
             'manifest': _man(3), 'pnode': True,
             'pdata': _pd(1, 1578280000.0), 'file': None},
            {'name': 'treadmld.web#0000000001', 'role': 'missing',
             'placed': True, 'manifest': _man(4), 'pnode': True,
             'pdata': _pd(None, None), 'file': None},
        ],
        'dotfiles': [],
    }
    only_outdated = {
        # nothing extra, nothing missing: the only work is the refresh
        'kind': 'sync', 'check_existing': True,
        'instances': [
            {'name': 'foo.db-1#0000000012', 'role': 'existing', 'placed': True,
             'manifest': _man(3), 'pnode': True, 'pdata': _pd(0, 1578280000.0),
             'file': {'manifest': _man(2), 'pdata': _pd(0, 1578270000.0)},
             'rel': 'after', 'delta_ms': 5000},
            {'name': 'foo.web#0000000001', 'role': 'existing', 'placed': True,
             'manifest': _man(1), 'pnode': True, 'pdata': _pd(None, None),
             'file': 'same', 'rel': 'before', 'delta_ms': 5000},
        ],
        'dotfiles': [{'name': '.ready', 'text': ''}],
    }
    agent = {
        # the whole agent loop once: presence + placement watches, first
        # synchronisation, ready notifications, heartbeat; then a stale and a
        # ready notification; every mutating fs operation also made to fail
        'kind': 'agent', 'check_existing': True, 'presence': True,
        'placement_root': True, 'faults': True,
        'steps': ['run_once', 'notify_stale', 'notify_ready'],
        'instances': [
            {'name': 'foo.web#0000000001', 'role': 'extra', 'placed': False,
             'manifest': None, 'pnode': False, 'pdata': None,
             'file': {'manifest': _man(1), 'pdata': _pd(None, 1578270000.5)},
             'rel': 'before', 'delta_ms': 5000},
            {'name': 'foo.web#0000000002', 'role': 'missing', 'placed': True,
             'manifest': _man(2), 'pnode': True,
             'pdata': _pd(1, 1578279999.25), 'file': None},
            {'name': 'foo.db-1#0000000012', 'role': 'existing', 'placed': True,
             'manifest': _man(3), 'pnode': True, 'pdata': _pd(0, 1578280000.0),
             'file': {'manifest': _man(3), 'pdata': _pd(0, 1578270000.0)},
             'rel': 'after', 'delta_ms': 5000},
        ],
        'dotfiles': [{'name': '.foo.web#0000000002-abc123_x',
                      'text': 'cpu: 10%\nmemo'}],
    }
    one, two, three, four = ('foo.web#0000000001', 'foo.web#0000000002',
                             'foo.db-1#0000000012',
                             'treadmld.api.v2#0000000001')

    def _ev(kind, muts, race=None):
        return {'op': kind, 'muts': muts, 'race': race}

    history = {
        # one running agent, a life of the node: an instance arrives whose
        # app was already deleted, its stale record is dropped, an ordinary
        # arrival, an app deleted and then unplaced, a move, two arrivals one
        # of which is withdrawn while the agent handles the notification, the
        # last instance leaves. Every mutating fs operation also fails once.
        'kind': 'agent', 'check_existing': True, 'presence': True,
        'placement_root': True, 'faults': True, 'errno': 'ENOSPC',
        'instances': [
            {'name': one, 'role': 'missing', 'placed': True,
             'manifest': _man(1), 'pnode': True,
             'pdata': _pd(None, 1578279999.25), 'file': None},
        ],
        'dotfiles': [],
        'steps': [
            'run_once',
            _ev('place_orphan', [{'do': 'place', 'name': two,
                                  'pdata': _pd(None, 1578280001.0)}]),
            _ev('unplace', [{'do': 'unplace', 'name': two}]),
            _ev('place', [{'do': 'schedule', 'name': three,
                           'manifest': _man(3)},
                          {'do': 'place', 'name': three,
                           'pdata': _pd(4, 1578280002.5)}]),
            'notify_ready',
            _ev('delete_app', [{'do': 'unschedule', 'name': one}]),
            _ev('unplace', [{'do': 'unplace', 'name': one}]),
            _ev('move', [{'do': 'unplace', 'name': three},
                         {'do': 'schedule', 'name': four,
                          'manifest': _man(4)},
                         {'do': 'place', 'name': four,
                          'pdata': _pd(None, None)}]),
            _ev('race', [{'do': 'schedule', 'name': two,
                          'manifest': _man(2)},
                         {'do': 'place', 'name': two,
                          'pdata': _pd(0, 1578280003.0)},
                         {'do': 'place', 'name': three,
                          'pdata': _pd(1, 1578280003.0)}], race=three),
            _ev('unplace', [{'do': 'unplace', 'name': four}]),
        ],
    }
    late = {
        # "manifest missing" then "manifest present" under an unchanged
        # placement record, seen by one agent process: `two` is placed without
        # a manifest when the agent starts, `three` arrives without one; the
        # manifest of `two` is written between two notifications (the agent
        # learns nothing until the next placement change), that of `three`
        # together with a departure.
        'kind': 'agent', 'check_existing': True, 'presence': True,
        'placement_root': True, 'faults': True, 'errno': 'EIO',
        'instances': [
            {'name': one, 'role': 'missing', 'placed': True,
             'manifest': _man(1), 'pnode': True,
             'pdata': _pd(None, 1578279999.25), 'file': None},
            {'name': two, 'role': 'missing', 'placed': True,
             'manifest': None, 'pnode': True,
             'pdata': _pd(1, 1578280000.5), 'file': None},
        ],
        'dotfiles': [],
        'steps': [
            'run_once',
            _ev('place_orphan', [{'do': 'place', 'name': three,
                                  'pdata': _pd(None, None)}]),
            _ev('create_app', [{'do': 'schedule', 'name': two,
                                'manifest': _man(2)}]),
            'notify_ready',
            _ev('place', [{'do': 'schedule', 'name': four,
                           'manifest': _man(4)},
                          {'do': 'place', 'name': four,
                           'pdata': _pd(2, 1578280002.0)}]),
            _ev('create_app', [{'do': 'schedule', 'name': three,
                                'manifest': _man(3)},
                               {'do': 'unplace', 'name': one}]),
            _ev('unplace', [{'do': 'unplace', 'name': four}]),
        ],
    }
    return [('aimed-sync-extra-missing-outdated', mixed),
            ('aimed-agent-run-once-notifications', agent),
            ('aimed-agent-placement-history', history),
            ('aimed-agent-manifest-after-placement', late),
            ('aimed-sync-only-outdated', only_outdated),
            ('aimed-sync-json-value-domain', wide),
            ('aimed-fault-replace-existing', replace_old),
            ('aimed-fault-create-new', create_new)]
