"""C11 - a restarted master reloads exactly the placement that was published."""

from treadmill import zknamespace as z
from treadmill import zkutils

from pbt import gen, mastersim
from pbt.props import _e2
from pbt.run import Violation

ID = 'C11'
LEVEL = 'exploration'
RULE = ('E2 histories with master restarts; at every restart, right after '
        'load_model() and before the first new cycle, every stored entry '
        '(s, a) whose server is healthy (presence node exists with ctime <= '
        "the entry's ctime) must be in the new model on s with the stored "
        'identity and expiry (asserted when no external event happened since '
        'the last quiescent cycle), and every instance the new model has '
        'placed must have a stored entry under that server (always '
        'asserted). Non-trivial = a restart that compared >=3 stored entries '
        'on >=2 servers with >=1 identity or lease among them. distinct = '
        'canonical JSON.'
        ' Since rounds 6-7: allocation changes and partition reboot-schedule changes (read by masters only at start) before the restart; leased instances on old servers.'
        " Since round 8: rack definitions deleted under their servers; such servers are not 'still offering' (the topology a new master builds does not contain them)."
        ' Since round 9: restarts after unschedule-only changes are judged as well (records of the unscheduled instances skipped); rmrestart macro (instances stopped while no master looks).'
        " Since round 10: bounceplace macro (a server bounces with the same record within its instances' retention, new leased / schedule-once instances are placed, a new master starts on records on both sides of the presence node).")
ASSUMPTIONS = [
    'fake ZooKeeper stands in for the ensemble; ctime ordering follows the '
    'virtual clock, which the harness advances before every external write',
    'presence nodes are named by plain host name',
    '"still offering capacity/partition/traits" holds by construction when '
    'no external event happened since the last quiescent cycle; otherwise '
    'only the second direction is asserted',
]
TRUSTED = ['pbt/fakezk.py', 'pbt/mastersim.py']
BUDGET = {'quick': 3200, 'thorough': 128000}

PROFILE = {
    'weights': {'bounceplace': 4, 'rmrestart': 4, 'badparent': 2, 'rmbucket': 1, 'rmbucketrestart': 2, 'restart': 8, 'reboot': 2, 'down': 3, 'up': 2, 'idg': 2,
                'cycle': 8, 'app': 12, 'state': 5, 'downseq': 2},
    'force': ['restart', 'state', 'rmrestart', 'bounceplace'],
    'pre': (4, 12),
    'min_servers': 2,
    'max_parts': 1,
}

# a third of the histories: allocation changes and partition reboot-schedule
# changes (masters read those only when they start) before the restart
PROFILE_CONFIG = {
    'weights': {'restart': 8, 'reboot': 2, 'down': 3, 'up': 2, 'idg': 2,
                'cycle': 8, 'app': 12, 'state': 3, 'downseq': 2, 'allocs': 3,
                'partsched': 3, 'adv': 3, 'leasesched': 4},
    'force': ['restart', 'partsched', 'leasesched'],
    'pre': (4, 12),
    'min_servers': 2,
    'max_parts': 2,
}


def strategy(tier):
    from hypothesis import strategies as st
    plain = gen.master_case(PROFILE)
    config = gen.master_case(PROFILE_CONFIG)
    return st.integers(0, 2).flatmap(lambda k: config if k == 0 else plain)


def execute(case, stats):
    seen = {'rich': False}

    def on_restart(sim, phase):
        if phase == 'starting':
            seen['stored'] = sim.stored_placement()
            return
        if phase != 'loaded':
            return
        stored = seen['stored']
        master = sim.master
        # instances unscheduled since the last quiescent cycle leave stale
        # records behind; that says nothing about the other records, which
        # must still be restored (the stale ones are skipped below)
        clean = not (sim.dirty_kinds - {'rm', 'finish', 'rmlast'})
        if sim.dirty and clean:
            stats.count('restarts_after_unschedule_only')
        stats.count('restarts_checked')
        if clean:
            stats.count('restarts_clean')
        servers_seen = set()
        special = False
        compared = 0
        # "still offering the capacity, partition and traits of what is
        # recorded on it": judged from the server's current ZooKeeper record
        # (a node may have re-registered with other capacity without the old
        # master ever noticing: a presence flip it saw as no change)
        offering = {}
        sim.refresh_app_decl()
        by_server = {}
        for (server, inst) in stored:
            by_server.setdefault(server, []).append(inst)
        for server, insts in by_server.items():
            record = zkutils.get_default(sim.admin, z.path.server(server))
            okay = bool(record)
            if okay and not sim.admin.exists(
                    z.path.bucket(record.get('parent') or '-')):
                # the rack the record names is not defined (any more): the
                # server is not part of the topology a new master can build
                okay = False
                stats.count('servers_without_rack_definition')
            if okay:
                cap = mastersim.ref_vector(record)
                label = record.get('partition') or '_default'
                traits = sim.trait_mask(record.get('traits', []))
                total = [0, 0, 0]
                for inst in insts:
                    decl = sim.decl_apps.get(inst)
                    if decl is None:
                        okay = False
                        break
                    total = [t + d for t, d in zip(total, decl['demand'])]
                    if decl['label'] != label or \
                            (decl['traits'] & traits) != decl['traits']:
                        okay = False
                if any(t > c for t, c in zip(total, cap)):
                    okay = False
            offering[server] = okay
        for (server, inst), (data, ctime) in sorted(stored.items()):
            pnode = sim.tree.nodes.get(z.path.server_presence(server))
            healthy = pnode is not None and pnode.ctime <= ctime
            if not healthy:
                stats.count('entries_unhealthy_server')
                continue
            if not offering.get(server):
                stats.count('entries_server_no_longer_offering')
                continue
            if not clean:
                continue
            if sim.dirty and not sim.admin.exists(z.path.scheduled(inst)):
                stats.count('entries_of_unscheduled_instances')
                continue
            data = data or {}
            app = master.cell.apps.get(inst)
            if app is None or app.server != server:
                raise Violation(
                    'c11.dropped',
                    '%s is recorded under healthy %s but the restarted '
                    'master has it on %r' %
                    (inst, server, None if app is None else app.server))
            if app.identity != data.get('identity'):
                raise Violation(
                    'c11.identity',
                    '%s on %s: recorded identity %r, reloaded %r' %
                    (inst, server, data.get('identity'), app.identity))
            if app.placement_expiry != data.get('expires'):
                raise Violation(
                    'c11.expiry',
                    '%s on %s: recorded expiry %r, reloaded %r' %
                    (inst, server, data.get('expires'),
                     app.placement_expiry))
            compared += 1
            servers_seen.add(server)
            if data.get('identity') is not None or \
                    sim.decl_apps[inst]['lease']:
                special = True
        for (server, inst) in sorted(_e2.model_placement(master)):
            if (server, inst) not in stored:
                raise Violation(
                    'c11.invented',
                    'the restarted master has %s on %s but nothing is '
                    'recorded there' % (inst, server))
        stats.count('entries_compared', compared)
        if compared >= 3 and len(servers_seen) >= 2 and special:
            seen['rich'] = True

    sim = mastersim.MasterSim.__new__(mastersim.MasterSim)
    sim.on_restart_init = [on_restart]
    sim.__init__(case, observers=[], stats=stats)
    sim.run()
    return seen['rich']
