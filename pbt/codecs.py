"""E4 - generators, adaptors and oracles for the persisted-state codecs (C15).

One *codec* = one way Treadmill keeps state in a name or directory entry:

    rule            firewall rule      <-> rule file name        (rulefile.py)
    name            instance + id      <-> container unique name (appcfg)
    uniqueid        77-bit seed        <-> 13-char base-62 id    (appcfg, utils)
    appevent        app trace event    <-> trace node name       (trace/app)
    srvevent        server trace event <-> server trace node name(trace/server)
    zkpayload       dict / list        <-> ZooKeeper node bytes  (zkutils)
    ldap_app        app dict           <-> LDAP entry            (admin/_ldap)
    ldap_cellalloc  cell allocation    <-> LDAP entry + dn
    ldap_partition  partition          <-> LDAP entry + dn
    diff_entries    (old, new) entry   <-> modify list           (_diff_entries)
    fuzz            arbitrary string into one decoder (atheris / seeds)

Every case is a JSON-able tagged union ``{"codec": <name>, ...}``; values are
drawn from what the real producers emit (schema regexes, Master/_run/_finish
call sites).  For every codec ``check_<codec>(case, stats)`` runs the REAL
encoder and decoder, raises ``Violation`` on a lossy or colliding encoding and
returns True iff the case was non-trivial.
"""

import copy
import functools
import json
import os
import shutil
import string
import tempfile
import types

from hypothesis import strategies as st

from pbt.run import Violation

CODECS = (
    'rule', 'name', 'uniqueid', 'appevent', 'srvevent', 'zkpayload',
    'ldap_app', 'ldap_cellalloc', 'ldap_partition', 'diff_entries',
)

# Flip to True to also draw the two app.json fields that the LDAP Application
# schema does not model at all (see notes/C15-notes.md): they are accepted by
# the API and silently dropped by to_entry.  Not claimed by default.
CLAIM_UNPERSISTED_APP_FIELDS = False

WORD = string.ascii_letters + string.digits + '_'
WORD_DASH = WORD + '-'
LOWER_HOST = string.ascii_lowercase + string.digits
B62 = string.digits + string.ascii_lowercase + string.ascii_uppercase
B36 = string.digits + string.ascii_lowercase
FREE = (string.ascii_letters + string.digits +
        ' _-./:;,=+*%@#"\'(){}[]<>|&$!?~^\\' + u'éü€中')


# ---------------------------------------------------------------------------
# small strategy helpers
# ---------------------------------------------------------------------------

def _harden_shrinker():
    """Hypothesis 6.168 computes shrinker.sort_key(nodes) *before* it checks
    choice_permitted(); when the 'duplicated choices' pass copies a string
    into a text node with another alphabet, sort_key raises ValueError
    ("125 is not in list") and the whole run dies as a harness error instead
    of reporting the violation it was shrinking.  An impermissible candidate
    is simply 'not simpler': give it the largest key, which makes
    cached_test_function reject it exactly as the next line there would."""
    try:
        from hypothesis.internal.conjecture import shrinker
    except ImportError:  # pragma: no cover
        return
    original = shrinker.sort_key
    if getattr(original, '_c15_safe', False):
        return

    def sort_key(nodes):
        try:
            return original(nodes)
        except ValueError:
            return (float('inf'), ())

    sort_key._c15_safe = True
    shrinker.sort_key = sort_key


_harden_shrinker()


# Strategy objects are built once: constructing (and validating) them inside
# every draw costs more than the draw itself.
cached = functools.lru_cache(maxsize=None)

_BOOL = st.booleans()
_NONE = st.none()


@cached
def _ints(lo, hi):
    return st.integers(lo, hi)


@cached
def _pick_t(items):
    return st.sampled_from(list(items))


def _pick(*items):
    return _pick_t(items)


@cached
def _ulist(elem, lo=0, hi=3):
    return st.lists(elem, min_size=lo, max_size=hi, unique=True)


def _with_repeats(base, extra):
    out = list(base)
    for src, pos in extra:
        if not out:
            break
        out.insert(pos % (len(out) + 1), out[src % len(out)])
    return out


@cached
def _mlist(elem, lo=0, hi=3):
    """Ordered list in which a value may occur more than once: a unique base
    list plus, every other time, one or two copies of its own elements put at
    any position (adjacent `-v -v` as well as apart `--env A --env B`).  No
    JSON schema of the admin objects has uniqueItems and no caller
    de-duplicates (cli.LIST is a plain split, REST passes the array on)."""
    extra = st.lists(st.tuples(_ints(0, 7), _ints(0, 7)),
                     min_size=1, max_size=2)
    none = st.just(())
    return st.builds(_with_repeats, _ulist(elem, lo, hi),
                     st.one_of(none, extra))


@cached
def _one_of(*strats):
    return st.one_of(*strats)


@cached
def _just(value):
    return st.just(value)


@cached
def _suffixed(strat, suffix):
    return strat.map(lambda text: text + suffix)


@cached
def _txt(alphabet, lo, hi):
    return st.text(alphabet=alphabet, min_size=lo, max_size=hi)


@cached
def _hostname():
    label = st.builds(lambda a, b: a + b,
                      _txt(LOWER_HOST, 1, 1), _txt(LOWER_HOST + '-', 0, 6))
    return st.lists(label, min_size=1, max_size=4).map('.'.join)


@cached
def _octet():
    return st.one_of(_pick(0, 1, 10, 127, 192, 255),
                     _ints(0, 255))


@cached
def _ip():
    return st.lists(_octet(), min_size=4, max_size=4).map(
        lambda o: '.'.join(str(x) for x in o))


@cached
def _port():
    return st.one_of(
        _pick(0, 1, 80, 1023, 1024, 32768, 49151, 65535),
        _ints(0, 65535))


@cached
def _uniqueid():
    """What gen_uniqueid returns: 13 chars of base 62, zero padded."""
    return st.one_of(
        _ints(0, 2 ** 77 - 1),
        _ints(0, 62 ** 4),
        _ints(2 ** 77 - 2 ** 20, 2 ** 77 - 1),
    ).map(lambda n: _b62(n).rjust(13, '0'))


def _b62(num):
    """Independent base-62 printer (oracle side)."""
    if num == 0:
        return '0'
    out = []
    while num:
        num, rem = divmod(num, 62)
        out.append(B62[rem])
    return ''.join(reversed(out))


def _b62_value(text):
    val = 0
    for char in text:
        val = val * 62 + B62.index(char)
    return val


@cached
def _app_id():
    """common.json#/app_id: proid[@x].part(.part)*"""
    proid = _txt(WORD_DASH, 2, 8)
    part = st.one_of(
        _txt(WORD_DASH, 1, 8),
        _pick('a-b', 'web-0000000001', 'x_y', '-', 'a--b', '0',
                         'srv-1-2'),
    )
    return st.builds(
        lambda p, at, parts: p + ('@' + at if at else '') + '.' +
        '.'.join(parts),
        proid,
        st.one_of(st.just(''), st.just(''), _txt(WORD_DASH, 1, 5)),
        st.lists(part, min_size=1, max_size=3),
    )


@cached
def _instance_no():
    """ZooKeeper sequence suffix (%010d), now and then a bare \\d+."""
    return st.one_of(
        _ints(0, 2 ** 31 - 1).map(lambda n: '%010d' % n),
        _pick(0, 1, 9999999999 % (2 ** 31)).map(
            lambda n: '%010d' % n),
        _ints(0, 10 ** 12).map(str),
    )


@cached
def _instance_id():
    return st.builds(lambda a, n: a + '#' + n, _app_id(), _instance_no())


@cached
def _user():
    """common.json#/user"""
    return st.builds(
        lambda u, r: u + ('@' + r if r else ''),
        _txt(WORD_DASH, 1, 8),
        st.one_of(st.just(''), _txt(WORD_DASH + '.', 1, 10)),
    )


def near(draw, strat, first, keep=(), envelope=None):
    """A second value close to ``first``: identical, a field-wise blend of
    ``first`` with an independent draw, or fully independent.  ``keep`` names
    the discriminator fields: values that differ in one of them (or in their
    key set) are not blended, they only share the ``envelope`` fields."""
    mode = draw(_pick('mix', 'mix', 'mix', 'same', 'indep'))
    if mode == 'same':
        return copy.deepcopy(first)
    other = draw(strat)
    if mode == 'indep' or not isinstance(first, dict):
        return other
    out = copy.deepcopy(other)
    same_shape = (set(first) == set(other) and
                  all(first[k] == other[k] for k in keep))
    for key in sorted(other):
        if key in keep or key not in first:
            continue
        if not same_shape and (envelope is None or key not in envelope or
                               type(first[key]) is not type(other[key])):
            continue
        if draw(_ints(0, 4)) > 0:
            out[key] = copy.deepcopy(first[key])
    return out


def same(left, right):
    """Strict structural equality (1 != 1.0 != True)."""
    if type(left) is not type(right):
        return False
    if isinstance(left, dict):
        return (set(left) == set(right) and
                all(same(left[k], right[k]) for k in left))
    if isinstance(left, (list, tuple)):
        return (len(left) == len(right) and
                all(same(a, b) for a, b in zip(left, right)))
    if isinstance(left, float):
        return repr(left) == repr(right)
    return left == right


def _real(bucket, what, func, *args, **kwargs):
    """Call into the code under test.  Reading back what was just written
    must yield the value; an exception there is a lossy encoding, not a
    harness problem (harness code is never called through here)."""
    try:
        return func(*args, **kwargs)
    except Violation:
        raise
    except Exception as err:  # pylint: disable=broad-except
        raise Violation(bucket + '.raises', '%s raised %s: %s' % (
            what, type(err).__name__, err))


def _short(obj, limit=300):
    text = json.dumps(obj, sort_keys=True, default=repr)
    return text if len(text) <= limit else text[:limit] + '...'


# ---------------------------------------------------------------------------
# rule <-> rule file name
# ---------------------------------------------------------------------------

@cached
def _chains():
    from treadmill import iptables
    return [iptables.PREROUTING_PASSTHROUGH, iptables.PREROUTING_DNAT,
            iptables.POSTROUTING_SNAT, iptables.VRING_DNAT,
            iptables.VRING_SNAT]


@cached
def _chain():
    return st.one_of(st.sampled_from(_chains()), st.sampled_from(_chains()),
                     _txt(WORD, 2, 28))


@cached
@st.composite
def rule_value(draw):
    kind = draw(_pick('dnat', 'snat', 'dnat', 'snat',
                                 'passthrough'))
    chain = draw(_chain())
    if kind == 'passthrough':
        return {'kind': kind, 'chain': chain,
                'src_ip': draw(_ip()), 'dst_ip': draw(_ip())}
    val = {'kind': kind, 'chain': chain,
           'proto': draw(_pick('tcp', 'udp')),
           'new_ip': draw(_ip()), 'new_port': draw(_port()),
           'wild': draw(_pick('omit', 'none'))}
    for field in ('src_ip', 'dst_ip'):
        val[field] = draw(_one_of(_NONE, _ip(), _ip()))
    for field in ('src_port', 'dst_port'):
        val[field] = draw(_one_of(_NONE, _port(), _port()))
    return val


@cached
@st.composite
def rule_case(draw):
    first = draw(rule_value())
    return {'codec': 'rule', 'fs': draw(_ints(0, 3)) == 0,
            'a': first,
            'b': near(draw, rule_value(), first,
                      envelope=('chain', 'src_ip', 'dst_ip'))}


def build_rule(val):
    """The rule object the way _run.py / vring.py / get_rule construct it:
    a wildcard is an omitted argument or an explicit None."""
    from treadmill import firewall
    if val['kind'] == 'passthrough':
        return firewall.PassThroughRule(src_ip=val['src_ip'],
                                        dst_ip=val['dst_ip'])
    kwargs = {'proto': val['proto'], 'new_ip': val['new_ip'],
              'new_port': val['new_port']}
    for field in ('src_ip', 'src_port', 'dst_ip', 'dst_port'):
        if val[field] is None:
            if val['wild'] == 'none':
                kwargs[field] = None
        else:
            kwargs[field] = val[field]
    cls = firewall.DNATRule if val['kind'] == 'dnat' else firewall.SNATRule
    return cls(**kwargs)


def rule_key(chain, rule):
    """Oracle-side identity of (chain, rule): no use of the rule's __eq__."""
    from treadmill import firewall
    if isinstance(rule, firewall.PassThroughRule):
        return (chain, 'passthrough', rule.src_ip, rule.dst_ip)
    kind = {firewall.DNATRule: 'dnat', firewall.SNATRule: 'snat'}[type(rule)]

    def _ip_of(value):
        return None if value == firewall.ANY_IP else value

    def _port_of(value):
        return None if value == firewall.ANY_PORT else int(value)

    return (chain, kind, rule.proto, _ip_of(rule.src_ip),
            _port_of(rule.src_port), _ip_of(rule.dst_ip),
            _port_of(rule.dst_port), rule.new_ip, int(rule.new_port))


def rule_expected_key(val):
    if val['kind'] == 'passthrough':
        return (val['chain'], 'passthrough', val['src_ip'], val['dst_ip'])
    return (val['chain'], val['kind'], val['proto'], val['src_ip'],
            val['src_port'] or None, val['dst_ip'], val['dst_port'] or None,
            val['new_ip'], val['new_port'])


def check_rule(case, stats):
    from treadmill import rulefile
    vals = [case['a']] + ([case['b']] if case.get('b') else [])
    names, keys = [], []
    nontrivial = False
    for val in vals:
        rule = build_rule(val)
        want = rule_expected_key(val)
        if rule_key(val['chain'], rule) != want:
            raise AssertionError('harness: rule model mismatch %r' % (val,))
        name = _real('c15.rule.%s.encode' % val['kind'],
                     '_filenameify(%s)' % _short(val),
                     rulefile.RuleMgr._filenameify, val['chain'], rule)
        if '/' in name or name in ('.', '..') or '\0' in name:
            raise Violation('c15.rule.name-not-a-filename',
                            'rule %s encodes as %r' % (_short(val), name))
        back = _real('c15.rule.%s.decode' % val['kind'],
                     'get_rule(%r) for %s' % (name, _short(val)),
                     rulefile.RuleMgr.get_rule, name)
        if back is None:
            raise Violation(
                'c15.rule.%s.not-decodable' % val['kind'],
                'rule %s is written as %r which get_rule rejects' %
                (_short(val), name))
        got = rule_key(back[0], back[1])
        if got != want:
            raise Violation(
                'c15.rule.%s.roundtrip' % val['kind'],
                'rule %s written as %r reads back as %r' %
                (_short(val), name, got))
        names.append(name)
        keys.append(want)
        stats.count('rule:' + val['kind'])
        wild = val['kind'] != 'passthrough' and any(
            not val[f] for f in ('src_ip', 'src_port', 'dst_ip', 'dst_port'))
        edge = val['kind'] != 'passthrough' and any(
            val[f] in (1, 65535) for f in ('src_port', 'dst_port',
                                           'new_port'))
        if wild:
            stats.count('rule:wildcard')
        if edge:
            stats.count('rule:boundary-port')
        nontrivial = nontrivial or wild or edge
    if len(vals) == 2:
        if keys[0] != keys[1]:
            stats.count('rule:pair-distinct')
            if names[0] == names[1]:
                raise Violation(
                    'c15.rule.collision',
                    'distinct rules %s and %s share the file name %r' %
                    (_short(vals[0]), _short(vals[1]), names[0]))
        elif names[0] != names[1]:
            raise Violation(
                'c15.rule.two-names',
                'one rule %s has two file names %r / %r' %
                (_short(vals[0]), names[0], names[1]))
    if case.get('fs'):
        _check_rule_fs(vals, keys, stats)
    return nontrivial


def _check_rule_fs(vals, keys, stats):
    """Same through the real directory: create_rule x n, then get_rules."""
    from treadmill import rulefile
    root = tempfile.mkdtemp(prefix='c15-rules-')
    try:
        rules_dir = os.path.join(root, 'rules')
        apps_dir = os.path.join(root, 'apps')
        os.mkdir(rules_dir)
        os.mkdir(apps_dir)
        mgr = rulefile.RuleMgr(rules_dir, apps_dir)
        for val in vals:
            _real('c15.rule.fs-create', 'create_rule(%s)' % _short(val),
                  mgr.create_rule, val['chain'], build_rule(val), 'owner-0')
        found = sorted((rule_key(c, r) for c, r in _real(
            'c15.rule.fs-list', 'get_rules() after %s' % _short(vals),
            mgr.get_rules)), key=repr)
        listed = len(os.listdir(rules_dir))
        want = sorted(set(keys), key=repr)
        if found != want or listed != len(want):
            raise Violation(
                'c15.rule.fs-roundtrip',
                'rules %s listed back as %r (%d files)' %
                (_short(vals), found, listed))
        stats.count('rule:fs')
    finally:
        shutil.rmtree(root, ignore_errors=True)


# ---------------------------------------------------------------------------
# instance name + unique id <-> container unique name
# ---------------------------------------------------------------------------

@cached
@st.composite
def name_value(draw):
    return {'instance': draw(_instance_id()), 'uniqueid': draw(_uniqueid())}


@cached
@st.composite
def name_case(draw):
    first = draw(name_value())
    return {'codec': 'name',
            'via': draw(_pick('app', 'manifest')),
            'a': first, 'b': near(draw, name_value(), first)}


def check_name(case, stats):
    from treadmill import appcfg
    vals = [case['a']] + ([case['b']] if case.get('b') else [])
    encs = []
    nontrivial = False
    for val in vals:
        if case.get('via') == 'manifest':
            uname = _real('c15.name.encode', _short(val),
                          appcfg.manifest_unique_name,
                          {'name': val['instance'],
                           'uniqueid': val['uniqueid']})
        else:
            uname = _real('c15.name.encode', _short(val),
                          appcfg.app_unique_name, types.SimpleNamespace(
                              name=val['instance'],
                              uniqueid=val['uniqueid']))
        tail = uname[-13:]
        if (len(uname) < 15 or uname[-14] != '-' or
                any(c not in B62 for c in tail)):
            raise Violation(
                'c15.name.tail-not-13',
                '%s -> %r does not end in -<13 chars of [0-9a-zA-Z]>' %
                (_short(val), uname))
        back_name = _real('c15.name.decode', 'app_name(%r)' % uname,
                          appcfg.app_name, uname)
        back_id = _real('c15.name.decode', 'app_unique_id(%r)' % uname,
                        appcfg.app_unique_id, uname)
        if back_name != val['instance']:
            raise Violation(
                'c15.name.instance-roundtrip',
                'instance %r (id %s) is named %r which reads back as %r' %
                (val['instance'], val['uniqueid'], uname, back_name))
        if back_id != val['uniqueid']:
            raise Violation(
                'c15.name.uniqueid-roundtrip',
                'unique id %r of %r is named %r which reads back as %r' %
                (val['uniqueid'], val['instance'], uname, back_id))
        encs.append(uname)
        app = val['instance'].split('#')[0]
        dashed = '-' in app
        if dashed:
            stats.count('name:dash-in-app')
        if '@' in app:
            stats.count('name:at-in-app')
        if val['uniqueid'].startswith('0'):
            stats.count('name:padded-id')
        nontrivial = nontrivial or dashed
    if len(vals) == 2:
        distinct = (vals[0]['instance'], vals[0]['uniqueid']) != \
            (vals[1]['instance'], vals[1]['uniqueid'])
        if distinct:
            stats.count('name:pair-distinct')
            if encs[0] == encs[1]:
                raise Violation(
                    'c15.name.collision',
                    '%s and %s share the unique name %r' %
                    (_short(vals[0]), _short(vals[1]), encs[0]))
    return nontrivial


# ---------------------------------------------------------------------------
# 77-bit seed <-> 13 character id
# ---------------------------------------------------------------------------

@cached
@st.composite
def uniqueid_case(draw):
    mode = draw(_pick('basen', 'gen'))
    if mode == 'basen':
        num = draw(_one_of(
            _ints(0, 2 ** 77 - 1),
            _ints(0, 62 ** 3),
            _pick(0, 1, 35, 36, 61, 62, 62 ** 12 - 1, 62 ** 12,
                  2 ** 64 - 1, 2 ** 64, 2 ** 77 - 1),
        ))
        pick = draw(_ints(0, 2))
        if pick == 0:
            other = draw(_ints(0, 2 ** 77 - 1))
        elif pick == 1:
            other = max(0, num + draw(_ints(-3, 3)))
        else:
            other = min(num * draw(_pick(62, 62 ** 2)), 2 ** 77 - 1)
        return {'codec': 'uniqueid', 'mode': 'basen', 'n': num,
                'alphabet': draw(_pick('b62', 'b62', 'default')),
                'n2': other}

    def _stat():
        return {
            # st_ctime as os.stat reports it: a float of seconds
            'ctime_ns': draw(_one_of(
                _ints(10 ** 18, 2 * 10 ** 18),
                _ints(0, 10 ** 10),
                _pick(1537776000 * 10 ** 9, 1537776000 * 10 ** 9 + 8191000)
            )),
            'ino': draw(_one_of(_ints(1, 2 ** 32), _ints(1, 2 ** 64 - 1),
                                _ints(1, 4096))),
        }

    first = dict(_stat(), instance=draw(_instance_id()))
    second = dict(_stat(), instance=draw(_instance_id()))
    if draw(_ints(0, 2)) > 0:
        second['ctime_ns'] = first['ctime_ns']
    if draw(_ints(0, 2)) == 0:
        second['ino'] = first['ino']
    if draw(_ints(0, 2)) == 0:
        second['instance'] = first['instance']
    return {'codec': 'uniqueid', 'mode': 'gen', 'a': first, 'b': second}


class _OsShim(object):
    """Stands in for the name ``os`` inside treadmill.appcfg."""
    path = os.path

    def __init__(self, table):
        self._table = table

    def stat(self, path):
        ctime, ino = self._table[path]
        return types.SimpleNamespace(st_ctime=ctime, st_ino=ino)


def _seed_of(ctime, ino, instance):
    """The 77-bit number the docstring of gen_uniqueid describes."""
    event_time = int(ctime * 10 ** 6)
    data = (ino ^ (int(instance) << 31)) & (2 ** 64 - 1)
    return ((event_time << 64) + data) & (2 ** 77 - 1)


def check_uniqueid(case, stats):
    from treadmill import appcfg
    from treadmill import utils
    if case['mode'] == 'basen':
        alphabet = B62 if case['alphabet'] == 'b62' else None
        base = 62 if alphabet else 36
        encs = []
        for num in (case['n'], case['n2']):
            if alphabet:
                text = _real('c15.uniqueid.basen-encode', 'to_base_n(%d)' %
                             num, utils.to_base_n, num, base=len(alphabet),
                             alphabet=alphabet)
                back = _real('c15.uniqueid.basen-decode', 'from_base_n(%r)' %
                             text, utils.from_base_n, text,
                             base=len(alphabet), alphabet=alphabet)
                padded = '{identifier:>013s}'.format(identifier=text)
                back_padded = _real(
                    'c15.uniqueid.basen-decode', 'from_base_n(%r)' % padded,
                    utils.from_base_n, padded, base=62, alphabet=alphabet)
            else:
                text = _real('c15.uniqueid.basen-encode', 'to_base_n(%d)' %
                             num, utils.to_base_n, num)
                back = _real('c15.uniqueid.basen-decode', 'from_base_n(%r)' %
                             text, utils.from_base_n, text)
                back_padded = back
            if back != num or back_padded != num:
                raise Violation(
                    'c15.uniqueid.basen-roundtrip',
                    '%d -> %r (base %d) -> %d' % (num, text, base, back))
            if alphabet and (len(text) > 13 or
                             any(c not in B62 for c in text)):
                raise Violation(
                    'c15.uniqueid.basen-width',
                    '%d < 2**77 prints as %r (%d chars)' %
                    (num, text, len(text)))
            encs.append(text)
        stats.count('uniqueid:basen-' + case['alphabet'])
        if case['n'] != case['n2']:
            stats.count('uniqueid:pair-distinct')
            if encs[0] == encs[1]:
                raise Violation(
                    'c15.uniqueid.collision',
                    '%d and %d both print as %r' %
                    (case['n'], case['n2'], encs[0]))
        small = case['n'] < 62 ** 12
        if small:
            stats.count('uniqueid:needs-padding')
        return small or case['n'] >= 2 ** 76

    # gen_uniqueid / eventfile_unique_name over a generated os.stat
    table, seeds, ids = {}, [], []
    files = []
    for idx, val in enumerate((case['a'], case['b'])):
        path = '/tmp/c15-%d/%s' % (idx, val['instance'])
        ctime = val['ctime_ns'] / 1e9
        table[path] = (ctime, val['ino'])
        files.append((path, ctime, val))
    real_os = appcfg.os
    appcfg.os = _OsShim(table)
    try:
        for path, ctime, val in files:
            uid = _real('c15.uniqueid.gen', 'gen_uniqueid(%s)' % _short(val),
                        appcfg.gen_uniqueid, path)
            uname = _real('c15.uniqueid.gen', 'eventfile_unique_name(%s)' %
                          _short(val), appcfg.eventfile_unique_name, path)
            if not isinstance(uid, str) or len(uid) != 13 or any(c not in B62 for c in uid):
                raise Violation(
                    'c15.uniqueid.not-13-chars',
                    'gen_uniqueid(%s) = %r' % (_short(val), uid))
            if uname[-14:] != '-' + uid or \
                    _real('c15.name.decode', 'app_name(%r)' % uname,
                          appcfg.app_name, uname) != val['instance'] or \
                    _real('c15.name.decode', 'app_unique_id(%r)' % uname,
                          appcfg.app_unique_id, uname) != uid:
                raise Violation(
                    'c15.uniqueid.eventfile-name',
                    'event file %r -> %r does not split back into '
                    '(%r, %r)' % (val['instance'], uname, val['instance'],
                                  uid))
            number = _real('c15.uniqueid.basen-decode',
                           'from_base_n(%r)' % uid, utils.from_base_n, uid,
                           base=62, alphabet=B62)
            if number != _b62_value(uid) or number >= 2 ** 77:
                raise Violation(
                    'c15.uniqueid.range',
                    'id %r decodes to %d' % (uid, number))
            seeds.append(_seed_of(ctime, val['ino'],
                                  val['instance'].rsplit('#', 1)[1]))
            ids.append(uid)
    finally:
        appcfg.os = real_os
    stats.count('uniqueid:gen')
    if seeds[0] != seeds[1]:
        stats.count('uniqueid:pair-distinct')
        if ids[0] == ids[1]:
            raise Violation(
                'c15.uniqueid.collision',
                'event files %s and %s (distinct 77-bit seeds) share id %r' %
                (_short(case['a']), _short(case['b']), ids[0]))
    elif ids[0] != ids[1]:
        raise Violation(
            'c15.uniqueid.unstable',
            'equal seeds, different ids %r / %r' % (ids[0], ids[1]))
    else:
        stats.count('uniqueid:pair-same-seed')
    return True


# ---------------------------------------------------------------------------
# trace events <-> trace node names
# ---------------------------------------------------------------------------

APP_TYPES = ('scheduled', 'pending', 'pending_delete', 'configured',
             'deleted', 'finished', 'aborted', 'killed', 'service_running',
             'service_exited')
SRV_TYPES = ('server_state', 'server_blackout', 'server_blackout_cleared')

ABORTED_WHY = ['unknown', 'unsupported', 'invalid_type', 'keytabs', 'tickets',
               'scheduler', 'ports', 'presence', 'image', 'pid1', 'GMSA',
               'timeout', 'pivot_root', 'feature', 'None']


@cached
def _service_name():
    """app.json#/service/name"""
    return st.one_of(
        _txt(WORD_DASH + '.', 1, 12),
        _pick('docker', 'web.1', 'a.b.c', 'sshd', '1.2', '0.0',
                         'x.', '.x', '..', 'svc-1.2.3'),
    )


@cached
def _exit_code():
    return st.one_of(_pick(0, 1, 127, 255, 256),
                     _ints(0, 256))


@cached
def _reschedule_why():
    """Master.reschedule: '' | <server>:down | <server>:frozen | ..."""
    return st.one_of(
        st.just(''),
        st.builds(lambda h, s: h + ':' + s, _hostname(),
                  _pick('down', 'frozen')),
        _pick('blacklisted', 'evicted'),
    )


@cached
@st.composite
def app_event_value(draw, etype=None):
    etype = etype or draw(_pick(*APP_TYPES))
    val = {
        'type': etype,
        'instanceid': draw(_instance_id()),
        'host': draw(_hostname()),
        'when_us': draw(_one_of(
            _ints(0, 2 * 10 ** 15),
            _ints(1537776000 * 10 ** 6, 1537776100 * 10 ** 6))),
        'style': 'post',
    }
    if etype == 'scheduled':
        # Master.init_schedule passes why=None, Master.reschedule a string
        val['where'] = draw(_hostname())
        val['why'] = draw(_one_of(_NONE, _reschedule_why(),
                                  _reschedule_why()))
    elif etype == 'pending':
        val['why'] = draw(_one_of(
            _reschedule_why(),
            _just('created'),
            _suffixed(_user(), ':created')))
    elif etype == 'pending_delete':
        val['why'] = draw(_one_of(
            _just('deleted'), _suffixed(_user(), ':deleted')))
    elif etype == 'configured':
        val['uniqueid'] = draw(_uniqueid())
    elif etype == 'finished':
        val['rc'] = draw(_exit_code())
        val['signal'] = draw(_exit_code())
    elif etype == 'aborted':
        val['why'] = draw(_pick(*ABORTED_WHY))
    elif etype == 'killed':
        val['is_oom'] = draw(_pick(True, True, True, False))
    elif etype == 'service_running':
        val['uniqueid'] = draw(_uniqueid())
        val['service'] = draw(_service_name())
        val['style'] = draw(_pick('post', 's6'))
    elif etype == 'service_exited':
        val['uniqueid'] = draw(_uniqueid())
        val['service'] = draw(_service_name())
        val['rc'] = draw(_exit_code())
        val['signal'] = draw(_exit_code())
        val['style'] = draw(_pick('post', 's6'))
    return val


@cached
@st.composite
def app_event_case(draw):
    first = draw(app_event_value())
    second = near(draw, app_event_value(etype=first['type'])
                  if draw(_ints(0, 3)) else app_event_value(),
                  first, keep=('type',),
                  envelope=('instanceid', 'host', 'when_us'))
    return {'codec': 'appevent', 'pipeline': draw(_ints(0, 2)) == 0,
            'a': first, 'b': second}


@cached
@st.composite
def srv_event_value(draw):
    etype = draw(_pick(*SRV_TYPES))
    val = {
        'type': etype,
        'servername': draw(_hostname()),
        'host': draw(_hostname()),
        'when_us': draw(_ints(0, 2 * 10 ** 15)),
        'style': 'post',
    }
    if etype == 'server_state':
        val['state'] = draw(_pick('up', 'down', 'frozen'))
    return val


@cached
@st.composite
def srv_event_case(draw):
    first = draw(srv_event_value())
    return {'codec': 'srvevent', 'pipeline': draw(_ints(0, 2)) == 0,
            'a': first,
            'b': near(draw, srv_event_value(), first, keep=('type',),
                      envelope=('servername', 'host', 'when_us'))}


_EVENT_FIELDS = {
    'scheduled': ('where', 'why'),
    'pending': ('why',),
    'pending_delete': ('why',),
    'configured': ('uniqueid',),
    'deleted': (),
    'finished': ('rc', 'signal'),
    'aborted': ('why',),
    'killed': ('is_oom',),
    'service_running': ('uniqueid', 'service'),
    'service_exited': ('uniqueid', 'service', 'rc', 'signal'),
    'server_state': ('state',),
    'server_blackout': (),
    'server_blackout_cleared': (),
}
# optional strings: to_data documents that a missing value is written as ''
_OPTIONAL_STR = ('why',)


def _when_str(val):
    when = val['when_us'] / 1e6
    if val.get('style') == 's6':
        # templates/s6.run / s6.finish: printf "%014.3f" of `date +%s.%3N`
        return '%014.3f' % (val['when_us'] // 1000 / 1e3)
    return str(when)


def build_event(val, server=False):
    """The event object exactly as the producer constructs it (no timestamp,
    no source: those are added by trace.post / publish)."""
    if server:
        from treadmill.trace.server import events
        cls = events.ServerTraceEventTypes[val['type']].value
        kwargs = {'servername': val['servername']}
    else:
        from treadmill.trace.app import events
        cls = events.AppTraceEventTypes[val['type']].value
        kwargs = {'instanceid': val['instanceid']}
    for field in _EVENT_FIELDS[val['type']]:
        kwargs[field] = val[field]
    return cls(**kwargs)


def _event_key(val, server):
    """What a reader of the trace must get back."""
    fields = []
    for field in _EVENT_FIELDS[val['type']]:
        value = val[field]
        if field in _OPTIONAL_STR and value is None:
            value = ''
        fields.append((field, value))
    return (val['type'], val['servername' if server else 'instanceid'],
            float(_when_str(val)), val['host'], tuple(fields))


def _decoded_key(event, etype, server):
    fields = []
    for field in _EVENT_FIELDS[etype]:
        value = getattr(event, field)
        if field in _OPTIONAL_STR and value is None:
            value = ''
        fields.append((field, value))
    return (event.event_type,
            event.servername if server else event.instanceid,
            event.timestamp, event.source, tuple(fields))


def _encode_event_pure(val, server):
    """to_data + the two format strings of publish / zknamespace."""
    from treadmill import zknamespace as z
    tag = 'srvevent' if server else 'appevent'
    event = _real('c15.%s.%s.encode' % (tag, val['type'].replace('_', '-')),
                  'constructing %s' % _short(val), build_event, val, server)
    _ts, _src, what, etype, data, _payload = _real(
        'c15.%s.%s.encode' % (tag, val['type'].replace('_', '-')),
        'to_data of %s' % _short(val), event.to_data)
    node = '%s,%s,%s,%s' % (_when_str(val), val['host'], etype, data)
    if server:
        path = z.path.server_trace(what, node)
    else:
        path = z.path.trace(what, node)
    return path.rsplit('/', 1)[1]


def _decode_event_pure(name, server):
    """TraceLoop._process_events: split(',') then from_data."""
    parts = tuple(name.split(','))
    if len(parts) != 5:
        return None
    what, timestamp, source, etype, data = parts
    if server:
        from treadmill.trace.server import events
        return events.ServerTraceEvent.from_data(
            timestamp=timestamp, source=source, servername=what,
            event_type=etype, event_data=data)
    from treadmill.trace.app import events
    return events.AppTraceEvent.from_data(
        timestamp=timestamp, source=source, instanceid=what,
        event_type=etype, event_data=data)


class _CaptureZk(object):
    """Write-only ZooKeeper stand-in: remembers created paths and data."""

    def __init__(self):
        self.nodes = {}

    def make_servers_acl(self):
        return 'servers-acl'

    def make_default_acl(self, acls):
        return acls

    def create(self, path, value=b'', acl=None, makepath=False,
               sequence=False, ephemeral=False):
        import kazoo.exceptions
        if path in self.nodes:
            raise kazoo.exceptions.NodeExistsError()
        self.nodes[path] = value
        return path

    def set(self, path, value):
        self.nodes[path] = value

    def set_acls(self, path, acl):
        pass

    def get(self, path, watch=None):
        import kazoo.exceptions
        if path not in self.nodes:
            raise kazoo.exceptions.NoNodeError()
        return self.nodes[path], None

    def exists(self, path, watch=None):
        return path in self.nodes

    def delete(self, path):
        self.nodes.pop(path, None)


class _Clock(object):
    def __init__(self, now):
        self.now = now

    def time(self):
        return self.now


class _Capture(object):
    def __init__(self):
        self.events = []

    def process(self, event, ctx=None):
        self.events.append(event)


def _pipeline_events(vals, server):
    """The real path: trace.post -> events dir -> EventsPublisher._on_created
    -> publish -> trace node -> TraceLoop._process_events -> handler."""
    from treadmill import trace
    from treadmill.trace import events_publisher
    from treadmill.trace.app import zk as app_zk
    from treadmill.trace.server import zk as server_zk

    zkmod = server_zk if server else app_zk
    loop_cls = zkmod.ServerTraceLoop if server else zkmod.AppTraceLoop
    root = tempfile.mkdtemp(prefix='c15-events-')
    real_time, real_host = trace.time, zkmod._HOSTNAME
    decoded = []
    try:
        for val in vals:
            zkclient = _CaptureZk()
            events_dir = os.path.join(root, 'events')
            trace.time = _Clock(val['when_us'] / 1e6)
            zkmod._HOSTNAME = val['host']
            trace.post(events_dir, build_event(val, server))
            files = [f for f in os.listdir(events_dir)
                     if not f.startswith('.')]
            assert len(files) == 1, files
            publisher = object.__new__(events_publisher.EventsPublisher)
            publisher._zkclient = zkclient
            events_publisher.EventsPublisher._on_created.__wrapped__(
                publisher, os.path.join(events_dir, files[0]),
                zkmod.publish)
            from treadmill import zknamespace as z
            root_node = (z.SERVER_TRACE if server else z.TRACE) + '/'
            nodes = [p.rsplit('/', 1)[1] for p in zkclient.nodes
                     if p.startswith(root_node)]
            what = val['servername' if server else 'instanceid']
            loop = object.__new__(loop_cls)
            loop._zkclient = zkclient
            loop._object_name = what
            loop._event_handler = _Capture()
            loop._last_event = None
            loop._process_events(nodes, None)
            decoded.append((nodes, loop._event_handler.events))
    finally:
        trace.time = real_time
        zkmod._HOSTNAME = real_host
        shutil.rmtree(root, ignore_errors=True)
    return decoded


def _check_events(case, stats, server):
    tag = 'srvevent' if server else 'appevent'
    vals = [case['a']] + ([case['b']] if case.get('b') else [])
    names, keys = [], []
    nontrivial = False
    for val in vals:
        etype = val['type']
        want = _event_key(val, server)
        name = _encode_event_pure(val, server)
        event = _decode_event_pure(name, server)
        _judge_event(tag, val, want, name, event, server, 'name')
        names.append(name)
        keys.append(want)
        stats.count('%s:%s' % (tag, etype))
        flags = _event_flags(val)
        for flag in flags:
            stats.count('%s:%s' % (tag, flag))
        nontrivial = nontrivial or bool(flags)
    if len(vals) == 2:
        if keys[0] != keys[1]:
            stats.count(tag + ':pair-distinct')
            if names[0] == names[1]:
                raise Violation(
                    'c15.%s.collision' % tag,
                    'distinct events %s and %s share the node name %r' %
                    (_short(vals[0]), _short(vals[1]), names[0]))
    if case.get('pipeline'):
        posted = [v for v in vals if v.get('style') != 's6']
        for val, (nodes, events) in zip(posted, _real(
                'c15.%s.pipeline' % tag, 'post/publish/read of %s' %
                _short(posted), _pipeline_events, posted, server)):
            want = _event_key(val, server)
            if len(nodes) != 1:
                raise Violation(
                    'c15.%s.pipeline-nodes' % tag,
                    'event %s published as %r' % (_short(val), nodes))
            _judge_event(tag, val, want, nodes[0],
                         events[0] if len(events) == 1 else None, server,
                         'pipeline')
            stats.count(tag + ':pipeline')
    return nontrivial


def _judge_event(tag, val, want, name, event, server, how):
    etype = val['type']
    if event is None:
        raise Violation(
            'c15.%s.%s.not-decodable' % (tag, etype.replace('_', '-')),
            'event %s is written as node %r which the trace reader '
            'drops (%s)' % (_short(val), name, how))
    got = _decoded_key(event, etype, server)
    if got == want:
        return
    bucket = 'c15.%s.%s.roundtrip' % (tag, etype.replace('_', '-'))
    if etype == 'scheduled' and val.get('why') is None and \
            dict(got[4]).get('why') == 'None':
        bucket = 'c15.appevent.scheduled-why-none'
    raise Violation(
        bucket,
        'event %s is written as node %r and read back as %r (%s)' %
        (_short(val), name, got, how))


def _event_flags(val):
    flags = []
    if val.get('why') is None and 'why' in val:
        flags.append('why-none')
    if val.get('why') == '':
        flags.append('why-empty')
    if val.get('why') and ':' in val['why']:
        flags.append('colon-in-why')
    if '.' in (val.get('service') or ''):
        flags.append('dot-in-service')
    if any(val.get(k) in (0, 255, 256) for k in ('rc', 'signal')):
        flags.append('boundary-rc')
    if val['type'] in ('deleted', 'server_blackout',
                       'server_blackout_cleared'):
        flags.append('empty-data')
    if val['type'] == 'killed':
        flags.append('oom' if val['is_oom'] else 'not-oom')
    if val['type'] == 'server_state':
        flags.append('state-' + val['state'])
    return flags


def check_appevent(case, stats):
    return _check_events(case, stats, server=False)


def check_srvevent(case, stats):
    return _check_events(case, stats, server=True)


# ---------------------------------------------------------------------------
# dict / list <-> ZooKeeper payload
# ---------------------------------------------------------------------------

@cached
def _json_values():
    leaf = st.one_of(
        _NONE, _BOOL,
        _ints(-2 ** 63, 2 ** 64),
        _pick(0, 1, -1, 2 ** 53 + 1),
        st.floats(allow_nan=False, allow_infinity=False),
        _pick(0.0, -0.0, 1e-320, 1.5, 1e308, 0.1 + 0.2,
                         1537776000.123457),
        _txt(FREE, 0, 8),
        st.text(max_size=6),
        _pick('', '1', 'true', 'null', '{}', '[]', 'a: b',
                         '- x', '%s#%010d' % ('proid.app', 7)),
    )
    keys = st.one_of(_txt(WORD_DASH + '.#', 0, 8), st.text(max_size=4),
                     _pick('state', 'when', 'host', 'data',
                                      'since', 'expires', 'identity'))
    return st.recursive(
        leaf,
        lambda kids: st.one_of(
            st.lists(kids, max_size=4),
            st.dictionaries(keys, kids, max_size=4)),
        max_leaves=12)


@cached
def _json_container():
    values = _json_values()
    keys = st.one_of(_txt(WORD_DASH + '.#', 0, 8), st.text(max_size=4))
    return st.one_of(st.dictionaries(keys, values, max_size=5),
                     st.dictionaries(keys, values, max_size=5),
                     st.lists(values, max_size=5))


@cached
@st.composite
def zk_payload_case(draw):
    first = draw(_json_container())
    mode = draw(_pick('indep', 'indep', 'same', 'same', 'tweak', 'tweak',
                      'listvar'))
    if mode == 'indep':
        second = draw(_json_container())
    elif mode == 'same':
        second = copy.deepcopy(first)
    elif mode == 'listvar':
        # same payload but for the multiplicity / order of one list
        second = _list_variant(draw, first)
    else:
        second = copy.deepcopy(first)
        extra = draw(_json_values())
        if isinstance(second, dict):
            keys = sorted(second) or ['k']
            second[keys[draw(_ints(0, len(keys) - 1))]] = extra
        else:
            second.append(extra)
    opname = draw(_pick('put', 'create', 'update', 'put-over',
                        'put-rewrite', 'update-rewrite'))
    case = {'codec': 'zkpayload', 'op': opname, 'a': first, 'b': second}
    if opname in _ZK_REWRITE_OPS:
        # the node already holds an object (written by the same API) that
        # is close to the one written now: what is read back after the
        # write must not depend on what was there before
        case['hist_a'] = _zk_history(draw, first)
        case['hist_b'] = _zk_history(draw, second)
    return case


_ZK_REWRITE_OPS = ('put-rewrite', 'update-rewrite')


def _retyped(value, how):
    """The values of the other JSON number / boolean types that Python
    ``==`` identifies with ``value`` (True == 1 == 1.0, False == 0 == 0.0,
    10 == 10.0), or () if there is none."""
    out = []
    if isinstance(value, bool):
        out = [int(value), float(value)]
    elif isinstance(value, int):
        if value in (0, 1):
            out.append(bool(value))
        try:
            if float(value) == value:
                out.append(float(value))
        except OverflowError:
            pass
    elif isinstance(value, float):
        if value == value and value not in (float('inf'), float('-inf')) \
                and int(value) == value:
            out.append(int(value))
            if value in (0.0, 1.0):
                out.append(bool(value))
    return out[how % len(out)] if out else None


def _retypable_leaves(obj, path=()):
    found = []
    if isinstance(obj, dict):
        for key in sorted(obj):
            found.extend(_retypable_leaves(obj[key], path + (key,)))
    elif isinstance(obj, list):
        for idx, item in enumerate(obj):
            found.extend(_retypable_leaves(item, path + (idx,)))
    elif _retyped(obj, 0) is not None and path:
        found.append(path)
    return found


def _type_variant(draw, obj):
    """A copy of ``obj`` that is equal to it under Python ``==`` but has
    another bool / int / float type at one or more leaves (any depth);
    None if ``obj`` has no such leaf."""
    out = copy.deepcopy(obj)
    paths = _retypable_leaves(out)
    if not paths:
        return None
    count = draw(_pick(1, 1, 1, 2, len(paths)))
    start = draw(_ints(0, len(paths) - 1))
    for off in range(min(count, len(paths))):
        path = paths[(start + off) % len(paths)]
        target = out
        for step in path[:-1]:
            target = target[step]
        target[path[-1]] = _retyped(target[path[-1]], draw(_ints(0, 1)))
    return out


def _zk_history(draw, val):
    """What the node held before ``val`` is written over it: one or two
    earlier objects, the last of them the same object, the same object with
    other key order, an ``==``-equal object of other leaf types, the object
    but for one value, or an unrelated one."""
    hist = []
    if draw(_ints(0, 3)) == 0:
        hist.append(draw(_json_container()))
    mode = draw(_pick('retype', 'retype', 'retype', 'same', 'reorder',
                      'tweak', 'indep'))
    prev = None
    if mode == 'retype':
        prev = _type_variant(draw, val)
        if prev is None:
            # no bool / number leaf: give both sides one
            leaf = draw(_pick(0, 1, False, True, 0.0, 1.0, 10, 10.0, -3))
            if isinstance(val, dict):
                keys = sorted(val) or ['k']
                val[keys[draw(_ints(0, len(keys) - 1))]] = leaf
            else:
                val.append(leaf)
            prev = _type_variant(draw, val)
    elif mode == 'same':
        prev = copy.deepcopy(val)
    elif mode == 'reorder':
        prev = _reordered(copy.deepcopy(val))
    elif mode == 'tweak':
        prev = copy.deepcopy(val)
        extra = draw(_json_values())
        if isinstance(prev, dict):
            keys = sorted(prev) or ['k']
            prev[keys[draw(_ints(0, len(keys) - 1))]] = extra
        else:
            prev.append(extra)
    else:
        prev = draw(_json_container())
    hist.append(prev)
    return hist


def _reordered(obj):
    """Equal value, reversed dict insertion order."""
    if isinstance(obj, dict):
        return {k: _reordered(obj[k]) for k in reversed(list(obj))}
    if isinstance(obj, list):
        return [_reordered(v) for v in obj]
    return obj


def _zk_write(zkclient, opname, path, obj, hist=()):
    from treadmill import zkutils
    if opname in _ZK_REWRITE_OPS:
        # the node's history: created by put, then every later object is
        # written the way the masterapi / cellsync / loader writers do
        for num, earlier in enumerate(list(hist) + [obj]):
            if num == 0:
                zkutils.put(zkclient, path, copy.deepcopy(earlier))
            elif opname == 'put-rewrite':
                zkutils.put(zkclient, path, copy.deepcopy(earlier),
                            check_content=True)
            else:
                zkutils.update(zkclient, path, copy.deepcopy(earlier),
                               check_content=True)
    elif opname == 'put':
        zkutils.put(zkclient, path, obj)
    elif opname == 'create':
        zkutils.create(zkclient, path, obj)
    elif opname == 'update':
        zkclient.nodes[path] = b'old'
        zkutils.update(zkclient, path, obj)
    else:
        zkclient.nodes[path] = b'{"old": 1}'
        zkutils.put(zkclient, path, obj, check_content=True)


def _depth(obj):
    if isinstance(obj, dict):
        return 1 + max([_depth(v) for v in obj.values()] or [0])
    if isinstance(obj, list):
        return 1 + max([_depth(v) for v in obj] or [0])
    return 0


def _has(obj, pred):
    if pred(obj):
        return True
    if isinstance(obj, dict):
        return any(_has(v, pred) or pred(k) for k, v in obj.items())
    if isinstance(obj, list):
        return any(_has(v, pred) for v in obj)
    return False


def check_zkpayload(case, stats):
    from treadmill import zkutils
    vals = [case['a'], case['b']]
    raws = []
    nontrivial = False
    for idx, val in enumerate(vals):
        zkclient = _CaptureZk()
        path = '/c15/node-%d' % idx
        hist = case.get('hist_' + 'ab'[idx]) or []
        _real('c15.zkpayload.encode', '%s(%s)' % (case['op'], _short(val)),
              _zk_write, zkclient, case['op'], path, copy.deepcopy(val),
              hist)
        raw = zkclient.nodes[path]
        back, _meta = _real('c15.zkpayload.decode', 'get(%r) for %s' %
                            (raw[:200], _short(val)),
                            zkutils.get_with_metadata, zkclient, path)
        if not same(back, val):
            if case['op'] in _ZK_REWRITE_OPS and hist:
                fresh = _CaptureZk()
                _zk_write(fresh, 'put', path, copy.deepcopy(val))
                if same(zkutils.get(fresh, path), val):
                    # the codec is fine on a fresh node: what is read back
                    # depends on what the node held before the write
                    kind = ('stale-equal-value' if back == val
                            else 'stale')
                    raise Violation(
                        'c15.zkpayload.rewrite-roundtrip.' + kind,
                        '%s(%s, check_content=True) over a node holding '
                        '%s leaves %r which reads back as %s' %
                        (case['op'].split('-')[0], _short(val),
                         _short(hist[-1]), raw[:200], _short(back)))
            raise Violation(
                'c15.zkpayload.roundtrip',
                '%s(%s) stores %r which reads back as %s' %
                (case['op'], _short(val), raw[:200], _short(back)))
        if case['op'] in _ZK_REWRITE_OPS and hist:
            prev = hist[-1]
            if same(prev, val):
                stats.count('zkpayload:rewrite-identical')
            elif prev == val:
                stats.count('zkpayload:rewrite-retyped')
                nontrivial = True
            else:
                stats.count('zkpayload:rewrite-changed')
        other = _CaptureZk()
        _zk_write(other, case['op'], path, _reordered(val), hist)
        if other.nodes[path] != raw:
            raise Violation(
                'c15.zkpayload.not-canonical',
                'the same object %s has two payloads %r / %r (key order)' %
                (_short(val), raw[:120], other.nodes[path][:120]))
        raws.append(raw)
        stats.count('zkpayload:' + type(val).__name__)
        deep = _depth(val) >= 2
        empty = _has(val, lambda v: v == [] or v == {})
        nonascii = _has(val, lambda v: isinstance(v, str) and
                        any(ord(c) > 127 for c in v))
        floats = _has(val, lambda v: isinstance(v, float))
        for flag, on in (('nested', deep), ('empty-container', empty),
                         ('non-ascii', nonascii), ('float', floats)):
            if on:
                stats.count('zkpayload:' + flag)
        nontrivial = nontrivial or deep or empty or nonascii or floats
    stats.count('zkpayload:op-' + case['op'])
    if not same(vals[0], vals[1]):
        stats.count('zkpayload:pair-distinct')
        if raws[0] == raws[1]:
            raise Violation(
                'c15.zkpayload.collision',
                'distinct objects %s and %s share the payload %r' %
                (_short(vals[0]), _short(vals[1]), raws[0][:200]))
    return nontrivial


# ---------------------------------------------------------------------------
# admin objects <-> LDAP entries
# ---------------------------------------------------------------------------

def _maybe(draw, obj, key, strat, none_ok=True):
    """absent / None (= 'clear this attribute') / value."""
    pick = draw(_ints(0, 9))
    if pick < 3:
        return
    if pick == 3 and none_ok:
        obj[key] = None
        return
    obj[key] = draw(strat)


def _count(draw, big_ok=True):
    """List sizes: mostly 0-3, sometimes across the hex index boundary."""
    pick = draw(_ints(0, 11))
    if pick <= 1 and big_ok:
        return draw(_ints(15, 20))
    if pick <= 2:
        return 0
    return draw(_ints(1, 4))


def _uniq(draw, strat, size):
    return draw(_ulist(strat, size, size))


@cached
def _cpu():
    return _ints(0, 6400).map(lambda n: '%d%%' % n)


@cached
def _size():
    return st.builds(lambda n, u: '%d%s' % (n, u), _ints(0, 4096),
                     st.sampled_from('KMG'))


@cached
def _interval():
    return st.builds(lambda n, u: '%d%s' % (n, u), _ints(0, 999),
                     st.sampled_from('smhd'))


@cached
def _text1(maxlen=10):
    return _txt(FREE, 1, maxlen).filter(lambda s: s.strip() == s)


@cached
def _json_small():
    leaf = st.one_of(_NONE, _BOOL, _ints(-10, 10 ** 12),
                     st.floats(allow_nan=False, allow_infinity=False,
                               width=32),
                     _txt(FREE, 0, 6))
    return st.dictionaries(
        _txt(WORD_DASH, 1, 6),
        st.recursive(leaf, lambda kids: st.one_of(
            st.lists(kids, max_size=3),
            st.dictionaries(_txt(WORD_DASH, 1, 5), kids, max_size=3)),
            max_leaves=6),
        max_size=4)


@cached
def _joined(fmt, *strats):
    return st.builds(lambda *parts: fmt % parts, *strats)


@cached
def _arg():
    """One element of the command line of a docker app (app.json `args`: any
    string; runtime/docker passes the list on as the container command)."""
    return _one_of(_text1(), _pick('-v', '--env', 'A=1', 'B=2', '--publish',
                                   '80', '443', '0', '1', '--', '-'))


@cached
def _ticket():
    return _joined('%s@%s', _txt(WORD_DASH, 1, 5), _txt(WORD + '.', 1, 8))


@cached
def _keytab():
    return _joined('%s#%s@%s', _txt(WORD_DASH, 1, 5),
                   _txt(WORD_DASH + '.', 1, 6), _txt(WORD + '.', 1, 6))


@cached
def _ephemeral():
    return st.one_of(
        st.just({}),
        st.fixed_dictionaries({}, optional={
            'tcp': _ints(0, 1024), 'udp': _ints(0, 1024)}))


@cached
def _max_util():
    return st.one_of(
        st.floats(0, 100, allow_nan=False), _ints(0, 100),
        _pick(0.1 + 0.2, 1 / 3.0, 99.99999999999999))


@cached
def _assign_pattern():
    return _joined('%s.%s', _txt(WORD_DASH, 2, 6),
                   _one_of(_just('*'), _txt(WORD_DASH + '.*', 1, 8)))


@cached
def _tenant():
    return st.lists(_txt(WORD, 1, 6), min_size=1, max_size=3).map(':'.join)


@cached
@st.composite
def ldap_app_value(draw, multi=False):
    """``multi``: plain lists may carry a value more than once (entry-level
    round trips); the modify-list codecs keep unique values because the
    directory they model stores the values of one attribute as a set."""
    # one object in four has lists with repeated values
    lst = _mlist if multi and draw(_ints(0, 3)) == 0 else _ulist
    obj = {}
    if draw(_ints(0, 4)) == 0:
        obj['_id'] = draw(_app_id())
    for key in ('cpu',):
        _maybe(draw, obj, key, _cpu())
    for key in ('memory', 'disk'):
        _maybe(draw, obj, key, _size())
    _maybe(draw, obj, 'image', _pick(
        'native:', 'docker://repo/img:1.0', 'http://host/x.tar',
        'file:///a/b c'))
    _maybe(draw, obj, 'command', _text1(20))
    _maybe(draw, obj, 'args', lst(_arg(), 0, 4))
    _maybe(draw, obj, 'tickets', lst(_ticket()))
    _maybe(draw, obj, 'keytabs', lst(_keytab()))
    _maybe(draw, obj, 'features', lst(_txt(WORD_DASH, 1, 6)))
    _maybe(draw, obj, 'identity_group', _joined(
        '%s.%s', _txt(WORD_DASH, 1, 6), _txt(WORD_DASH, 1, 6)))
    for key in ('shared_ip', 'shared_network', 'schedule_once'):
        _maybe(draw, obj, key, _BOOL)
    _maybe(draw, obj, 'passthrough',
           lst(_one_of(_hostname(), _ip())))
    _maybe(draw, obj, 'ephemeral_ports', _ephemeral(), none_ok=False)
    _maybe(draw, obj, 'data_retention_timeout', _interval())
    _maybe(draw, obj, 'lease', _interval())
    _maybe(draw, obj, 'traits', lst(_txt(WORD_DASH, 1, 6)))

    big = draw(_pick('services', 'endpoints', 'environ', None, None))

    if draw(_ints(0, 9)) > 1:
        names = _uniq(draw, _service_name(),
                      _count(draw, big_ok=(big == 'services')))
        services = []
        for name in names:
            svc = {'name': name}
            if draw(_BOOL):
                svc['command'] = draw(_text1(16))
            else:
                svc['image'] = draw(_pick('docker://x', 'repo/img:tag'))
                if draw(_BOOL):
                    svc['command'] = draw(_text1(8))
            _maybe(draw, svc, 'useshell', _BOOL, none_ok=False)
            _maybe(draw, svc, 'root', _BOOL, none_ok=False)
            pick = draw(_ints(0, 3))
            if pick == 1:
                svc['restart'] = {'limit': draw(_ints(0, 10))}
            elif pick >= 2:
                svc['restart'] = {'limit': draw(_ints(0, 10)),
                                  'interval': draw(_ints(30, 600))}
            services.append(svc)
        obj['services'] = services

    if draw(_ints(0, 9)) > 2:
        names = _uniq(draw, _txt(WORD_DASH, 1, 8),
                      _count(draw, big_ok=(big == 'endpoints')))
        endpoints = []
        for name in names:
            endp = {'name': name, 'port': draw(_port())}
            _maybe(draw, endp, 'proto', _pick('tcp', 'udp'))
            _maybe(draw, endp, 'type', _just('infra'))
            endpoints.append(endp)
        obj['endpoints'] = endpoints

    if draw(_ints(0, 9)) > 2:
        names = _uniq(draw, _txt(WORD, 1, 8),
                      _count(draw, big_ok=(big == 'environ')))
        obj['environ'] = [
            {'name': name, 'value': draw(_text1(12))} for name in names]

    if draw(_ints(0, 9)) > 4:
        levels = draw(_ulist(_pick('bunker', 'pod', 'rack', 'server'), 0, 4))
        obj['affinity_limits'] = {
            level: draw(_ints(1, 100)) for level in levels}

    if draw(_ints(0, 9)) > 5:
        patterns = _uniq(draw, _text1(10), draw(_ints(0, 3)))
        obj['vring'] = {
            'cells': draw(lst(_txt(LOWER_HOST + '-', 1, 6))),
            'rules': [
                {'pattern': pat,
                 'endpoints': draw(lst(_txt(WORD_DASH, 1, 6), 1, 3))}
                for pat in patterns],
        }

    if CLAIM_UNPERSISTED_APP_FIELDS and draw(_ints(0, 5)) == 0:
        if draw(_BOOL):
            obj['archive'] = draw(_ulist(_text1(), 1, 2))
        else:
            obj['affinity'] = draw(_app_id())
    return obj


@cached
@st.composite
def ldap_cellalloc_value(draw, multi=False):
    # one object in four has lists with repeated values
    lst = _mlist if multi and draw(_ints(0, 3)) == 0 else _ulist
    obj = {}
    _maybe(draw, obj, 'cpu', _cpu())
    _maybe(draw, obj, 'memory', _size())
    _maybe(draw, obj, 'disk', _size())
    _maybe(draw, obj, 'max_utilization', _max_util())
    _maybe(draw, obj, 'rank', _ints(0, 100))
    _maybe(draw, obj, 'rank_adjustment', _ints(0, 100))
    _maybe(draw, obj, 'traits', lst(_txt(WORD_DASH, 1, 6)))
    _maybe(draw, obj, 'partition', _one_of(
        _just('_default'), _txt(WORD_DASH, 1, 8)))
    if draw(_ints(0, 9)) > 2:
        patterns = _uniq(draw, _assign_pattern(), _count(draw))
        obj['assignments'] = [
            {'pattern': pat, 'priority': draw(_ints(0, 100))}
            for pat in patterns]
    tenant = draw(_tenant())
    return {
        'obj': obj,
        'cell': draw(_txt(LOWER_HOST + '-', 1, 8)),
        'alloc': tenant + '/' + draw(_txt(WORD, 1, 8)),
    }


@cached
@st.composite
def ldap_partition_value(draw, multi=False):
    # one object in four has lists with repeated values
    lst = _mlist if multi and draw(_ints(0, 3)) == 0 else _ulist
    obj = {}
    if draw(_ints(0, 3)) == 0:
        obj['_id'] = draw(_txt(WORD_DASH, 1, 8))
    _maybe(draw, obj, 'cpu', _cpu())
    _maybe(draw, obj, 'memory', _size())
    _maybe(draw, obj, 'disk', _size())
    _maybe(draw, obj, 'systems', lst(_ints(0, 10 ** 6), 0, 4))
    _maybe(draw, obj, 'down-threshold', _ints(0, 1000))
    _maybe(draw, obj, 'reboot-schedule', _pick(
        'sat,sun/02:00', 'mon/00:00:00', 'tue,thu'))
    _maybe(draw, obj, 'data', _json_small())
    if draw(_ints(0, 9)) > 2:
        traits = _uniq(draw, _txt(WORD_DASH, 1, 6), _count(draw))
        limits = []
        for trait in traits:
            # cli/admin/ldap/partition.py `limit` always writes all four
            limits.append({'trait': trait, 'cpu': draw(_cpu()),
                           'disk': draw(_size()), 'memory': draw(_size())})
        obj['limits'] = limits
    return {
        'obj': obj,
        'partition': draw(_txt(WORD_DASH, 1, 8)),
        'cell': draw(_txt(LOWER_HOST + '-', 1, 8)),
    }


def _scalar_lists(obj, path=()):
    """Paths of the non-empty lists of scalars inside ``obj`` (plain list
    attributes, vring cells, the endpoints of every vring rule, ...)."""
    found = []
    if isinstance(obj, dict):
        for key in sorted(obj):
            found.extend(_scalar_lists(obj[key], path + (key,)))
    elif isinstance(obj, list) and obj:
        if all(not isinstance(item, (dict, list)) for item in obj):
            found.append(path)
        else:
            for idx, item in enumerate(obj):
                found.extend(_scalar_lists(item, path + (idx,)))
    return found


def _list_variant(draw, obj):
    """A copy of ``obj`` in which ONE list of scalars differs only in the
    multiplicity or the order of its values: one value once more, one
    occurrence less, two different values swapped.  The two objects are
    different, so their encodings have to be."""
    out = copy.deepcopy(obj)
    paths = _scalar_lists(out)
    if not paths:
        return out
    target = out
    for step in paths[draw(_ints(0, len(paths) - 1))]:
        target = target[step]
    src = draw(_ints(0, len(target) - 1))
    pos = draw(_ints(0, len(target)))
    oper = draw(_pick('dup', 'dup', 'drop', 'swap'))
    if oper == 'swap' and pos < len(target) and target[pos] != target[src]:
        target[src], target[pos] = target[pos], target[src]
    elif oper == 'drop' and len(target) > 1:
        del target[src]
    else:
        target.insert(pos, target[src])
    return out


def _ldap_pair(draw, strat, inner=None, listvar=False):
    first = draw(strat)
    modes = ('mix', 'mix', 'same', 'indep', 'none')
    if listvar:
        modes += ('listvar',)
    mode = draw(_pick(*modes))
    if mode == 'none':
        return first, None
    if mode == 'same':
        return first, copy.deepcopy(first)
    if mode == 'listvar':
        second = copy.deepcopy(first)
        if inner:
            second[inner] = _list_variant(draw, first[inner])
        else:
            second = _list_variant(draw, first)
        return first, second
    second = draw(strat)
    if mode == 'mix':
        src_a = first[inner] if inner else first
        src_b = second[inner] if inner else second
        mixed = {}
        for key in sorted(set(src_a) | set(src_b)):
            src = src_a if draw(_ints(0, 5)) > 0 else src_b
            if key in src:
                mixed[key] = copy.deepcopy(src[key])
        if inner:
            second = copy.deepcopy(first)
            second[inner] = mixed
        else:
            second = mixed
    return first, second


@cached
@st.composite
def ldap_app_case(draw):
    first, second = _ldap_pair(draw, ldap_app_value(True), listvar=True)
    return {'codec': 'ldap_app',
            'via': draw(_pick('direct', 'server')),
            'a': first, 'b': second}


@cached
@st.composite
def ldap_cellalloc_case(draw):
    first, second = _ldap_pair(draw, ldap_cellalloc_value(True), 'obj',
                               listvar=True)
    return {'codec': 'ldap_cellalloc',
            'via': draw(_pick('direct', 'server')),
            'a': first, 'b': second}


@cached
@st.composite
def ldap_partition_case(draw):
    first, second = _ldap_pair(draw, ldap_partition_value(True), 'obj',
                               listvar=True)
    return {'codec': 'ldap_partition',
            'via': draw(_pick('direct', 'server')),
            'a': first, 'b': second}


_ADMIN = {}


def _ldap_obj(kind):
    """Schema object with no connection, as tests/admin_test.py builds it."""
    from treadmill.admin import _ldap
    if kind not in _ADMIN:
        admin = _ldap.Admin(None, 'dc=xx,dc=com')
        _ADMIN[kind] = {
            'app': _ldap.Application,
            'cellalloc': _ldap.CellAllocation,
            'partition': _ldap.Partition,
        }[kind](admin)
    return _ADMIN[kind]


def ldap_str(value):
    """How a directory server hands a stored value back."""
    if value is True:
        return 'TRUE'
    if value is False:
        return 'FALSE'
    return str(value)


def server_normalise(entry):
    """What a search returns for an entry that was added: attributes without
    values do not exist, every value is a string."""
    out = {}
    for attr, values in entry.items():
        kept = [ldap_str(v) for v in values if v is not None]
        if kept:
            out[attr] = kept
    return out


def _drop_empty(obj):
    return {k: v for k, v in obj.items()
            if v is not None and v != [] and v != {}}


def _by(key, items):
    return sorted(items, key=lambda item: json.dumps(
        [item.get(key), item], sort_keys=True, default=repr))


def norm_app(obj):
    """Canonical form of an app dict: missing == None == empty container,
    documented defaults filled in, keyed sub-object lists ordered by key."""
    obj = copy.deepcopy(obj)
    out = _drop_empty(obj)
    ports = obj.get('ephemeral_ports') or {}
    out['ephemeral_ports'] = {'tcp': ports.get('tcp') or 0,
                              'udp': ports.get('udp') or 0}
    services = []
    for svc in obj.get('services') or []:
        svc = _drop_empty(svc)
        restart = {'limit': 5, 'interval': 60}
        restart.update(svc.get('restart') or {})
        svc['restart'] = restart
        services.append(svc)
    if services:
        out['services'] = _by('name', services)
    for key in ('endpoints', 'environ'):
        if obj.get(key):
            out[key] = _by('name', [_drop_empty(i) for i in obj[key]])
    vring = obj.get('vring')
    out.pop('vring', None)
    if vring and (vring.get('cells') or vring.get('rules')):
        out['vring'] = _drop_empty({
            'cells': list(vring.get('cells') or []),
            'rules': _by('pattern', [_drop_empty(r)
                                     for r in vring.get('rules') or []]),
        })
    return out


def norm_cellalloc(obj):
    obj = copy.deepcopy(obj)
    out = _drop_empty(obj)
    out.setdefault('cpu', '0%')
    out.setdefault('memory', '0G')
    out.setdefault('disk', '0G')
    out.setdefault('partition', '_default')
    if 'max_utilization' in out:
        out['max_utilization'] = float(out['max_utilization'])
    if obj.get('assignments'):
        out['assignments'] = _by('pattern', obj['assignments'])
    return out


def norm_partition(obj):
    obj = copy.deepcopy(obj)
    out = _drop_empty(obj)
    out.setdefault('cpu', '0%')
    out.setdefault('memory', '0G')
    out.setdefault('disk', '0G')
    if obj.get('limits'):
        out['limits'] = _by('trait', [_drop_empty(l) for l in obj['limits']])
    return out


_NORM = {'app': norm_app, 'cellalloc': norm_cellalloc,
         'partition': norm_partition}


def _ldap_roundtrip(kind, obj, via, dn=None):
    from treadmill.admin import _ldap
    ldap_obj = _ldap_obj(kind)
    entry = ldap_obj.to_entry(copy.deepcopy(obj))
    if via == 'server':
        stored = server_normalise(entry)
    else:
        # LdapObject.create: attributes without values are not sent
        stored = _ldap._remove_empty(entry)
    return entry, ldap_obj.from_entry(copy.deepcopy(stored), dn)


def _collapsed(obj):
    """``obj`` with every list of scalars reduced to the first occurrence of
    each of its values (order kept)."""
    if isinstance(obj, dict):
        return {key: _collapsed(value) for key, value in obj.items()}
    if isinstance(obj, list):
        if any(isinstance(item, (dict, list)) for item in obj):
            return [_collapsed(item) for item in obj]
        out = []
        for item in obj:
            if not any(same(item, seen) for seen in out):
                out.append(item)
        return out
    return obj


def _ldap_flags(obj, flags, depth=0):
    for key, value in obj.items():
        if value is None:
            flags.add('none-field')
        elif value == [] or value == {}:
            flags.add('empty-container')
        elif isinstance(value, list):
            if len(value) >= 17:
                flags.add('17plus-indexed')
            if len(_collapsed(value)) < len(value):
                flags.add('repeated-value')
                if depth:
                    # vring cells / endpoints of an option-indexed vring rule
                    flags.add('repeated-value-nested')
            for item in value:
                if isinstance(item, dict):
                    _ldap_flags(item, flags, depth + 1)
        elif isinstance(value, dict):
            _ldap_flags(value, flags, depth + 1)
    return flags


def _check_ldap(case, stats, kind):
    tag = 'ldap_' + kind
    norm = _NORM[kind]
    vals = [case['a']] + ([case['b']] if case.get('b') is not None else [])
    entries, normed = [], []
    flags = set()
    for val in vals:
        obj = val['obj'] if kind != 'app' else val
        dn = ident = None
        if kind == 'cellalloc':
            ldap_obj = _ldap_obj(kind)
            dn = ldap_obj.dn([val['cell'], val['alloc']])
            ident = '%s/%s' % (val['alloc'], val['cell'])
        elif kind == 'partition':
            ldap_obj = _ldap_obj(kind)
            dn = ldap_obj.dn([val['partition'], val['cell']])
        entry, back = _real(
            'c15.%s.roundtrip' % tag, 'to_entry/from_entry of %s (via %s)' %
            (_short(obj, 500), case['via']),
            _ldap_roundtrip, kind, obj, case['via'], dn)
        back = dict(back)
        if kind == 'cellalloc':
            if back.pop('_id', None) != ident:
                raise Violation(
                    'c15.ldap_cellalloc.dn-roundtrip',
                    'cell allocation %s in %s has dn %r which reads back '
                    'as id %r' % (val['alloc'], val['cell'], dn,
                                  ldap_obj.from_entry({}, dn).get('_id')))
        elif kind == 'partition':
            got = (back.pop('partition', None), back.pop('cell', None))
            if got != (val['partition'], val['cell']):
                raise Violation(
                    'c15.ldap_partition.dn-roundtrip',
                    'partition %r of cell %r has dn %r which reads back as '
                    '%r' % (val['partition'], val['cell'], dn, got))
        if kind == 'cellalloc' and \
                isinstance(obj.get('max_utilization'), (int, float)) and \
                not isinstance(back.get('max_utilization'), (int, float)):
            # written as a number, to be read as a number (the scheduler's
            # loader hands it to Allocation.update as is)
            raise Violation(
                'c15.ldap_cellalloc.roundtrip.max-utilization.type',
                'cell allocation %s: max_utilization %r reads back as %r' %
                (_short(obj, 300), obj.get('max_utilization'),
                 back.get('max_utilization')))
        want = norm(obj)
        got = norm(back)
        if not same(got, want):
            diff = sorted(k for k in set(got) | set(want)
                          if not same(got.get(k), want.get(k)))
            # the field differs in nothing but how often a value occurs
            # in one of its lists: multiset read back as another multiset
            what = diff[0].replace('_', '-')
            if same(_collapsed(got.get(diff[0])),
                    _collapsed(want.get(diff[0]))):
                what += '.multiplicity'
            raise Violation(
                'c15.%s.roundtrip.%s' % (tag, what),
                '%s %s -> entry -> %s (differs in %s, via %s)' %
                (kind, _short(obj, 500), _short(back, 500), diff,
                 case['via']))
        # second pass: what was read is itself stable
        _entry2, again = _real(
            'c15.%s.not-stable' % tag, 'to_entry/from_entry of %s' %
            _short(back, 500), _ldap_roundtrip, kind, back, case['via'],
            None)
        if not same(norm(again), got):
            raise Violation(
                'c15.%s.not-stable' % tag,
                '%s read back as %s re-encodes to %s' %
                (kind, _short(back, 500), _short(again, 500)))
        entries.append(entry)
        normed.append(want)
        _ldap_flags(obj, flags)
        stats.count('%s:via-%s' % (tag, case['via']))
    for flag in flags:
        stats.count('%s:%s' % (tag, flag))
    if len(vals) == 2:
        if not same(normed[0], normed[1]):
            stats.count(tag + ':pair-distinct')
            only_count = same(_collapsed(normed[0]), _collapsed(normed[1]))
            if only_count:
                stats.count(tag + ':pair-multiplicity-only')
            if server_normalise(entries[0]) == server_normalise(entries[1]):
                raise Violation(
                    'c15.%s.collision%s' % (
                        tag, '.multiplicity' if only_count else ''),
                    'distinct objects %s and %s are stored as the same '
                    'entry' % (_short(normed[0], 400),
                               _short(normed[1], 400)))
    return bool(flags)


def check_ldap_app(case, stats):
    return _check_ldap(case, stats, 'app')


def check_ldap_cellalloc(case, stats):
    return _check_ldap(case, stats, 'cellalloc')


def check_ldap_partition(case, stats):
    return _check_ldap(case, stats, 'partition')


# ---------------------------------------------------------------------------
# (old entry, new entry) -> modify list
# ---------------------------------------------------------------------------

_RAW_ATTRS = ('cpu', 'memory', 'trait', 'endpoint-name;tm-endpoint-0',
              'endpoint-port;tm-endpoint-0', 'endpoint-name;tm-endpoint-1',
              'service-name;tm-service-a', 'service-name;tm-service-10',
              'shared-ip', 'partition', 'data')


@cached
def _raw_values(new):
    elems = [_txt(WORD, 1, 3), _pick('a', 'b', 'c')]
    if new:
        elems.append(_BOOL)
    return st.lists(st.one_of(*elems), min_size=0 if new else 1, max_size=3,
                    unique_by=ldap_str)


@cached
@st.composite
def _raw_entry(draw, new):
    entry = {}
    for attr in draw(_ulist(_pick(*_RAW_ATTRS), 0, 6)):
        if not new and draw(_ints(0, 3)) == 0:
            attr = draw(_pick(attr.upper(), attr.title()))
        values = draw(_raw_values(new))
        if new and draw(_ints(0, 7)) == 0:
            values = values + [None]
        entry[attr] = values
    return entry


@cached
@st.composite
def diff_entries_case(draw):
    mode = draw(_pick('app', 'cellalloc', 'cellalloc', 'partition',
                      'partition', 'raw'))
    if mode == 'raw':
        return {'codec': 'diff_entries', 'mode': 'raw',
                'old': draw(_raw_entry(False)), 'new': draw(_raw_entry(True))}
    strat = {'app': ldap_app_value(), 'cellalloc': ldap_cellalloc_value(),
             'partition': ldap_partition_value()}[mode]
    inner = None if mode == 'app' else 'obj'
    first, second = _ldap_pair(draw, strat, inner)
    if second is None:
        second = draw(strat)
    if inner:
        # aim at the update that empties a list the stored record has
        for key in ('traits', 'systems'):
            if first[inner].get(key) and draw(_ints(0, 2)) == 0:
                second[inner][key] = []
    return {'codec': 'diff_entries', 'mode': mode,
            'old': first if inner is None else first['obj'],
            'new': second if inner is None else second['obj']}


def _canon_entry(entry):
    out = {}
    for attr, values in entry.items():
        kept = sorted(set(ldap_str(v) for v in values if v is not None))
        if kept:
            out[attr.lower()] = kept
    return out


def apply_modlist(old, diff):
    """Directory-server semantics of a modify request (RFC 4511 4.6)."""
    import ldap3
    state = {attr.lower(): [ldap_str(v) for v in values if v is not None]
             for attr, values in old.items()}
    state = {k: v for k, v in state.items() if v}
    for attr, ops in diff.items():
        key = attr.lower()
        for opcode, values in ops:
            values = [ldap_str(v) for v in values]
            if opcode == ldap3.MODIFY_ADD:
                if not values:
                    return 'add-without-values', attr
                current = state.get(key, [])
                if set(current) & set(values):
                    return 'add-existing-value', attr
                state[key] = current + values
            elif opcode == ldap3.MODIFY_REPLACE:
                if values:
                    state[key] = values
                else:
                    state.pop(key, None)
            elif opcode == ldap3.MODIFY_DELETE:
                if key not in state:
                    return 'delete-absent-attribute', attr
                if values:
                    if not set(values) <= set(state[key]):
                        return 'delete-absent-value', attr
                    state[key] = [v for v in state[key] if v not in values]
                    if not state[key]:
                        del state[key]
                else:
                    del state[key]
            else:
                return 'unknown-op', attr
    return None, {k: sorted(set(v)) for k, v in state.items()}


def check_diff_entries(case, stats):
    import ldap3
    from treadmill.admin import _ldap
    if case['mode'] == 'raw':
        old_entry = copy.deepcopy(case['old'])
        new_entry = copy.deepcopy(case['new'])
    else:
        ldap_obj = _ldap_obj(case['mode'])
        new_entry = ldap_obj.to_entry(copy.deepcopy(case['new']))
        stored = server_normalise(
            ldap_obj.to_entry(copy.deepcopy(case['old'])))
        # Admin.update reads back only the attributes named in new_entry
        # (a directory returns every option of a requested attribute)
        wanted = set(k.lower() for k in _ldap._entry_plain_keys(new_entry))
        old_entry = {attr: values for attr, values in stored.items()
                     if attr.split(';', 1)[0].lower() in wanted}
    diff = _real('c15.diff_entries', '_diff_entries(%s, %s)' %
                 (_short(old_entry, 400), _short(new_entry, 400)),
                 _ldap._diff_entries, copy.deepcopy(old_entry),
                 copy.deepcopy(new_entry))
    error, result = apply_modlist(old_entry, diff)
    if error:
        raise Violation(
            'c15.diff_entries.' + error,
            'old %s new %s: modify list %s is refused by a directory '
            '(%s on %r)' % (_short(old_entry, 400), _short(new_entry, 400),
                            _short(diff, 400), error, result))
    want = _canon_entry(new_entry)
    if result != want:
        bad = sorted(k for k in set(result) | set(want)
                     if result.get(k) != want.get(k))
        raise Violation(
            'c15.diff_entries.result',
            'old %s + diff %s = %s, wanted %s (differs in %s)' %
            (_short(old_entry, 400), _short(diff, 400), _short(result, 400),
             _short(want, 400), bad))
    kinds = set()
    for ops in diff.values():
        for opcode, _values in ops:
            kinds.add({ldap3.MODIFY_ADD: 'add', ldap3.MODIFY_REPLACE:
                       'replace', ldap3.MODIFY_DELETE: 'delete'}[opcode])
    for kind in kinds:
        stats.count('diff_entries:op-' + kind)
    if not diff:
        stats.count('diff_entries:empty-diff')
    stats.count('diff_entries:mode-' + case['mode'])
    if case['mode'] in UPDATED_KINDS:
        _check_update(case, stats)
    return len(kinds) >= 2


# to_entry writes an empty plain list as "attribute absent", which the update
# protocol reads as "leave unchanged": update({'traits': []}) keeps the old
# traits.  Entry-level round trips (to_entry/from_entry, _diff_entries) are
# not affected; set to False to only count it (see notes/C15-notes.md, 2).
CLAIM_UPDATE_EMPTY_LIST = os.environ.get('VERIF_C15_CLAIM_UPDATE', '0') != '0'

# the classes whose LdapObject.update has production callers
# (api/allocation.py reservation.update, cli/admin/ldap/{allocation,partition})
UPDATED_KINDS = ('cellalloc', 'partition')


def _sorted_lists(obj):
    return {k: (sorted(v, key=repr) if isinstance(v, list) and
                all(not isinstance(i, dict) for i in v) else v)
            for k, v in obj.items()}


def _check_update(case, stats):
    """Object level, through the real LdapObject.update -> Admin.update ->
    _diff_entries -> Admin.modify: every field that was written reads back."""
    from treadmill.admin import _ldap
    kind = case['mode']
    cls = {'cellalloc': _ldap.CellAllocation,
           'partition': _ldap.Partition}[kind]
    admin = _ldap.Admin(None, 'dc=xx,dc=com')
    ldap_obj = cls(admin)
    ident = ['cell1', 'tenant:sub/alloc'] if kind == 'cellalloc' \
        else ['part1', 'cell1']
    old, new = case['old'], case['new']
    # the record as LdapObject.create left it in the directory
    stored = server_normalise(
        _ldap._remove_empty(ldap_obj.to_entry(copy.deepcopy(old))))
    captured = []

    def fake_get(_dn, _query, attrs, paged_search=True, dirty=False):
        wanted = set(attr.lower() for attr in attrs)
        return {attr: list(values) for attr, values in stored.items()
                if attr.split(';', 1)[0].lower() in wanted}

    admin.get = fake_get
    admin.modify = lambda _dn, changes: captured.append(changes)
    _real('c15.ldap_update', 'update(%s) over %s' % (_short(new, 400),
                                                     _short(old, 400)),
          ldap_obj.update, ident, copy.deepcopy(new))
    assert len(captured) == 1, captured
    error, result = apply_modlist(stored, captured[0])
    if error:
        raise Violation(
            'c15.ldap_update.' + error,
            'update(%s) over %s sends %s, refused by a directory (%s on %r)'
            % (_short(new, 400), _short(old, 400), _short(captured[0], 400),
               error, result))
    norm = _NORM[kind]
    back = _real('c15.ldap_update', 'from_entry(%s)' % _short(result, 400),
                 ldap_obj.from_entry, copy.deepcopy(result), None)
    got = _sorted_lists(norm(back))
    want = _sorted_lists(norm(new))
    before = _sorted_lists(norm(old))
    for key in sorted(new):
        if key == '_id' or same(got.get(key), want.get(key)):
            continue
        if new[key] == [] and same(got.get(key), before.get(key)):
            if not CLAIM_UPDATE_EMPTY_LIST:
                stats.count('diff_entries:update-empty-list-kept')
                continue
            raise Violation(
                'c15.ldap_update.empty-list-not-cleared',
                '%s stored as %s, then update(%s): field %r was written as '
                '[] but still reads back as %r (modify list %s)' %
                (kind, _short(old, 300), _short(new, 300), key,
                 got.get(key), _short(captured[0], 300)))
        raise Violation(
            'c15.ldap_update.field.%s' % key.replace('_', '-'),
            '%s stored as %s, then update(%s): field %r reads back as %r, '
            'written %r' % (kind, _short(old, 300), _short(new, 300), key,
                            got.get(key), want.get(key)))
    stats.count('diff_entries:update-' + kind)
    if any(new[key] == [] and before.get(key) for key in new):
        stats.count('diff_entries:update-clears-list')


# ---------------------------------------------------------------------------
# decoder fuzz targets (byte / string level; cases come from atheris or seeds)
# ---------------------------------------------------------------------------

FUZZ_DECODERS = ('rule', 'name', 'basen', 'appevent', 'srvevent',
                 'zkpayload')


def fuzz_one(decoder, text, stats=None):
    """decode(text) either rejects (None / an exception: counted, C15 makes no
    claim about names Treadmill did not write), or the value it returns must
    survive being written and read again: decode(encode(decode(text))) ==
    decode(text).  Returns 'reject' / 'raises' / 'ok'."""
    try:
        return _fuzz_one(decoder, text)
    except _FirstDecodeRaised:
        return 'raises'


class _FirstDecodeRaised(Exception):
    pass


def _first(func, *args, **kwargs):
    try:
        return func(*args, **kwargs)
    except Exception:  # pylint: disable=broad-except
        raise _FirstDecodeRaised()


def _fuzz_one(decoder, text):
    from treadmill import appcfg
    from treadmill import rulefile
    from treadmill import utils
    from treadmill import zkutils

    def _bad(what, again):
        raise Violation(
            'c15.fuzz.%s.not-a-fixpoint' % decoder,
            '%r decodes to %s, which is written as %r and then read as %s' %
            (text, what[0], what[1], again))

    if decoder == 'rule':
        back = _first(rulefile.RuleMgr.get_rule, text)
        if back is None:
            return 'reject'
        key = rule_key(back[0], back[1])
        name = rulefile.RuleMgr._filenameify(back[0], back[1])
        again = rulefile.RuleMgr.get_rule(name)
        if again is None or rule_key(again[0], again[1]) != key:
            _bad((key, name), again and rule_key(again[0], again[1]))
        return 'ok'
    if decoder == 'name':
        if text.count('-') < 2:
            return 'reject'
        inst = _first(appcfg.app_name, text)
        uid = _first(appcfg.app_unique_id, text)
        if '#' not in inst or inst.count('#') != 1 or len(uid) != 13:
            return 'reject'
        name = appcfg.manifest_unique_name({'name': inst, 'uniqueid': uid})
        again = (appcfg.app_name(name), appcfg.app_unique_id(name))
        if again != (inst, uid):
            _bad(((inst, uid), name), again)
        return 'ok'
    if decoder == 'basen':
        try:
            num = utils.from_base_n(text, base=62, alphabet=B62)
        except ValueError:
            return 'reject'
        out = utils.to_base_n(num, base=62, alphabet=B62)
        again = utils.from_base_n(out, base=62, alphabet=B62)
        if again != num:
            _bad((num, out), again)
        return 'ok'
    if decoder in ('appevent', 'srvevent'):
        server = decoder == 'srvevent'
        event = _first(_decode_event_pure, text, server)
        if event is None:
            return 'reject'
        etype = event.event_type
        key = _decoded_key(event, etype, server)
        _ts, _src, what, etype2, data, _pl = event.to_data()
        name = '%s,%s,%s,%s,%s' % (what, text.split(',')[1], event.source,
                                   etype2, data)
        again = _decode_event_pure(name, server)
        if again is None or _decoded_key(again, etype, server) != key:
            _bad((key, name),
                 again and _decoded_key(again, etype, server))
        return 'ok'
    if decoder == 'zkpayload':
        zkclient = _CaptureZk()
        zkclient.nodes['/x'] = text.encode('utf-8', 'surrogatepass') \
            if isinstance(text, str) else text
        try:
            value = json.loads(zkclient.nodes['/x'].decode())
        except (ValueError, RecursionError):
            return 'reject'
        if not isinstance(value, (dict, list)):
            return 'reject'
        if _has(value, lambda v: isinstance(v, float) and
                (v != v or v in (float('inf'), float('-inf')))):
            return 'reject'
        zkutils.put(zkclient, '/y', value)
        again = zkutils.get(zkclient, '/y')
        if not same(again, value):
            _bad((_short(value), zkclient.nodes['/y'][:200]), _short(again))
        return 'ok'
    raise AssertionError('unknown decoder %r' % decoder)


def check_fuzz(case, stats):
    verdict = fuzz_one(case['decoder'], case['data'], stats)
    stats.count('fuzz:%s:%s' % (case['decoder'], verdict))
    return verdict == 'ok'


FUZZ_TOKENS = [
    ':dnat:', ':snat:', ':passthrough:', 'tcp', 'udp', ':*', '*:', '-', ':',
    '.', ',', '#', '0', '65535', '00', '1.2.3.4', 'TM_PASSTHROUGH',
    ',scheduled,', ',pending,', ',pending_delete,', ',configured,',
    ',deleted,', ',finished,', ',aborted,', ',killed,', ',service_running,',
    ',service_exited,', ',server_state,', ',server_blackout,',
    ',server_blackout_cleared,', 'oom', 'None', ':down', 'up', 'frozen',
    '{', '}', '[', ']', 'null', 'true', '1e5', '\\u00e9', '": ',
]

FUZZ_SEEDS = [
    ('rule', 'TM_PREROUTING_DNAT:dnat:tcp:*:*:10.0.0.1:08080-192.168.0.2:80'),
    ('rule', 'TM_POSTROUTING_SNAT:snat:udp:1.2.3.4:0:*:*-5.6.7.8:65535'),
    ('rule', 'TM_PASSTHROUGH:passthrough:1.2.3.4-5.6.7.8'),
    ('name', 'proid.a-b-0000000001-0000aBcDeFgH1'),
    ('basen', '000zZ'),
    ('appevent', 'p.a#0000000001,1537776000.1,host,scheduled,h1:h0:down'),
    ('appevent', 'p.a#0000000001,1537776000.1,host,service_exited,'
                 'u.web.1.2.3'),
    ('appevent', 'p.a#0000000001,001537776000.100,host,finished,0.0'),
    ('srvevent', 'h1.x,1537776000.1,master,server_state,frozen'),
    ('zkpayload', '{"b": [1, 2.5, null], "a": {"x": "\\u00e9"}}'),
]


# ---------------------------------------------------------------------------
# dispatch
# ---------------------------------------------------------------------------

CASE_STRATEGIES = {
    'rule': rule_case,
    'name': name_case,
    'uniqueid': uniqueid_case,
    'appevent': app_event_case,
    'srvevent': srv_event_case,
    'zkpayload': zk_payload_case,
    'ldap_app': ldap_app_case,
    'ldap_cellalloc': ldap_cellalloc_case,
    'ldap_partition': ldap_partition_case,
    'diff_entries': diff_entries_case,
}

CHECKS = {
    'rule': check_rule,
    'name': check_name,
    'uniqueid': check_uniqueid,
    'appevent': check_appevent,
    'srvevent': check_srvevent,
    'zkpayload': check_zkpayload,
    'ldap_app': check_ldap_app,
    'ldap_cellalloc': check_ldap_cellalloc,
    'ldap_partition': check_ldap_partition,
    'diff_entries': check_diff_entries,
    'fuzz': check_fuzz,
}


def any_case():
    """Every codec gets the same share of the generated cases."""
    return st.sampled_from(CODECS).flatmap(
        lambda codec: CASE_STRATEGIES[codec]())
