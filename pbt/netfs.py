"""E3, network half: the node's symlink databases (C14).

Four real components are driven on one real temporary directory:

    vip   treadmill.vipfile.VipMgr        <root>/vips/<ip>        -> ../apps/<owner>
    rule  treadmill.rulefile.RuleMgr      <root>/rules/<rule>     -> ../apps/<owner>
    ep    treadmill.endpoints.EndpointsMgr <root>/endpoints/<spec> -> <root>/apps/<owner>
    svc   services.network_service.NetworkResourceService
                                          <root>/svc/vips/<ip>    -> ../resources/<owner>
                                          <root>/svc/resources/<owner> -> <root>/apps/<owner>

Owners are container directories <root>/apps/<unique name> that appear and
disappear as ops.  Every component has a reference model `key -> owner`
(plain dicts) that is updated by rules written here, independent of the
implementation, and compared with the directory after every op.

A case is a JSON list of ops; every op carries a 'mgr' tag ('cfg', 'own',
'vip', 'rule', 'ep', 'svc').  See `Engine.apply`.
"""

import errno
import ipaddress
import os
import shutil
import stat
import tempfile

from pbt.run import Violation

# --------------------------------------------------------------------------
# Owners.  (proid.app, instance id, environment).  Slots 0 and 1 are two
# containers of the *same* instance (the old one still being cleaned up
# while the new one runs), so their endpoint specs share the appname.
SLOTS = (
    ('proid.web', 1, 'dev'),
    ('proid.web', 1, 'dev'),
    ('proid.web', 2, 'qa'),
    ('proid.db', 1, 'prod'),
    ('other.cache', 7, 'uat'),
)
NSLOTS = len(SLOTS)


def appname(slot):
    app, inst, _env = SLOTS[slot]
    return '%s#%010d' % (app, inst)


def unique_name(slot, gen):
    """appcfg.app_unique_name convention: <app>-<id>-<13 char [a-z0-9]>."""
    app, inst, _env = SLOTS[slot]
    return '%s-%010d-s%dg%03dzzzzzzz' % (app, inst, slot, gen)


# Owner names of the 'pid' naming scheme: node services (sproc/nodeinfo,
# tickets, keytabs) own their endpoint specs through <proc>/<pid>, a numeric
# name of any length.  The table holds names in proper suffix ('234' / '1234'
# / '51234'), prefix ('12' / '123' / '1234') and infix relations; a later
# generation of a slot is another process (base + gen * 10**6, so '1000234'
# again ends with '234').  Names are unique over (slot, generation).
PID_BASE = (234, 1234, 51234, 12, 123)
NAMINGS = ('uniq', 'pid')


def pid_name(slot, gen):
    return '%d' % (PID_BASE[slot] + 1000000 * gen)


def veth_names(uniq):
    uid = uniq.rsplit('-', 1)[1]
    return ('%13s.0' % uid).replace(' ', '0'), \
        ('%13s.1' % uid).replace(' ', '0')


# --------------------------------------------------------------------------
# Firewall rule pool: the shapes runtime/linux/_run.py and vring.py create.
# (chain, kind, kwargs, expected file name).  The file name is spelled out
# here, not computed with RuleMgr._filenameify.
EXT_IP = '10.1.1.1'
RULES = (
    ('TM_PREROUTING_DNAT', 'dnat',
     dict(proto='tcp', dst_ip=EXT_IP, dst_port=5000,
          new_ip='192.168.0.2', new_port=8000),
     'TM_PREROUTING_DNAT:dnat:tcp:*:*:10.1.1.1:5000-192.168.0.2:8000'),
    ('TM_POSTROUTING_SNAT', 'snat',
     dict(proto='tcp', src_ip='192.168.0.2', src_port=8000,
          new_ip=EXT_IP, new_port=5000),
     'TM_POSTROUTING_SNAT:snat:tcp:192.168.0.2:8000:*:*-10.1.1.1:5000'),
    ('TM_PREROUTING_DNAT', 'dnat',
     dict(proto='udp', dst_ip=EXT_IP, dst_port=5001,
          new_ip='192.168.0.3', new_port=53),
     'TM_PREROUTING_DNAT:dnat:udp:*:*:10.1.1.1:5001-192.168.0.3:53'),
    ('TM_PASSTHROUGH', 'passthrough',
     dict(src_ip='10.2.2.2', dst_ip='192.168.0.2'),
     'TM_PASSTHROUGH:passthrough:10.2.2.2-192.168.0.2'),
    ('TM_PREROUTING_VRING', 'dnat',
     dict(proto='tcp', src_ip='192.168.0.2', dst_ip='10.3.3.3',
          dst_port=8000, new_ip='10.3.3.3', new_port=45001),
     'TM_PREROUTING_VRING:dnat:tcp:192.168.0.2:*:10.3.3.3:8000-'
     '10.3.3.3:45001'),
    ('TM_POSTROUTING_VRING', 'snat',
     dict(proto='tcp', src_ip='10.3.3.3', src_port=45001,
          dst_ip='192.168.0.2', new_ip='10.3.3.3', new_port=8000),
     'TM_POSTROUTING_VRING:snat:tcp:10.3.3.3:45001:192.168.0.2:*-'
     '10.3.3.3:8000'),
)

# Endpoint spec pool: (proto, endpoint, real_port, pid, port); appname comes
# from the owner (runtime/linux/_run.py: appname=app.name, owner=<apps>/<uniq>)
SPECS = (
    ('tcp', 'http', 45000, '1234', 8000),
    ('tcp', 'http', 45000, '5678', 8000),
    ('tcp', 'ssh', 45001, '1234', 22),
    ('udp', 'dns', 45002, '1234', 53),
)


_RULE_INDEX = {one[3]: pos for pos, one in enumerate(RULES)}


def spec_key(slot, idx):
    proto, endpoint, real_port, pid, port = SPECS[idx]
    return '~'.join([appname(slot), proto, endpoint, str(real_port), pid,
                     str(port)])


# --------------------------------------------------------------------------
def read_links(path):
    """{entry: link target or None when the entry is not a symlink}."""
    out = {}
    for name in os.listdir(path):
        try:
            out[name] = os.readlink(os.path.join(path, name))
        except OSError:
            out[name] = None
    return out


class _Faulty(object):
    """Fault switch shared by the fakes: armed with a countdown k, the k-th
    faultable call made while the harness holds the window open (= inside
    on_create_request / on_delete_request) raises CalledProcessError once,
    as the real subprocess wrappers do when `ip` / `ipset` fail."""

    def __init__(self, subproc):
        self._subproc = subproc
        self.errors = 0      # every error answer given (injected or not)
        self.countdown = None
        self.window = False
        self.fired = None

    def _fault(self, name):
        if self.window and self.countdown is not None:
            self.countdown -= 1
            if self.countdown <= 0:
                self.countdown = None
                self.fired = name
                self.errors += 1
                raise self._subproc.CalledProcessError(1, [name])


class FakeNetdev(_Faulty):
    """In-memory stand-in for treadmill.netdev (kernel links + one bridge).

    State survives service restarts, like the kernel's.
    """

    def __init__(self, subproc):
        super(FakeNetdev, self).__init__(subproc)
        self.devs = {}       # name -> {'alias', 'mtu', 'peer'}
        self.bridge = []     # device names attached to br0, in order

    def _dev(self, name):
        if name in ('br0', 'tm0', 'tm1', 'eth0'):
            return {'alias': '', 'mtu': 9000, 'peer': None}
        try:
            return self.devs[name]
        except KeyError:
            self.errors += 1
            raise IOError(errno.ENOENT, 'No such device', name)

    def _cmd_dev(self, name, cmd):
        """Device lookup of an `ip`/`brctl` command (fails with exit 1)."""
        if name not in ('br0', 'tm0', 'tm1', 'eth0') and \
                name not in self.devs:
            self.errors += 1
            raise self._subproc.CalledProcessError(1, [cmd, name])
        return self._dev(name)

    # -- queries (sysfs reads)
    def dev_mtu(self, name):
        return self._dev(name)['mtu']

    def dev_speed(self, name):
        self._dev(name)
        return 10000

    def dev_alias(self, name):
        return self._dev(name)['alias']

    def dev_state(self, name):
        self._dev(name)
        return 'up'

    def dev_mac(self, _name):
        return '11:22:33:44:55:66'

    def bridge_brif(self, _bridge):
        return ['tm1'] + list(self.bridge)

    # -- commands
    def link_set_up(self, name):
        self._fault('link_set_up')
        self._cmd_dev(name, 'link_set_up')

    def link_set_down(self, name):
        self._cmd_dev(name, 'link_set_down')

    def bridge_setfd(self, _bridge, _fd):
        pass

    def dev_conf_route_localnet_set(self, _dev, _value):
        pass

    # -- veth pairs
    def link_add_veth(self, veth0, veth1):
        self._fault('link_add_veth')
        if veth0 in self.devs or veth1 in self.devs:
            self.errors += 1
            raise self._subproc.CalledProcessError(
                2, ['ip', 'link', 'add', veth0])
        self.devs[veth0] = {'alias': '', 'mtu': 1500, 'peer': veth1}
        self.devs[veth1] = {'alias': '', 'mtu': 1500, 'peer': veth0}

    def link_set_mtu(self, name, mtu):
        self._fault('link_set_mtu')
        self._cmd_dev(name, 'link_set_mtu')['mtu'] = mtu

    def link_set_alias(self, name, alias):
        self._fault('link_set_alias')
        self._cmd_dev(name, 'link_set_alias')['alias'] = alias

    def bridge_addif(self, _bridge, name):
        self._fault('bridge_addif')
        self._cmd_dev(name, 'bridge_addif')
        if name not in self.bridge:
            self.bridge.append(name)

    def link_del_veth(self, name):
        self._fault('link_del_veth')
        self._remove(name)

    def _remove(self, name):
        dev = self.devs.pop(name, None)
        if dev is None:
            self.errors += 1
            raise self._subproc.CalledProcessError(
                1, ['ip', 'link', 'delete', name])
        self.devs.pop(dev['peer'], None)
        for one in (name, dev['peer']):
            if one in self.bridge:
                self.bridge.remove(one)

    # -- harness side: the kernel destroys the pair with the container netns
    def vanish(self, veth0):
        if veth0 in self.devs:
            self._remove(veth0)
            return True
        return False


class FakeIptables(_Faulty):
    """In-memory stand-in for the ipset calls of treadmill.iptables."""

    def __init__(self, real, subproc):
        super(FakeIptables, self).__init__(subproc)
        self.SET_NONPROD_CONTAINERS = real.SET_NONPROD_CONTAINERS
        self.SET_PROD_CONTAINERS = real.SET_PROD_CONTAINERS
        self.sets = {}

    def create_set(self, new_set, set_type='hash:ip', **_options):
        self.sets.setdefault(new_set, set())

    def atomic_set(self, target_set, content, set_type='hash:ip', **_options):
        self.sets[target_set] = set(content)

    def add_ip_set(self, target_set, add_ip):
        self._fault('add_ip_set')
        self.sets[target_set].add(add_ip)

    def rm_ip_set(self, target_set, del_ip):
        self._fault('rm_ip_set')
        self.sets[target_set].discard(del_ip)

    def test_ip_set(self, target_set, test_ip):
        # (`ipset test` runs with use_except=False: it never raises)
        found = test_ip in self.sets[target_set]
        if found:
            self.errors += 1     # the caller is about to refuse the IP
        return found


# --------------------------------------------------------------------------
# file-system calls of a pass that count as preemption points (see OsProxy)
_TRACED = frozenset(['listdir', 'scandir', 'stat', 'lstat', 'readlink',
                     'unlink', 'remove', 'symlink', 'access'])


class _OsPathProxy(object):
    """os.path as the module under test sees it: the existence tests go
    through the proxied stat / lstat (as genericpath / posixpath do with the
    real ones)."""

    def __init__(self, osproxy):
        self._os = osproxy

    def __getattr__(self, name):
        return getattr(os.path, name)

    def _mode(self, path):
        try:
            return self._os.stat(path).st_mode
        except (OSError, ValueError):
            return None

    def _lmode(self, path):
        try:
            return self._os.lstat(path).st_mode
        except (OSError, ValueError):
            return None

    def exists(self, path):
        return self._mode(path) is not None

    def isdir(self, path):
        mode = self._mode(path)
        return mode is not None and stat.S_ISDIR(mode)

    def isfile(self, path):
        mode = self._mode(path)
        return mode is not None and stat.S_ISREG(mode)

    def lexists(self, path):
        return self._lmode(path) is not None

    def islink(self, path):
        mode = self._lmode(path)
        return mode is not None and stat.S_ISLNK(mode)


class OsProxy(object):
    """Stands for the name `os` inside one module under test.  Everything
    is the real os, except that

    * `stat` can be armed to fail once with a given errno at its k-th call
      while the harness holds the window open (= during one garbage_collect
      / initialize pass);
    * a *schedule* can be installed for one pass: every file-system call of
      the pass (_TRACED) is a preemption point, and right after the k-th
      one returned (or raised) a callback runs once - another process doing
      its own operations on the same directories between two system calls
      of the pass.  Calls made by the callback itself are not counted and
      cannot hit the stat fault."""

    def __init__(self):
        self.path = _OsPathProxy(self)
        self.countdown = None
        self.errno = None
        self.window = False
        self.fired = None
        self.sched = None

    def __getattr__(self, name):
        real = getattr(os, name)
        if self.sched is not None and name in _TRACED:
            return self._traced(real)
        return real

    def _traced(self, real):
        def _call(*args, **kwargs):
            try:
                return real(*args, **kwargs)
            finally:
                self._tick()
        return _call

    def _tick(self):
        sched = self.sched
        if sched is None or sched['busy']:
            return
        sched['calls'] += 1
        if sched['fn'] is not None and sched['calls'] == sched['k']:
            callback, sched['fn'] = sched['fn'], None
            window, self.window = self.window, False
            sched['busy'] = True
            try:
                callback()
            finally:
                sched['busy'] = False
                self.window = window

    def stat(self, path, *args, **kwargs):
        try:
            if self.window and self.countdown is not None:
                self.countdown -= 1
                if self.countdown <= 0:
                    self.countdown = None
                    self.fired = errno.errorcode[self.errno]
                    raise OSError(self.errno, os.strerror(self.errno), path)
            return os.stat(path, *args, **kwargs)
        finally:
            self._tick()

    def arm(self, code, k):
        self.errno = code
        self.countdown = max(1, k)
        self.fired = None
        self.window = True

    def disarm(self):
        fired, self.fired = self.fired, None
        self.countdown = None
        self.window = False
        return fired

    def schedule(self, k, callback):
        """Run `callback` once after the k-th (k >= 1) traced call made from
        now on; returns the schedule (its 'calls' counts the traced calls,
        its 'fn' is None once the callback ran)."""
        self.sched = {'k': max(1, k), 'calls': 0, 'fn': callback,
                      'busy': False}
        return self.sched

    def unschedule(self):
        self.sched = None


def scratch_base():
    """Where the per-case directory is made (and removed again when the case
    ends).  ext4 under /tmp costs ~20 ms per case in mkdir/rmdir alone, a
    tmpfs 0.5 ms; symlink/readlink/stat semantics are the same.  VERIF_TMP
    overrides; without a writable /dev/shm the default temp dir is used."""
    base = os.environ.get('VERIF_TMP')
    if base:
        return base
    if os.path.isdir('/dev/shm') and os.access('/dev/shm', os.W_OK | os.X_OK):
        return '/dev/shm'
    return None


DEFAULT_LAYOUT = {'root': 'real', 'apps': 'real', 'rules': 'real',
                  'endpoints': 'real', 'vips': 'real', 'svc': 'real'}
DEFAULT_CFG = {'mgr': 'cfg', 'cidr': '10.10.0.0/29', 'cidr2': None,
               'svc_cidr': None}


class Engine(object):
    """Interprets one op list against the real code and the model."""

    def __init__(self, cfg, stats):
        # pylint: disable=too-many-instance-attributes
        from treadmill import endpoints, rulefile, vipfile
        self._endpoints = endpoints
        self.stats = stats
        # `os` as seen by the three modules under test (stat faults)
        self.osp = {'vip': OsProxy(), 'rule': OsProxy(), 'ep': OsProxy()}
        self._os_patched = [(vipfile, vipfile.os), (rulefile, rulefile.os),
                            (endpoints, endpoints.os)]
        vipfile.os = self.osp['vip']
        rulefile.os = self.osp['rule']
        endpoints.os = self.osp['ep']
        self.fs_armed = {}               # comp -> (errno, k) for its next pass
        self.cfg = dict(DEFAULT_CFG)
        self.cfg.update(cfg or {})

        # Directory layout of the node (drawn in the case): the root and each
        # directory handed to a manager is a plain directory, a symlink to
        # a relocated directory, or sits below a symlinked parent.  The
        # managers always get the path an installation would configure (the
        # unresolved one).
        layout = dict(DEFAULT_LAYOUT)
        layout.update(self.cfg.get('layout') or {})
        self.layout = layout
        self.top = os.path.realpath(
            tempfile.mkdtemp(prefix='c14-', dir=scratch_base()))
        if layout['root'] == 'link':
            os.mkdir(os.path.join(self.top, 'real-node'))
            os.symlink('real-node', os.path.join(self.top, 'node'))
        else:
            os.mkdir(os.path.join(self.top, 'node'))
        self.root = os.path.join(self.top, 'node')
        self._rp_cache = {}
        self.apps = self._place('apps', layout['apps'])
        self.dirs = {
            'vip': self._place('vips', layout['vips'], create=False),
            'rule': self._place('rules', layout['rules']),
            'ep': self._place('endpoints', layout['endpoints'],
                              create=False),
        }
        self.svc_dir = self._place('svc', layout['svc'], create=False)
        self.dirs['svc'] = os.path.join(self.svc_dir, 'vips')
        self.svc_rsrc = os.path.join(self.svc_dir, 'resources')
        for kind in sorted(set(layout.values())):
            self.count('layout.%s' % kind)
        if any(kind != 'real' for kind in layout.values()):
            self.count('layout.cases-with-symlinks')

        # owners
        self.naming = self.cfg.get('naming') or 'uniq'
        if self.naming not in NAMINGS:
            raise ValueError('unknown naming %r' % (self.naming,))
        self.count('naming.%s' % self.naming)
        self.gen = [0] * NSLOTS          # current generation of each slot
        self.live = set()                # unique names whose dir exists
        self.seen = set()                # unique names that ever existed
        self.newest = None               # slot of the container started last
        self.race = None                 # state of a pass run with a schedule

        # reference models: key -> owner unique name
        self.model = {'vip': {}, 'rule': {}, 'ep': {}, 'svc': {}}
        self.ep_meta = {}                # spec key -> (slot, spec idx)

        # real managers
        self.nets = [ipaddress.IPv4Network(self.cfg['cidr'])]
        if self.cfg.get('cidr2'):
            self.nets.append(ipaddress.IPv4Network(self.cfg['cidr2']))
        self.pools = [
            vipfile.VipMgr(str(net), self.dirs['vip'], self.apps)
            for net in self.nets
        ]
        self.rules = rulefile.RuleMgr(self.dirs['rule'], self.apps)
        self.eps = endpoints.EndpointsMgr(self.dirs['ep'])

        # network service (created lazily by the first svc op)
        self.svc = None                  # running implementation object
        self.svc_started = False
        self.svc_req = {}                # unique name -> env (request links)
        self.svc_loose = set()           # held IPs the holder is not (or no
                                         # longer) entitled to, see _svc_create
        self.svc_done = set()            # owners whose delete failed
        self._windows = 0
        self.svc_net = ipaddress.IPv4Network(
            self.cfg.get('svc_cidr') or '192.168.0.0/16')
        self._svc_hosts = None
        self._patched = None
        self.netdev = None
        self.ipt = None

        # what the case reached (non-triviality rule)
        self.flags = {}

    # ------------------------------------------------------------------
    def _place(self, name, kind, create=True):
        """Build directory `name` of the node as `kind` says; returns the
        configured (unresolved) path.

        real      <root>/<name>
        link<d>   <root>/<name> -> <root>/vol/<name>.1/../<name>.<d>/<name>
        under<d>  <root>/mnt.<name>/<name>, <root>/mnt.<name> being a
                  symlink to a directory d levels below <root>/vol
        With create=False only the parent exists (the manager makes the
        directory itself, through the symlinked parent where there is one;
        for link<d> the relocated directory has to exist)."""
        given = os.path.join(self.root, name)
        if kind == 'real':
            if create:
                os.mkdir(given)
            return given
        depth = int(kind[-1])
        chain = os.path.join(self.root, 'vol', *[
            '%s.%d' % (name, level + 1) for level in range(depth)])
        os.makedirs(chain)
        if kind.startswith('link'):
            os.mkdir(os.path.join(chain, name))
            os.symlink(os.path.join(chain, name), given)
            return given
        parent = os.path.join(self.root, 'mnt.' + name)
        os.symlink(chain, parent)
        given = os.path.join(parent, name)
        if create:
            os.mkdir(given)
        return given

    def _real(self, path):
        """realpath, cached (the directories do not move during a case)."""
        try:
            return self._rp_cache[path]
        except KeyError:
            out = self._rp_cache[path] = os.path.realpath(path)
            return out

    def _denotes(self, comp, target):
        """Physical path of the owner file a link target names (the parent
        directory resolved, the last component kept: a request link is
        itself a symlink)."""
        if target is None:
            return None
        if not os.path.isabs(target):
            target = os.path.join(self._real(self.dirs[comp]), target)
        target = os.path.normpath(target)
        return os.path.join(self._real(os.path.dirname(target)),
                            os.path.basename(target))

    def close(self):
        for mod, real in self._os_patched:
            mod.os = real
        self._os_patched = []
        if self._patched is not None:
            mod, netdev, iptables = self._patched
            mod.netdev = netdev
            mod.iptables = iptables
            self._patched = None
        shutil.rmtree(self.top, ignore_errors=True)

    # ------------------------------------------------------------------
    def uname(self, slot, gen):
        """Name of the owner directory of (slot, generation) under the
        case's naming scheme: container unique name or process id."""
        if self.naming == 'pid':
            return pid_name(slot, gen)
        return unique_name(slot, gen)

    def owner_of(self, op):
        """Unique name the op acts as: the slot's current generation, or the
        previous one with 'old' (a finishing container of the same slot)."""
        slot = self.slot_of(op)
        gen = self.gen[slot]
        if op.get('old') and gen > 0 and not op.get('new'):
            gen -= 1
        return self.uname(slot, gen)

    def slot_of(self, op):
        """'new': true -> the op is issued by the container that started
        last (runtime/linux/_run.py: a starting container allocates its
        address, rules and endpoint specs right after its directory was
        made); otherwise the slot the op names."""
        if op.get('new') and self.newest is not None:
            return self.newest
        return op['o']

    def acting(self, comp, op, key):
        """'who': 'holder' -> act as whoever holds `key` (aimed at owner
        releases); otherwise the owner named by the op."""
        if op.get('who') == 'holder' and key in self.model[comp]:
            return self.model[comp][key]
        return self.owner_of(op)

    def count(self, key):
        self.stats.count(key)

    # ------------------------------------------------------------------
    def check(self, comp, opname, expected, hints=None, touched_by=None):
        """Directory of `comp` must equal `expected` (key -> owner)."""
        hints = hints or {}
        actual = read_links(self.dirs[comp]) \
            if os.path.isdir(self.dirs[comp]) else {}
        if comp == 'svc':
            owner_dir = self.svc_rsrc
        else:
            owner_dir = self.apps
        prefix = 'c14.%s.%s.' % (comp, opname)
        if touched_by:
            prefix = 'c14.%s.touched-by-%s.' % (comp, touched_by)
        for key in sorted(expected):
            if key not in actual:
                raise Violation(
                    prefix + hints.get('missing', 'lost-entry'),
                    '%s entry %r of owner %r disappeared; directory now %r'
                    % (comp, key, expected[key], sorted(actual)))
        for key in sorted(actual):
            if key not in expected:
                raise Violation(
                    prefix + hints.get('extra', 'unexpected-entry'),
                    '%s entry %r -> %r should not exist; model %r'
                    % (comp, key, actual[key], expected))
        for key in sorted(expected):
            target = actual[key]
            want = os.path.join(self._real(owner_dir), expected[key])
            got = self._denotes(comp, target)
            if got != want:
                named = None if target is None else os.path.basename(target)
                what = hints.get('changed', 'owner-changed') \
                    if named != expected[key] else 'link-misses-owner'
                raise Violation(
                    prefix + what,
                    '%s entry %r points to %r (= %r), the owner %r is %r; '
                    'layout %r' % (comp, key, target, got, expected[key],
                                   want, self.layout))

    def check_all(self, acting, opname, expected, hints=None):
        """Acting component against its new model, the others unchanged."""
        self.check(acting, opname, expected, hints)
        self.model[acting] = expected
        for comp in ('vip', 'rule', 'ep', 'svc'):
            if comp != acting:
                self.check(comp, opname, self.model[comp],
                           touched_by=acting)

    # ------------------------------------------------------------------
    def apply(self, op):
        mgr = op['mgr']
        self.count('ops.%s' % mgr)
        self.count('op.%s.%s' % (mgr, op['op']))
        if mgr == 'svc' and self.naming != 'uniq':
            # only containers request network resources (the service derives
            # the veth names from <app>-<id>-<uniq>); never drawn, no-op
            self.count('svc.skipped.not-a-container')
            return
        getattr(self, '_%s_%s' % (mgr, op['op']))(op)

    # ---- owners -------------------------------------------------------
    def _aimed_slot(self, op, want_live):
        """'sel': k-th slot whose current container is live and holds
        something (for down) / is not live (for up); else the op's slot."""
        if op.get('sel') is None:
            return op['o']
        holders = set()
        for model in self.model.values():
            holders.update(model.values())
        holders.update(self.svc_req)
        slots = []
        for slot in range(NSLOTS):
            cur = self.uname(slot, self.gen[slot])
            if want_live and cur in self.live and cur in holders:
                slots.append(slot)
            elif not want_live and cur not in self.live and \
                    (cur in self.seen or slot == op['o']):
                slots.append(slot)
        if not slots or (want_live and len(slots) < 2):
            # (an aimed down leaves the last live holder alone)
            return op['o']
        return slots[op['sel'] % len(slots)]

    def _own_up(self, op):
        slot = self._aimed_slot(op, False)
        cur = self.uname(slot, self.gen[slot])
        if cur in self.live:
            self.count('own.up.noop')
        else:
            ever = cur in self.seen
            if ever and op.get('fresh', True):
                self.gen[slot] += 1
                cur = self.uname(slot, self.gen[slot])
                self.count('own.up.new-generation')
            elif ever:
                self.count('own.up.resurrected')
            os.mkdir(os.path.join(self.apps, cur))
            self.seen.add(cur)
            self.live.add(cur)
            self.newest = slot
        self._unchanged('own')

    def _own_down(self, op):
        slot = self._aimed_slot(op, True)
        cur = self.uname(slot, self.gen[slot])
        if cur not in self.live:
            self.count('own.down.noop')
        else:
            shutil.rmtree(os.path.join(self.apps, cur))
            self.live.discard(cur)
            if op.get('veth') and self.netdev is not None:
                if self.netdev.vanish(veth_names(cur)[0]):
                    self.count('own.down.veth-vanished')
                    # its network namespace is gone: it no longer uses
                    # the address, the service may keep or reclaim it
                    self.svc_loose.update(
                        self._svc_holding(self.model['svc'], cur))
        self._unchanged('own')

    def _unchanged(self, acting):
        for comp in ('vip', 'rule', 'ep', 'svc'):
            self.check(comp, 'x', self.model[comp], touched_by=acting)

    def _dead_and_live(self, comp):
        owners = set(self.model[comp].values())
        return bool(owners & self.live) and bool(owners - self.live)

    def _gc_expected(self, comp):
        model = self.model[comp]
        if self._dead_and_live(comp):
            self.flags['gc_mixed'] = True
            self.count('gc.%s.mixed' % comp)
        elif model:
            self.count('gc.%s.all-%s' % (
                comp, 'live' if set(model.values()) <= self.live
                else 'dead'))
        else:
            self.count('gc.%s.empty' % comp)
        return {key: own for key, own in model.items() if own in self.live}

    _GC_HINTS = {'missing': 'reclaimed-live', 'extra': 'kept-dead'}

    def _contended(self, comp, kind):
        self.flags['contended'] = True
        self.count('contention.%s.%s' % (comp, kind))

    # ---- stat faults during collection passes ---------------------------
    _ERRNOS = {'EACCES': errno.EACCES, 'EIO': errno.EIO,
               'ESTALE': errno.ESTALE}

    def _fsfault(self, comp, op):
        """Arm os.stat (as the module of `comp` sees it) to fail once at the
        k-th call of that manager's next garbage_collect / initialize."""
        self.fs_armed[comp] = (self._ERRNOS[op['errno']], op['k'])
        self.count('fsfault.armed.%s' % comp)
        self._unchanged(comp)

    def _vip_fsfault(self, op):
        self._fsfault('vip', op)

    def _rule_fsfault(self, op):
        self._fsfault('rule', op)

    def _ep_fsfault(self, op):
        self._fsfault('ep', op)

    def _svc_fsfault(self, op):
        self._svc_boot()
        self._fsfault('svc', op)

    def _fs_arm(self, comp):
        """Open the fault window of a pass; returns the proxy if armed."""
        arm = self.fs_armed.pop(comp, None)
        if arm is None:
            return None
        proxy = self.osp['vip' if comp == 'svc' else comp]
        proxy.arm(*arm)
        return proxy

    def _fs_disarm(self, comp, proxy):
        if proxy is None:
            return None
        fired = proxy.disarm()
        if fired:
            self.count('fsfault.fired.%s.%s' % (comp, fired))
            self.flags['fsfault'] = True
        else:
            self.count('fsfault.not-reached.%s' % comp)
        return fired

    def _collect(self, comp, opname, call, expected, hints, race=None):
        """One garbage_collect / initialize pass.  `expected` is what a
        complete pass leaves.  A pass whose stat failed (it normally
        raises) may have removed any subset of what a complete pass removes
        - and nothing else: never an entry whose owner exists.

        `race` (a gcrace op): the pass runs with a schedule, see
        _race_open."""
        proxy = self._fs_arm(comp)
        state = self._race_open(comp, race) if race is not None else None
        fired = None
        try:
            try:
                call()
            finally:
                fired = self._fs_disarm(comp, proxy)
                if state is not None:
                    self.osp[comp].unschedule()
                    self.race = None
        except OSError:
            if not fired:
                raise
            self.count('fsfault.%s.pass-aborted' % comp)
        if state is not None:
            self._race_close(state, opname, hints, bool(fired))
            return
        if fired:
            # (a pass that swallows the error and leaves the entry it could
            # not look up is within the envelope as well)
            after = read_links(self.dirs[comp])
            expected = {
                key: own for key, own in self.model[comp].items()
                if key in expected or key in after
            }
        self.check_all(comp, opname, expected, hints)

    # ---- a collection pass and another process, interleaved --------------
    # The quantifier of C14 ranges over schedules: owners appear and
    # disappear "at arbitrary points", which includes the points between
    # two system calls of a collection pass (the firewall watcher, the
    # network service and `treadmill run` / `finish` of the containers are
    # separate processes working on the same directories).  A gcrace op
    # runs one garbage_collect() with every file-system call of the pass
    # as a possible preemption point; after the k-th one the burst of ops
    # in op['do'] (a container starting: directory + its entries; a
    # container finishing: releases + directory removed; other owners
    # creating / releasing) is executed, then the pass goes on.
    #
    # Verdict.  The pass can only observe the states between the bursts
    # (S0 = when it began, S1 = after the burst; 'more' adds further
    # bursts and states, the generator draws one).  For one key:
    #   must stay  - in every observable state the key was free or held by
    #                an owner whose directory existed in that state, and it
    #                is held in the last one: at no moment was there an
    #                entry "whose owner no longer exists", so reclaiming it
    #                is reclaiming something else (gcrace.reclaimed-live);
    #   must go    - held by the same owner in every observable state and
    #                that owner's directory existed in none of them
    #                (gcrace.kept-dead);
    #   either     - everything else (the owner disappeared or came back
    #                during the pass, the entry of a vanished owner changed
    #                hands): the pass may have looked before or after.
    _RACE_OPS = {
        'own': ('up', 'down'),
        'vip': ('alloc', 'free'),
        'rule': ('create', 'unlink'),
        'ep': ('create', 'unlink', 'unlink_all'),
    }

    def _race_open(self, comp, op):
        model = self.model[comp]
        dead = {key: own for key, own in model.items()
                if own not in self.live}
        state = {
            'comp': comp,
            'tainted': set(dead),    # held by a vanished owner at some point
            'drop': dict(dead),      # ... by the same one at every point
            'fired': 0,
        }
        # [(k, burst)]: the first burst after call #k of the pass, each
        # further one ('more') k calls after the previous burst
        queue = [(op.get('k', 1), op.get('do') or [])]
        for nxt in op.get('more') or []:
            queue.append((nxt.get('k', 1), nxt.get('do') or []))
        for _k, burst in queue:
            for one in burst:
                if one['mgr'] not in ('own', comp) or \
                        one['op'] not in self._RACE_OPS[one['mgr']]:
                    raise ValueError('op %r cannot run inside a %s pass'
                                     % (one, comp))
        state['queue'] = queue
        state['bursts'] = [burst for _k, burst in queue]
        state['sched'] = self.osp[comp].schedule(
            queue[0][0], lambda: self._race_burst(state))
        self.race = state
        self.count('race.%s.passes' % comp)
        return state

    def _race_reconcile(self, state):
        """Take out of the model what the pass has reclaimed so far; it may
        only have touched keys a vanished owner held at some point."""
        comp = state['comp']
        model = self.model[comp]
        actual = read_links(self.dirs[comp])
        kept = {}
        for key in sorted(model):
            if key in actual:
                kept[key] = model[key]
            elif key in state['tainted']:
                state['drop'].pop(key, None)
                self.count('race.%s.reclaimed-before-burst' % comp)
            else:
                raise Violation(
                    'c14.%s.gcrace.reclaimed-live' % comp,
                    '%s entry %r of owner %r (directory exists, and existed '
                    'whenever the entry did) was reclaimed by a collection '
                    'pass interleaved with %r (burst %d of them ran)'
                    % (comp, key, model[key], state['bursts'],
                       state['fired']))
        self.model[comp] = kept

    def _race_burst(self, state):
        """The other process runs (called from inside the pass)."""
        comp = state['comp']
        sched = state['sched']
        at_call, burst = state['queue'].pop(0)
        state['fired'] += 1
        self.flags['race'] = True
        self.count('race.%s.fired.k%d' % (comp, min(at_call, 9)))
        if state['fired'] > 1:
            self.count('race.%s.fired.second-burst' % comp)
        self._race_reconcile(state)
        for one in burst:
            self.apply(one)
        self._race_observe(state)
        if state['queue']:
            sched['calls'] = 0
            sched['k'] = max(1, state['queue'][0][0])
            sched['fn'] = lambda: self._race_burst(state)

    def _race_observe(self, state):
        """A new observable state: update what the pass may / must do."""
        model = self.model[state['comp']]
        for key, own in model.items():
            if own not in self.live:
                state['tainted'].add(key)
        for key, own in sorted(state['drop'].items()):
            if model.get(key) != own or own in self.live:
                del state['drop'][key]

    def _race_close(self, state, opname, hints, fs_fired):
        comp = state['comp']
        model = self.model[comp]
        actual = read_links(self.dirs[comp])
        expected = {}
        for key, own in model.items():
            if key in state['drop'] and not fs_fired:
                continue                       # must go
            if key in state['tainted'] and key not in actual:
                self.count('race.%s.either-reclaimed' % comp)
                continue                       # either
            if key in state['tainted'] and own in self.live:
                self.count('race.%s.either-kept' % comp)
            expected[key] = own                # must stay (or stayed)
        if state['fired'] and any(
                key not in state['tainted'] and key in expected
                for key in model):
            self.count('race.%s.live-entries-at-stake' % comp)
        self.check_all(comp, opname, expected, hints)
        for _k, burst in state['queue']:
            # the pass was over before that call: the other process runs
            # after it
            self.count('race.%s.not-reached' % comp)
            for one in burst:
                self.apply(one)

    # ---- VipMgr -------------------------------------------------------
    def _pool(self, op):
        idx = op.get('p', 0) % len(self.pools)
        return self.pools[idx], self.nets[idx]

    def _vip_alloc(self, op):
        pool, net = self._pool(op)
        owner = self.owner_of(op)
        model = self.model['vip']
        picked = op.get('ip')
        if op.get('sel') is not None:
            # aimed: ask for an address somebody holds
            picked = self._select_held('vip', op, picked or '10.10.0.1')
        expected = dict(model)
        if picked is None:
            hosts = [str(host) for host in net.hosts()]
            full = all(host in model for host in hosts)
            try:
                got = pool.alloc(owner)
            except Exception as err:  # pylint: disable=broad-except
                if not full:
                    raise Violation(
                        'c14.vip.alloc.spurious-failure',
                        'alloc(%r) failed (%r) although %r has free '
                        'addresses; held: %r' % (owner, err, str(net),
                                                 sorted(model)))
                self.count('vip.alloc.exhausted')
                self._contended('vip', 'exhausted')
            else:
                if got in model:
                    raise Violation(
                        'c14.vip.alloc.double-owner',
                        'alloc(%r) returned %r which is held by %r'
                        % (owner, got, model[got]))
                if ipaddress.ip_address(got) not in net:
                    raise Violation(
                        'c14.vip.alloc.outside-network',
                        'alloc(%r) returned %r, not in %s'
                        % (owner, got, net))
                expected[got] = owner
                self.count('vip.alloc.ok')
        else:
            inside = ipaddress.ip_address(picked) in net
            holder = model.get(picked)
            try:
                got = pool.alloc(owner, picked)
            except Exception as err:  # pylint: disable=broad-except
                if inside and holder is None:
                    raise Violation(
                        'c14.vip.alloc.spurious-failure',
                        'alloc(%r, %r) failed (%r) although the address is '
                        'free and inside %s' % (owner, picked, err, net))
                if not inside:
                    self.count('vip.alloc.picked.outside')
                elif holder == owner:
                    self.count('vip.alloc.picked.repeat')
                else:
                    self.count('vip.alloc.picked.refused')
                    self._contended('vip', 'picked')
            else:
                if not inside:
                    raise Violation(
                        'c14.vip.alloc.outside-network',
                        'alloc(%r, %r) succeeded, network is %s'
                        % (owner, picked, net))
                if holder is not None and holder != owner:
                    raise Violation(
                        'c14.vip.alloc.double-owner',
                        'alloc(%r, %r) succeeded while %r holds it'
                        % (owner, picked, holder))
                if got != picked:
                    raise Violation(
                        'c14.vip.alloc.wrong-address',
                        'alloc(%r, %r) returned %r' % (owner, picked, got))
                expected[picked] = owner
                self.count('vip.alloc.picked.ok')
        self.check_all('vip', 'alloc', expected,
                       {'changed': 'double-owner'})

    def _select_held(self, comp, op, fallback):
        """'sel': k-th held key (aimed), else the literal key of the op."""
        keys = sorted(self.model[comp])
        if op.get('sel') is not None and keys:
            return keys[op['sel'] % len(keys)]
        return fallback

    def _vip_free(self, op):
        pool, _net = self._pool(op)
        model = self.model['vip']
        addr = self._select_held('vip', op, op.get('ip') or '10.10.0.1')
        owner = self.acting('vip', op, addr)
        expected = dict(model)
        holder = model.get(addr)
        if holder == owner:
            del expected[addr]
            self.count('vip.free.owner')
        elif holder is None:
            self.count('vip.free.unallocated')
        else:
            self.count('vip.free.nonowner')
            self._contended('vip', 'free')
        pool.free(owner, addr)
        self.check_all('vip', 'free', expected,
                       {'missing': 'nonowner-released',
                        'extra': 'owner-release-ignored'})

    def _vip_gc(self, op):
        pool, _net = self._pool(op)
        expected = self._gc_expected('vip')
        self._collect('vip', 'gc', pool.garbage_collect, expected,
                      self._GC_HINTS)

    def _vip_gcrace(self, op):
        pool, _net = self._pool(op)
        self._gc_expected('vip')
        self._collect('vip', 'gcrace', pool.garbage_collect, None,
                      self._GC_HINTS, race=op)

    def _vip_init(self, op):
        pool, net = self._pool(op)
        expected = {
            key: own for key, own in self.model['vip'].items()
            if ipaddress.ip_address(key) not in net
        }
        self._collect('vip', 'init', pool.initialize, expected,
                      {'missing': 'removed-foreign', 'extra': 'kept'})

    # ---- RuleMgr ------------------------------------------------------
    def _rule(self, idx):
        from treadmill import firewall
        chain, kind, kwargs, fname = RULES[idx % len(RULES)]
        cls = {'dnat': firewall.DNATRule, 'snat': firewall.SNATRule,
               'passthrough': firewall.PassThroughRule}[kind]
        return chain, cls(**kwargs), fname

    def _rule_create(self, op):
        owner = self.owner_of(op)
        model = self.model['rule']
        idx = op.get('r', 0)
        if op.get('sel') is not None and model:
            idx = _RULE_INDEX[self._select_held('rule', op, None)]
        chain, rule, fname = self._rule(idx)
        holder = model.get(fname)
        expected = dict(model)
        try:
            self.rules.create_rule(chain=chain, rule=rule, owner=owner)
        except Exception as err:  # pylint: disable=broad-except
            if holder is None:
                raise Violation(
                    'c14.rule.create.spurious-failure',
                    'create_rule(%r, owner=%r) failed (%r) on a free rule'
                    % (fname, owner, err))
            if holder == owner:
                self.count('rule.create.repeat-refused')
            else:
                self.count('rule.create.refused')
                self._contended('rule', 'create')
        else:
            if holder is not None and holder != owner:
                raise Violation(
                    'c14.rule.create.double-owner',
                    'create_rule(%r, owner=%r) succeeded while %r holds it'
                    % (fname, owner, holder))
            self.count('rule.create.repeat' if holder else 'rule.create.ok')
            expected[fname] = owner
        self.check_all('rule', 'create', expected,
                       {'changed': 'double-owner'})

    def _rule_unlink(self, op):
        model = self.model['rule']
        idx = op.get('r', 0)
        if op.get('sel') is not None and model:
            idx = _RULE_INDEX[self._select_held('rule', op, None)]
        chain, rule, fname = self._rule(idx)
        owner = self.acting('rule', op, fname)
        holder = model.get(fname)
        expected = dict(model)
        if holder == owner:
            del expected[fname]
            self.count('rule.unlink.owner')
        elif holder is None:
            self.count('rule.unlink.absent')
        else:
            self.count('rule.unlink.nonowner')
            self._contended('rule', 'unlink')
        self.rules.unlink_rule(chain=chain, rule=rule, owner=owner)
        self.check_all('rule', 'unlink', expected,
                       {'missing': 'nonowner-released',
                        'extra': 'owner-release-ignored'})

    def _rule_gc(self, _op):
        expected = self._gc_expected('rule')
        self._collect('rule', 'gc', self.rules.garbage_collect, expected,
                      self._GC_HINTS)

    def _rule_gcrace(self, op):
        self._gc_expected('rule')
        self._collect('rule', 'gcrace', self.rules.garbage_collect, None,
                      self._GC_HINTS, race=op)

    def _rule_init(self, _op):
        self._collect('rule', 'init', self.rules.initialize, {},
                      {'extra': 'kept'})

    # ---- EndpointsMgr -------------------------------------------------
    def _ep_args(self, slot, idx):
        proto, endpoint, real_port, pid, port = SPECS[idx % len(SPECS)]
        return dict(appname=appname(slot), proto=proto, endpoint=endpoint,
                    real_port=real_port, pid=pid, port=port)

    def _ep_select(self, op):
        """(slot, spec index) the op is about.  With 'sel': the k-th held
        spec; 'who'='holder' may take any spec (the op then acts for the
        slot that spec belongs to), otherwise only specs carrying the
        appname of the op's own slot qualify."""
        slot, idx = self.slot_of(op), op.get('s', 0) % len(SPECS)
        model = self.model['ep']
        if op.get('sel') is not None and model:
            if op.get('who') == 'holder':
                keys = sorted(model)
            else:
                keys = sorted(key for key in model
                              if self.ep_meta[key][0] in _same_app(slot))
            if keys:
                kslot, idx = self.ep_meta[keys[op['sel'] % len(keys)]]
                if op.get('who') == 'holder':
                    slot = kslot
        return slot, idx

    def _ep_create(self, op):
        owner = self.owner_of(op)
        model = self.model['ep']
        _slot, idx = self._ep_select(op)
        mine = self.slot_of(op)
        key = spec_key(mine, idx)
        holder = model.get(key)
        expected = dict(model)
        try:
            self.eps.create_spec(owner=os.path.join(self.apps, owner),
                                 **self._ep_args(mine, idx))
        except Exception as err:  # pylint: disable=broad-except
            if holder is None:
                raise Violation(
                    'c14.ep.create.spurious-failure',
                    'create_spec(%r, owner=%r) failed (%r) on a free spec'
                    % (key, owner, err))
            if holder == owner:
                # noted in DESIGN: same-owner repeat raises EEXIST
                self.count('ep.create.repeat-refused')
            else:
                self.count('ep.create.refused')
                self._contended('ep', 'create')
        else:
            if holder is not None and holder != owner:
                raise Violation(
                    'c14.ep.create.double-owner',
                    'create_spec(%r, owner=%r) succeeded while %r holds it'
                    % (key, owner, holder))
            self.count('ep.create.repeat' if holder else 'ep.create.ok')
            expected[key] = owner
            self.ep_meta[key] = (mine, idx)
        self.check_all('ep', 'create', expected, {'changed': 'double-owner'})

    def _ep_unlink(self, op):
        model = self.model['ep']
        slot, idx = self._ep_select(op)
        key = spec_key(slot, idx)
        owner = self.acting('ep', op, key)
        holder = model.get(key)
        expected = dict(model)
        if holder == owner:
            del expected[key]
            self.count('ep.unlink.owner')
        elif holder is None:
            self.count('ep.unlink.absent')
        else:
            self.count('ep.unlink.nonowner')
            self._contended('ep', 'unlink')
        owner_arg = owner if op.get('form') == 'base' \
            else os.path.join(self.apps, owner)
        self.eps.unlink_spec(owner=owner_arg, **self._ep_args(slot, idx))
        self.check_all('ep', 'unlink', expected,
                       {'missing': 'nonowner-released',
                        'extra': 'owner-release-ignored'})

    def _ep_unlink_all(self, op):
        """_finish.py: endpoints.unlink_all(app.name, owner=unique_name).
        'pat': true -> the appname is the glob <app>#* (the form the node
        services use, sproc/nodeinfo.py: 'root.<host>#*'), which matches the
        specs of every instance of the app, i.e. of several owners."""
        model = self.model['ep']
        slot, idx = self._ep_select(op)
        owner = self.acting('ep', op, spec_key(slot, idx))
        proto, endpoint = op.get('proto'), op.get('endpoint')
        pat = bool(op.get('pat'))
        expected = {}
        foreign = False
        related = False
        for key, holder in model.items():
            kslot, kidx = self.ep_meta[key]
            match = (
                (SLOTS[kslot][0] == SLOTS[slot][0] if pat
                 else appname(kslot) == appname(slot)) and
                (proto is None or SPECS[kidx][0] == proto) and
                (endpoint is None or SPECS[kidx][1] == endpoint)
            )
            if match and holder == owner:
                continue
            if match:
                foreign = True
                if holder in self.live and holder != owner and (
                        holder.endswith(owner) or holder.startswith(owner)
                        or owner.endswith(holder)
                        or owner.startswith(holder)):
                    related = True
            expected[key] = holder
        if foreign:
            self.count('ep.unlink_all.foreign-matching')
            self._contended('ep', 'unlink_all')
        if related:
            # a live owner whose name contains / is contained in the
            # releaser's name holds a matching spec
            self.count('ep.unlink_all.foreign-matching.related-name')
        if pat:
            self.count('ep.unlink_all.pattern')
        if len(expected) < len(model):
            self.count('ep.unlink_all.removed')
        self.eps.unlink_all(
            SLOTS[slot][0] + '#*' if pat else appname(slot),
            proto=proto, endpoint=endpoint, owner=owner)
        self.check_all('ep', 'unlink_all', expected,
                       {'missing': 'nonowner-released',
                        'extra': 'owner-release-ignored'})

    def _ep_gc(self, _op):
        expected = self._gc_expected('ep')
        self._collect(
            'ep', 'gc',
            lambda: self._endpoints.garbage_collect(self.dirs['ep']),
            expected, self._GC_HINTS)

    def _ep_gcrace(self, op):
        self._gc_expected('ep')
        self._collect(
            'ep', 'gcrace',
            lambda: self._endpoints.garbage_collect(self.dirs['ep']),
            None, self._GC_HINTS, race=op)

    def _ep_init(self, _op):
        self._collect('ep', 'init', self.eps.initialize, {},
                      {'extra': 'kept'})

    # ---- NetworkResourceService ---------------------------------------
    def _svc_boot(self):
        """Install the fakes once per case and start the service."""
        from treadmill import iptables, subproc
        from treadmill.services import network_service
        if self._patched is None:
            self._patched = (network_service, network_service.netdev,
                             network_service.iptables)
            self.netdev = FakeNetdev(subproc)
            self.ipt = FakeIptables(iptables, subproc)
            network_service.netdev = self.netdev
            network_service.iptables = self.ipt
            self._svc_mod = network_service
        if not self.svc_started:
            self.svc_started = True
            self._svc_run()

    def _svc_class(self):
        base = self._svc_mod.NetworkResourceService
        if self.cfg.get('svc_cidr'):
            return type(str('SmallNetworkResourceService'), (base,),
                        {'__slots__': (), '_TM_CIDR': self.cfg['svc_cidr']})
        return base

    def _svc_full(self, vips):
        if self.svc_net.prefixlen < 24:
            return False         # 65534 hosts: never exhausted by <=40 ops
        if self._svc_hosts is None:
            self._svc_hosts = [str(host) for host in self.svc_net.hosts()]
        return all(host in vips for host in self._svc_hosts)

    @staticmethod
    def _svc_holding(vips, owner):
        return sorted(ip for ip, own in vips.items() if own == owner)

    # -- faults -----------------------------------------------------------
    def _svc_fault(self, op):
        """Arm one fake: the k-th faultable call inside the handlers of the
        next service op raises CalledProcessError once."""
        self._svc_boot()
        fake = self.ipt if op['on'] == 'ipt' else self.netdev
        self.ipt.countdown = self.netdev.countdown = None
        fake.countdown = max(1, op['k'])
        self.count('fault.armed.%s' % op['on'])
        self._unchanged('svc')

    def _errors(self):
        return self.netdev.errors + self.ipt.errors

    def _handler(self, call, *args):
        """Run one request handler with the fault window open."""
        self._windows += 1
        self.netdev.window = self.ipt.window = True
        try:
            return call(*args)
        finally:
            self.netdev.window = self.ipt.window = False

    def _svc_op_done(self):
        """End of a service op: a fault armed for it is spent."""
        if self._windows:
            self._windows = 0
            for kind, fake in (('net', self.netdev), ('ipt', self.ipt)):
                if fake.fired:
                    self.count('fault.fired.%s.%s' % (kind, fake.fired))
                    self.flags['fault'] = True
                    fake.fired = None
                elif fake.countdown is not None:
                    self.count('fault.not-reached.%s' % kind)
                fake.countdown = None
        self.svc_loose &= set(self.model['svc'])

    def _svc_create(self, owner, env, expected, phase):
        """One on_create_request as _base_service._on_created issues it
        (any exception becomes an error reply, the service goes on).

        Model.  A successful reply *grants* its address: the owner keeps
        it until it deletes the request or disappears.  An address that is
        linked to an owner without being granted is *loose*: left behind by
        a create that failed half-way (the owner never saw it), by a delete
        that failed half-way, or the owner's veth pair is gone.  Loose
        addresses still exclude every other owner, but the service may
        reclaim them in synchronize."""
        held = self._svc_holding(expected, owner)
        granted = [ip for ip in held if ip not in self.svc_loose]
        full = self._svc_full(expected)
        errors0 = self._errors()
        try:
            reply = self._handler(self.svc.on_create_request, owner,
                                  {'environment': env})
        except Exception as err:  # pylint: disable=broad-except
            if self._errors() > errors0:
                # a device / ipset command failed (injected, or the kernel
                # state left by an earlier failure): not an ownership matter
                self.count('svc.create.failed-command')
            elif not granted and full:
                self.count('svc.create.exhausted')
                self._contended('svc', 'exhausted')
            else:
                raise Violation(
                    'c14.svc.create.spurious-failure',
                    '%s: on_create_request(%r) failed (%r); holding %r, '
                    'network %s, vips %r' % (phase, owner, err, held,
                                             self.svc_net,
                                             sorted(expected)))
            # half-way: it may have linked one new address to this owner
            fresh = [
                ip for ip, target in sorted(
                    read_links(self.dirs['svc']).items())
                if ip not in expected and target is not None and
                os.path.basename(target) == owner and
                ipaddress.ip_address(ip) in self.svc_net
            ]
            if len(fresh) == 1:
                expected[fresh[0]] = owner
                self.svc_loose.add(fresh[0])
                self.count('svc.create.failed-holding-address')
            return
        vip = reply['vip']
        if granted:
            if vip != granted[0]:
                raise Violation(
                    'c14.svc.create.repeat-changed-ip',
                    '%s: repeated request of %r got %r, it was granted %r'
                    % (phase, owner, vip, granted))
            self.count('svc.create.repeat')
            return
        if vip in held:
            self.svc_loose.discard(vip)
            self.count('svc.create.granted-loose')
            return
        if vip in expected:
            raise Violation(
                'c14.svc.create.double-owner',
                '%s: request of %r got %r which is held by %r'
                % (phase, owner, vip, expected[vip]))
        if ipaddress.ip_address(vip) not in self.svc_net:
            raise Violation(
                'c14.svc.create.outside-network',
                '%s: request of %r got %r, network is %s'
                % (phase, owner, vip, self.svc_net))
        expected[vip] = owner
        self.count('svc.create.new')

    def _svc_run(self):
        """What ResourceService._run does before entering its event loop."""
        impl = self._svc_class()(ext_device='eth0', ext_ip=EXT_IP,
                                 ext_mtu=9000, ext_speed=10000)
        self.svc = impl
        impl.initialize(self.svc_dir)
        expected = dict(self.model['svc'])
        errors0 = self._errors()
        # _check_requests: dangling request links are removed
        valid = []
        for name in sorted(os.listdir(self.svc_rsrc)):
            if name.startswith('.'):
                continue
            link = os.path.join(self.svc_rsrc, name)
            if os.path.exists(link):
                valid.append(name)
            else:
                os.unlink(link)
                self.svc_req.pop(name, None)
                self.count('svc.run.dangling-request')
        for name in valid:
            self._svc_create(name, self.svc_req[name], expected, 'restart')
        stale = {ip: own for ip, own in expected.items()
                 if own not in valid}
        if stale and len(stale) < len(expected):
            self.flags['gc_mixed'] = True
            self.count('gc.svc.mixed')
        elif stale:
            self.count('gc.svc.uniform')
        crashed = False
        proxy = self._fs_arm('svc')
        fs_fired = None
        try:
            try:
                impl.synchronize()
            finally:
                fs_fired = self._fs_disarm('svc', proxy)
        except Exception:  # pylint: disable=broad-except
            # Seen on the unchanged tree: a replayed create that failed in
            # the device commands leaves a device record without
            # 'environment' and synchronize() raises KeyError.  The service
            # process dies (its supervisor starts it again: next 'restart').
            # Not an ownership matter, but only excusable after a failed
            # command in this very start-up.
            # (or when the stat of the vips GC was made to fail)
            if self._errors() == errors0 and not fs_fired:
                raise
            crashed = True
            self.svc = None
            self.count('svc.run.crashed-in-synchronize')
        # granted addresses of valid requests stay, addresses without a
        # valid request go (unless the service died first), loose
        # addresses of valid requests: either
        after = read_links(self.dirs['svc'])
        final = {}
        for addr, own in expected.items():
            if own not in valid:
                if (crashed or fs_fired) and addr in after:
                    final[addr] = own
                continue
            if addr in self.svc_loose and addr not in after:
                self.count('svc.sync.loose-reclaimed')
                continue
            final[addr] = own
        self.check_all('svc', 'sync', final,
                       {'missing': 'reclaimed-live', 'extra': 'kept-stale'})
        self._svc_op_done()

    def _svc_req(self, op):
        self._svc_boot()
        slot = op['o']
        if op.get('sel') is not None:
            # aimed: the k-th slot whose container exists
            up = [one for one in range(NSLOTS)
                  if self.uname(one, self.gen[one]) in self.live]
            if up:
                slot = up[op['sel'] % len(up)]
        owner = self.uname(slot, self.gen[slot])
        if owner not in self.live:
            self.count('svc.req.skipped-no-container')
            self._unchanged('svc')
            return
        if owner in self.svc_done:
            # its delete came back with an error: the container is being
            # torn down, it does not ask again under this name
            self.count('svc.req.skipped-after-failed-delete')
            self._unchanged('svc')
            return
        link = os.path.join(self.svc_rsrc, owner)
        if not os.path.lexists(link):
            # ResourceService.clt_new_request
            os.symlink(os.path.join(self.apps, owner), link)
        self.svc_req[owner] = SLOTS[slot][2]
        expected = dict(self.model['svc'])
        if self.svc is None:
            self.count('svc.req.while-down')
        else:
            self._svc_create(owner, self.svc_req[owner], expected, 'running')
        self.check_all('svc', 'create', expected,
                       {'changed': 'double-owner'})
        self._svc_devices_distinct(owner)
        self._svc_op_done()

    def _svc_devices_distinct(self, _owner=None):
        """No two entries of the reported service state share an IP."""
        if self.svc is None:
            return
        devices = self.svc.report_status()['devices']
        seen = {}
        for name in sorted(devices):
            addr = devices[name].get('ip')
            if addr is None:
                continue
            if addr in seen:
                raise Violation(
                    'c14.svc.devices-share-ip',
                    'service state gives %r to both %r and %r'
                    % (addr, seen[addr], name))
            seen[addr] = name

    def _svc_del(self, op):
        self._svc_boot()
        owner = self.owner_of(op)
        if op.get('sel') is not None and self.svc_req:
            names = sorted(self.svc_req)
            owner = names[op['sel'] % len(names)]
        link = os.path.join(self.svc_rsrc, owner)
        if not os.path.lexists(link):
            self.count('svc.del.skipped-no-request')
            self._unchanged('svc')
            return
        # ResourceService.clt_del_request, then the watcher's on_deleted
        os.unlink(link)
        self.svc_req.pop(owner, None)
        expected = dict(self.model['svc'])
        if self.svc is None:
            self.count('svc.del.while-down')
        else:
            errors0 = self._errors()
            failed = False
            try:
                self._handler(self.svc.on_delete_request, owner)
            except Exception:  # pylint: disable=broad-except
                # _on_deleted logs it and goes on
                if self._errors() == errors0:
                    raise
                failed = True
                self.svc_done.add(owner)
                self.count('svc.del.failed-command')
            after = read_links(self.dirs['svc'])
            for addr in self._svc_holding(expected, owner):
                if addr not in self.svc_loose and not failed:
                    del expected[addr]       # the granted address is freed
                elif addr in after:
                    self.svc_loose.add(addr)  # left behind until collected
                    self.count('svc.del.left-loose')
                else:
                    del expected[addr]
            self.count('svc.del.live-owner' if owner in self.live
                       else 'svc.del.dead-owner')
        self.check_all('svc', 'delete', expected,
                       {'missing': 'released-foreign',
                        'extra': 'release-ignored'})
        self._svc_devices_distinct(owner)
        self._svc_op_done()

    def _svc_stop(self, _op):
        self._svc_boot()
        if self.svc is None:
            self.count('svc.stop.noop')
        self.svc = None
        self._unchanged('svc')

    def _svc_restart(self, _op):
        self._svc_boot()
        self.count('svc.restart.after-stop' if self.svc is None
                   else 'svc.restart.crash')
        self._svc_run()
        self._svc_devices_distinct(None)


def _same_app(slot):
    return [other for other in range(NSLOTS)
            if appname(other) == appname(slot)]


def run_case(case, stats):
    """Execute one op list. Returns the flags the case reached."""
    cfg = None
    ops = case
    if case and case[0].get('mgr') == 'cfg':
        cfg, ops = case[0], case[1:]
    eng = Engine(cfg, stats)
    try:
        for op in ops:
            eng.apply(op)
        stats.count('ops', len(ops))
        return eng.flags
    finally:
        eng.close()
