"""E6: trace archiver on the in-memory ZooKeeper, with per-write crash points.

A case (plain JSON, see pbt/props/c18.py for the generator) describes a cell's
audit trail:

    instances   app instances (scheduled or not) with their trace events and an
                optional /finished record (generated mtime),
    servers     server-trace events,
    history     snapshots that already exist in the three history directories
                (some rows duplicate live events, as a run that stopped between
                upload and delete leaves them),
    params      batch sizes, expiries, history max counts (wired like
                treadmill.sproc.trace passes them).

The population is written through the real producers
(treadmill.trace.app.zk.publish, treadmill.trace.server.zk.publish,
zkutils.put with the finished payload publish() writes), so node names are
exactly what production writes.

World.run() executes one iteration of treadmill.sproc.trace's cleanup loop
(minus the two prune_trace_* calls, which delete live events on purpose and are
not archiving) with the real sqlite3/zlib, optionally with the k-th ZooKeeper
write failing: the process stops there (ArchiverStopped) or the request fails
with a real kazoo exception and the code under test carries on as it sees fit
(see FAULT_KINDS). World.check() is the oracle; it never
shares code with the archiver except download_batch, which the property names
as the retrieval path for trace events.
"""

import copy
import hashlib
import os
import sqlite3
import tempfile
import zlib

import kazoo.exceptions
import kazoo.retry

from treadmill import context
from treadmill import zknamespace as z
from treadmill import zkutils
from treadmill.sproc import trace as sproc_trace
from treadmill.trace import _zk
from treadmill.trace.app import events as app_events
from treadmill.trace.app import zk as app_zk
from treadmill.trace.server import events as server_events
from treadmill.trace.server import zk as server_zk

from pbt import fakezk, vclock
from pbt.run import Violation

# the run starts here on the virtual clock (seconds)
NOW = vclock.EPOCH0 + 1000000

HOSTS = ['node1.example.com', 'node2.example.com', 'master1.example.com']
UNIQ = ['2DqcoXnaIXEgy', 'AbC0000000001', 'zz9zz9zz9zz9z']
SERVICES = ['web_server', 'sshd', 'zk2fs']

FAMILIES = {
    'trace': {
        'hist': z.TRACE_HISTORY,
        'prefix': 'trace.db.gzip-',
        'table': app_zk.TRACE_SOW_TABLE,
        'max': 'trace_hist_max',
    },
    'finished': {
        'hist': z.FINISHED_HISTORY,
        'prefix': 'finished.db.gzip-',
        'table': 'finished',
        'max': 'finished_hist_max',
    },
    'server': {
        'hist': z.SERVER_TRACE_HISTORY,
        'prefix': 'server_trace.db.gzip-',
        'table': server_zk.SERVER_TRACE_SOW_TABLE,
        'max': 'trace_hist_max',
    },
}
FAMILY_ORDER = ('trace', 'finished', 'server')

# What can happen at a ZooKeeper write of the archiving run:
#  stop      the archiver process dies there (ArchiverStopped, a BaseException),
#  connloss  this one request fails with kazoo's ConnectionLoss and is not
#            applied; the process lives on and the real code decides whether
#            to retry (zkutils.with_retry), propagate or swallow,
#  expired   same with SessionExpiredError (not retried by with_retry).
FAULT_KINDS = ('stop', 'connloss', 'expired')


class _PassDone(BaseException):
    """Raised by the driver's time.sleep(): one iteration of the loop done."""


class _DriverTime(object):
    """`time` of treadmill.sproc.trace while the real `cleanup` command
    runs: the virtual clock, and the sleep between two iterations ends the
    pass."""

    def __init__(self, clock):
        self._clock = clock
        self.slept = None

    def time(self):
        return self._clock.time()

    def sleep(self, seconds):
        self.slept = seconds
        raise _PassDone()

    def __getattr__(self, name):
        return getattr(self._clock, name)


class ArchiverStopped(BaseException):
    """The archiver process dies at this write. A BaseException so that no
    `except Exception` of the code under test can 'survive' it (the role of
    fakezk.InjectedFault, which is an Exception subclass)."""


def _fault(kind, text):
    if kind == 'stop':
        return ArchiverStopped(text)
    if kind == 'connloss':
        return kazoo.exceptions.ConnectionLoss(text)
    if kind == 'expired':
        return kazoo.exceptions.SessionExpiredError(text)
    raise ValueError(kind)

# Module-level containers of the modules under test = in-memory state of the
# archiver process. Captured once at import (pristine process), restored at
# the start of every case and whenever the process is restarted.
_MODULES = (app_zk, _zk, server_zk, sproc_trace)


def module_state():
    state = {}
    for mod in _MODULES:
        for name, val in sorted(vars(mod).items()):
            if name.startswith('__') or type(val) not in (dict, list, set):
                continue
            try:
                state[(mod.__name__, name)] = copy.deepcopy(val)
            except Exception:  # pylint: disable=broad-except
                continue
    return state


def restore_module_state(state):
    mods = {mod.__name__: mod for mod in _MODULES}
    # containers that appeared after the capture go back to empty
    for (modname, name), val in module_state().items():
        if (modname, name) not in state:
            state = dict(state)
            state[(modname, name)] = type(val)()
    for (modname, name), val in state.items():
        mod = mods[modname]
        cur = getattr(mod, name, None)
        val = copy.deepcopy(val)
        if type(cur) is not type(val):
            setattr(mod, name, val)
        elif isinstance(cur, dict):
            cur.clear()
            cur.update(val)
        elif isinstance(cur, list):
            cur[:] = val
        else:
            cur.clear()
            cur.update(val)


PRISTINE = module_state()

APP_KINDS = ('scheduled', 'pending', 'configured', 'service_running',
             'service_exited', 'finished', 'killed', 'aborted', 'deleted',
             'pending_delete')
SERVER_KINDS = ('server_state', 'server_blackout', 'server_blackout_cleared')


def app_event(kind, var, instanceid):
    """A real AppTraceEvent of the given kind (var picks the parameters)."""
    if kind == 'scheduled':
        return app_events.ScheduledTraceEvent(
            instanceid=instanceid, where=HOSTS[var % 2],
            why=['created', 'evicted', 'server_down'][var % 3])
    if kind == 'pending':
        return app_events.PendingTraceEvent(
            instanceid=instanceid,
            why=['created', 'evicted', 'server_down'][var % 3])
    if kind == 'configured':
        return app_events.ConfiguredTraceEvent(
            instanceid=instanceid, uniqueid=UNIQ[var % 3])
    if kind == 'service_running':
        return app_events.ServiceRunningTraceEvent(
            instanceid=instanceid, uniqueid=UNIQ[var % 3],
            service=SERVICES[(var // 3) % 3])
    if kind == 'service_exited':
        return app_events.ServiceExitedTraceEvent(
            instanceid=instanceid, uniqueid=UNIQ[var % 3],
            service=SERVICES[(var // 3) % 3], rc=var % 4, signal=(var % 2) * 9)
    if kind == 'finished':
        return app_events.FinishedTraceEvent(
            instanceid=instanceid, rc=var % 3, signal=(var % 2) * 15,
            payload={'service': SERVICES[var % 3]})
    if kind == 'killed':
        return app_events.KilledTraceEvent(
            instanceid=instanceid, is_oom=bool(var % 2))
    if kind == 'aborted':
        return app_events.AbortedTraceEvent(
            instanceid=instanceid,
            why=['scheduler', 'invalid_type', 'unknown'][var % 3],
            payload='aborted by test')
    if kind == 'deleted':
        return app_events.DeletedTraceEvent(instanceid=instanceid)
    if kind == 'pending_delete':
        return app_events.PendingDeleteTraceEvent(
            instanceid=instanceid, why=['deleted', 'monitor'][var % 2])
    raise ValueError(kind)


def server_event(kind, var, servername):
    """A real ServerTraceEvent."""
    if kind == 'server_state':
        return server_events.ServerStateTraceEvent(
            servername=servername, state=['up', 'down', 'frozen'][var % 3])
    if kind == 'server_blackout':
        return server_events.ServerBlackoutTraceEvent(servername=servername)
    if kind == 'server_blackout_cleared':
        return server_events.ServerBlackoutClearedTraceEvent(
            servername=servername)
    raise ValueError(kind)


def when_str(micros):
    """Timestamp spelling of the producers: str(time.time())."""
    return str(micros / 1000000.0)


def instance_name(spec):
    return '%s#%010d' % (spec['app'], spec['id'])


# -- snapshots opened / built by the harness itself (zlib + sqlite3) ---------

def build_snapshot(table, rows):
    """Compressed sqlite image with the schema upload_batch writes."""
    conn = sqlite3.connect(':memory:')
    with conn:
        conn.execute(
            'CREATE TABLE %s (path text, timestamp real, data text, '
            'directory text, name text)' % table)
        conn.executemany(
            'INSERT INTO %s (path, timestamp, data, directory, name) '
            'VALUES(?, ?, ?, ?, ?)' % table, rows)
        conn.execute('CREATE INDEX name_idx ON %s (name)' % table)
        conn.execute('CREATE INDEX path_idx ON %s (path)' % table)
    image = conn.serialize()
    conn.close()
    return zlib.compress(image)


def open_snapshot(table, blob):
    """[(name, data, path)] of a snapshot; independent of download_batch."""
    conn = sqlite3.connect(':memory:')
    conn.deserialize(zlib.decompress(blob))
    rows = [(row[0], row[1], row[2]) for row in conn.execute(
        'SELECT name, data, path FROM %s' % table)]
    conn.close()
    return rows


class World(object):
    """One populated cell plus the machinery to run / crash the archiver."""

    def __init__(self, case):
        self.case = case
        self.params = case['params']
        self.clock = vclock.VClock(NOW)
        self.start_us = self.clock.us
        self.pop_ms = 0
        self.tree = fakezk.Tree(self._clock_ms)
        self.admin = fakezk.Client(self.tree)      # population and oracle
        self.archiver = fakezk.Client(self.tree)   # the process under test
        seed = case.get('order_seed', 0)
        if seed:
            self.tree.children_order = self._order
        self.fault_at = None
        self.fault_kind = 'stop'
        self.fired = False
        self.nwrites = 0
        self.oplog = []
        self.seen = {}
        self.pruned = {}
        self.prune_errors = []
        self.cache = {}
        self.events = {'trace': [], 'server': []}
        self.finished = []
        self._archived_finished = []
        self.scheduled = set()
        # instances the ops address: the generated population plus the ones
        # scheduled between passes (`schedule` op), in order of appearance
        self.specs = list(case['instances'])
        self.late = []
        self.base_world = None
        self.reader_sorted = False
        self.base = None
        self.base_hist = None

    # -- plumbing -----------------------------------------------------------
    def _clock_ms(self):
        if self.pop_ms is not None:
            return self.pop_ms
        return self.clock.us // 1000

    def _order(self, path, names):
        seed = self.case.get('order_seed', 0)
        if self.reader_sorted and path == z.TRACE_HISTORY:
            return names

        def key(name):
            raw = ('%d|%s|%s' % (seed, path, name)).encode()
            return hashlib.md5(raw).hexdigest()
        return sorted(names, key=key)

    def _family_of(self, path):
        for fam in FAMILY_ORDER:
            hist = FAMILIES[fam]['hist']
            if path.startswith(hist + '/'):
                return fam
        return None

    def _hook(self, opname, path, client):
        if client is not self.archiver:
            return
        idx = self.nwrites
        self.nwrites += 1
        if self.fault_at is not None and idx == self.fault_at:
            self.fired = True
            raise _fault(self.fault_kind,
                         'write %d: %s %s' % (idx, opname, path))
        self.oplog.append((opname, path))
        fam = self._family_of(path)
        if fam is None:
            return
        name = path[path.rfind('/') + 1:]
        if opname == 'create':
            self.seen[fam].add(name)
        elif opname == 'delete':
            hist = FAMILIES[fam]['hist']
            existing = sorted(self.tree.nodes[hist].children)
            newer = [other for other in existing if other > name]
            legit = len(newer) >= self.params[FAMILIES[fam]['max']]
            blob = self.tree.nodes[path].data
            self.pruned[fam][name] = (blob, legit)
            if not legit:
                self.prune_errors.append(
                    (fam, name, existing, self.params[FAMILIES[fam]['max']]))

    # -- population -----------------------------------------------------------
    def populate(self):
        """Write the generated audit trail through the real producers."""
        adm = self.admin
        params = self.params
        self.pop_ms = (NOW - 30 * 24 * 3600) * 1000
        for path in (z.SCHEDULED, z.FINISHED, z.TRACE, z.SERVER_TRACE,
                     z.TRACE_HISTORY, z.FINISHED_HISTORY,
                     z.SERVER_TRACE_HISTORY, z.PLACEMENT):
            zkutils.ensure_exists(adm, path)
        # a few shards that stay empty, like most of the 256 in a real cell
        for shard in ('0000', '00FE'):
            zkutils.ensure_exists(adm, z.path.trace_shard(shard))
            zkutils.ensure_exists(adm, z.path.server_trace_shard(shard))

        trace_edge = NOW * 1000000 - params['trace_expire'] * 1000000
        fin_edge = NOW * 1000 - params['finished_expire'] * 1000
        saved_app_host = app_zk._HOSTNAME
        saved_srv_host = server_zk._HOSTNAME
        try:
            for spec in self.case['instances']:
                inst = instance_name(spec)
                if spec['scheduled']:
                    zkutils.put(adm, z.path.scheduled(inst),
                                {'memory': '100M', 'cpu': '10%',
                                 'disk': '100M'})
                for evt in spec['events']:
                    micros = max(1000000, trace_edge + evt['dt'])
                    kind = APP_KINDS[evt['k'] % len(APP_KINDS)]
                    obj = app_event(kind, evt['v'], inst)
                    (_ts, _src, what, etype, edata, payload) = obj.to_data()
                    app_zk._HOSTNAME = HOSTS[evt['v'] % len(HOSTS)]
                    self.pop_ms = micros // 1000
                    app_zk.publish(adm, when_str(micros), what, etype, edata,
                                   payload)
                fin = spec.get('finished')
                if fin is not None:
                    self.pop_ms = max(1000, fin_edge + fin['dt_ms'])
                    state = ['finished', 'killed', 'aborted'][fin['s'] % 3]
                    zkutils.put(
                        adm, z.path.finished(inst),
                        {'state': state,
                         'when': when_str(self.pop_ms * 1000),
                         'host': HOSTS[fin['s'] % len(HOSTS)],
                         'data': ['0.0', 'oom', 'scheduler'][fin['s'] % 3]},
                        acl=[adm.make_servers_acl()])
            for spec in self.case['servers']:
                for evt in spec['events']:
                    micros = max(1000000, NOW * 1000000 - evt['age'])
                    kind = SERVER_KINDS[evt['k'] % len(SERVER_KINDS)]
                    obj = server_event(kind, evt['v'], spec['name'])
                    (_ts, _src, what, etype, edata, payload) = obj.to_data()
                    server_zk._HOSTNAME = HOSTS[evt['v'] % len(HOSTS)]
                    self.pop_ms = micros // 1000
                    server_zk.publish(adm, when_str(micros), what, etype,
                                      edata, payload)
        finally:
            app_zk._HOSTNAME = saved_app_host
            server_zk._HOSTNAME = saved_srv_host

        self._collect()
        self._populate_history()
        self.pop_ms = None
        self.base = self.tree.snapshot()
        self.base_hist = {
            fam: set(self.tree.nodes[FAMILIES[fam]['hist']].children)
            for fam in FAMILY_ORDER
        }
        self.base_world = (
            {fam: list(evts) for fam, evts in self.events.items()},
            list(self.finished), set(self.scheduled))
        self.tree.before_write = self._hook

    def _collect(self):
        """E: what is live right now (read from the tree), merged into the
        obligations carried over from earlier passes.

        Trace / server-trace events are immutable: every live node not known
        yet is added. A /finished record is identified by (name, content): the
        versions already archived stay as obligations, the versions that were
        live are replaced by what the nodes hold now (the producers may have
        rewritten them)."""
        nodes = self.tree.nodes
        self.scheduled = set(nodes[z.SCHEDULED].children)
        for fam, root in (('trace', z.TRACE), ('server', z.SERVER_TRACE)):
            known = set(evt['path'] for evt in self.events[fam])
            for shard in sorted(nodes[root].children):
                spath = root + '/' + shard
                for name in sorted(nodes[spath].children):
                    if spath + '/' + name in known:
                        continue
                    obj, stamp, _rest = name.split(',', 2)
                    self.events[fam].append({
                        'path': spath + '/' + name, 'name': name,
                        'object': obj, 'ts': float(stamp), 'shard': shard,
                    })
        self.finished = list(self._archived_finished)
        for name in sorted(nodes[z.FINISHED].children):
            node = nodes[z.FINISHED + '/' + name]
            self.finished.append({
                'path': z.FINISHED + '/' + name, 'name': name,
                'data': node.data.decode(), 'mtime': node.mtime / 1000.0,
            })

    def _fin_live(self, rec):
        node = self.tree.nodes.get(rec['path'])
        return node is not None and node.data.decode() == rec['data']

    # -- the world between two passes of the archiver -----------------------------
    def apply_steps(self, group):
        """Clock advance, then producers acting through the real publish().

        /scheduled changes in both directions between two passes: `unschedule`
        removes an instance, `schedule` is the master creating a NEW instance
        (masterapi.create_apps: /scheduled/<app>#<id> plus the `pending`
        event) followed by the first events the scheduler and the node
        publish for it. Later ops address the new instance like any other
        (`i` indexes population + instances scheduled so far)."""
        self._archived_finished = [rec for rec in self.finished
                                   if not self._fin_live(rec)]
        self.clock.advance(group.get('advance', 60))
        adm = self.admin
        specs = self.specs
        saved_app_host = app_zk._HOSTNAME
        saved_srv_host = server_zk._HOSTNAME
        hook, self.tree.before_write = self.tree.before_write, None
        try:
            for oper in group.get('ops', []):
                now_us = self.clock.us
                if oper['op'] == 'event' and specs:
                    inst = instance_name(specs[oper['i'] % len(specs)])
                    kind = APP_KINDS[oper['k'] % len(APP_KINDS)]
                    obj = app_event(kind, oper['v'], inst)
                    (_ts, _src, what, etype, edata, payload) = obj.to_data()
                    app_zk._HOSTNAME = HOSTS[oper['v'] % len(HOSTS)]
                    # no event of an instance predates its creation
                    back = 0 if inst in self.late else oper.get('back', 0)
                    app_zk.publish(adm, when_str(now_us - back),
                                   what, etype, edata, payload)
                elif oper['op'] == 'unschedule' and specs:
                    inst = instance_name(specs[oper['i'] % len(specs)])
                    zkutils.ensure_deleted(adm, z.path.scheduled(inst))
                elif oper['op'] == 'schedule':
                    self._schedule_new(oper)
                elif oper['op'] == 'server_event':
                    srv = 'node%d.example.com' % (1 + oper['i'] % 3)
                    kind = SERVER_KINDS[oper['k'] % len(SERVER_KINDS)]
                    obj = server_event(kind, oper['v'], srv)
                    (_ts, _src, what, etype, edata, payload) = obj.to_data()
                    server_zk._HOSTNAME = HOSTS[oper['v'] % len(HOSTS)]
                    server_zk.publish(adm, when_str(now_us), what, etype,
                                      edata, payload)
                self.clock.advance(0.001)
        finally:
            app_zk._HOSTNAME = saved_app_host
            server_zk._HOSTNAME = saved_srv_host
            self.tree.before_write = hook
        self._collect()

    def _schedule_new(self, oper):
        """The master schedules a new instance (an id no instance had so far)
        and it starts: /scheduled/<instance>, the `pending` event of
        create_apps, then the generated first events, one millisecond apart
        at the current time."""
        spec = {'app': oper['app'], 'id': oper['id']}
        inst = instance_name(spec)
        if any(instance_name(other) == inst for other in self.specs):
            return          # ids are never reused
        adm = self.admin
        zkutils.put(adm, z.path.scheduled(inst),
                    {'memory': '100M', 'cpu': '10%', 'disk': '100M'})
        self.specs.append(spec)
        self.late.append(inst)
        for evt in [{'k': 1, 'v': 0}] + list(oper.get('events', [])):
            kind = APP_KINDS[evt['k'] % len(APP_KINDS)]
            obj = app_event(kind, evt['v'], inst)
            (_ts, _src, what, etype, edata, payload) = obj.to_data()
            app_zk._HOSTNAME = HOSTS[evt['v'] % len(HOSTS)]
            app_zk.publish(adm, when_str(self.clock.us), what, etype, edata,
                           payload)
            self.clock.advance(0.001)

    def late_scheduled_expired(self):
        """Measurement: live events of instances scheduled between passes
        that are still scheduled and already older than the trace expiry."""
        edge = self.clock.peek() - self.params['trace_expire']
        late = set(self.late) & self.scheduled
        return len([evt for evt in self.events['trace']
                    if evt['object'] in late and evt['ts'] < edge and
                    evt['path'] in self.tree.nodes])

    def _old_rows(self, fam, count, salt):
        """Rows of events archived long ago (no longer live)."""
        rows = []
        for idx in range(count):
            micros = (NOW - 40 * 24 * 3600) * 1000000 + salt * 1000 + idx
            if fam == 'trace':
                specs = self.case['instances']
                if specs:
                    inst = instance_name(specs[(salt + idx) % len(specs)])
                else:
                    inst = 'proid.gone#%010d' % (7 + idx)
                name = '%s,%s,%s,configured,%s' % (
                    inst, when_str(micros), HOSTS[idx % 3], UNIQ[idx % 3])
                path = z.path.trace(inst) + '/' + name
                rows.append((path, micros / 1000000.0, None,
                             path[:path.rfind('/')], name))
            elif fam == 'server':
                srv = 'node%d.example.com' % (1 + (salt + idx) % 3)
                name = '%s,%s,%s,server_state,up' % (
                    srv, when_str(micros), HOSTS[2])
                path = z.path.server_trace(srv) + '/' + name
                rows.append((path, micros / 1000000.0, None,
                             path[:path.rfind('/')], name))
            else:
                name = 'proid.gone#%010d' % (100000 + salt * 10 + idx)
                rows.append((z.path.finished(name), micros / 1000000.0,
                             '{"state": "finished"}', z.FINISHED, name))
        return rows

    def _leftover_candidates(self, fam):
        """Live records an earlier, interrupted run could already have
        uploaded: only ones that are archivable now."""
        params = self.params
        if fam == 'trace':
            edge = NOW - params['trace_expire'] - 1
            return [(evt['path'], evt['ts'], None,
                     evt['path'][:evt['path'].rfind('/')], evt['name'])
                    for evt in self.events['trace']
                    if evt['object'] not in self.scheduled and
                    evt['ts'] < edge]
        if fam == 'server':
            return [(evt['path'], evt['ts'], None,
                     evt['path'][:evt['path'].rfind('/')], evt['name'])
                    for evt in self.events['server']]
        edge = NOW - params['finished_expire'] - 1
        return [(rec['path'], rec['mtime'], rec['data'], z.FINISHED,
                 rec['name'])
                for rec in self.finished if rec['mtime'] < edge]

    def _populate_history(self):
        adm = self.admin
        self.pop_ms = (NOW - 3600) * 1000
        for fam in FAMILY_ORDER:
            spec = self.case['history'].get(fam)
            if not spec:
                continue
            meta = FAMILIES[fam]
            node = z.join_zookeeper_path(meta['hist'], meta['prefix'])
            # snapshots pruned by earlier runs: sequence numbers start higher
            for _ in range(spec.get('gap', 0)):
                gone = zkutils.create(adm, node, b'', sequence=True)
                adm.delete(gone)
            # what an interrupted earlier run left both live and uploaded:
            # the OLDEST archivable records (batches are cut oldest first),
            # in the newest snapshot
            cands = sorted(self._leftover_candidates(fam),
                           key=lambda row: (row[1], row[0]))
            last = len(spec['snaps']) - 1
            for sidx, snap in enumerate(spec['snaps']):
                rows = self._old_rows(fam, snap['old'], sidx)
                if sidx == last:
                    rows.extend(cands[:len(snap['dup'])])
                if not rows:
                    rows = self._old_rows(fam, 1, sidx)
                zkutils.create(adm, node, build_snapshot(meta['table'], rows),
                               sequence=True)

    # -- running the archiver -------------------------------------------------
    def begin(self):
        """Populated state, fresh archiver process (start of a history)."""
        self.tree.restore(self.base)
        self.tree.audit = []
        self.clock.us = self.start_us
        self.seen = {fam: set(self.base_hist[fam]) for fam in FAMILY_ORDER}
        self.pruned = {fam: {} for fam in FAMILY_ORDER}
        self.prune_errors = []
        self.events = {fam: list(evts)
                       for fam, evts in self.base_world[0].items()}
        self.finished = list(self.base_world[1])
        self._archived_finished = []
        self.scheduled = set(self.base_world[2])
        self.specs = list(self.case['instances'])
        self.late = []
        restore_module_state(PRISTINE)

    def restart_process(self):
        """The sproc died and its supervisor started a new one."""
        restore_module_state(PRISTINE)

    def mark(self):
        """Everything a pass can change: tree, clock, what this lineage
        uploaded/pruned, in-memory state of the archiver process."""
        return {
            'tree': self.tree.snapshot(), 'us': self.clock.us,
            'seen': {fam: set(val) for fam, val in self.seen.items()},
            'pruned': {fam: dict(val) for fam, val in self.pruned.items()},
            'errors': list(self.prune_errors), 'mods': module_state(),
        }

    def restore(self, mark):
        self.tree.restore(mark['tree'])
        self.tree.audit = []
        self.clock.us = mark['us']
        self.seen = {fam: set(val) for fam, val in mark['seen'].items()}
        self.pruned = {fam: dict(val) for fam, val in mark['pruned'].items()}
        self.prune_errors = list(mark['errors'])
        restore_module_state(mark['mods'])

    def run(self, fault_at=None, kind='stop'):
        """One iteration of sproc.trace's cleanup loop, optionally with the
        fault_at-th write failing (see FAULT_KINDS). Returns (outcome,
        writes_attempted); outcome is 'completed' (also when the code under
        test retried or swallowed the failure), 'stopped' (process died) or
        'zk-error' (the kazoo exception left the cleanup loop, which ends
        the sproc; its supervisor restarts it = the recovery run)."""
        self.fault_at = fault_at
        self.fault_kind = kind
        self.fired = False
        self.nwrites = 0
        self.oplog = []
        outcome = 'completed'
        clock = self.clock

        class _VirtualSleepRetry(kazoo.retry.KazooRetry):
            """KazooRetry whose back-off sleeps on the virtual clock (a fixed
            100 ms per attempt: kazoo's jitter is random)."""

            def __init__(self, *args, **kwargs):
                kwargs['sleep_func'] = lambda _secs: clock.sleep(0.1)
                super(_VirtualSleepRetry, self).__init__(*args, **kwargs)

        real_retry = kazoo.retry.KazooRetry
        kazoo.retry.KazooRetry = _VirtualSleepRetry
        try:
            with vclock.Installed(self.clock, [app_zk]):
                try:
                    if self.case.get('driver'):
                        self._driver_pass()
                    else:
                        self._direct_pass()
                except ArchiverStopped:
                    outcome = 'stopped'
                except kazoo.exceptions.KazooException:
                    if not self.fired:
                        raise
                    outcome = 'zk-error'
        finally:
            kazoo.retry.KazooRetry = real_retry
        self.fault_at = None
        return outcome, self.nwrites

    def _direct_pass(self):
        """The calls of sproc.trace's loop, made by the harness."""
        zkc = self.archiver
        par = self.params
        app_zk.cleanup_trace(zkc, par['trace_batch'], par['trace_expire'])
        app_zk.cleanup_finished(zkc, par['finished_batch'],
                                par['finished_expire'])
        app_zk.cleanup_trace_history(zkc, par['trace_hist_max'])
        app_zk.cleanup_finished_history(zkc, par['finished_hist_max'])
        server_zk.cleanup_server_trace(zkc, par['trace_batch'])
        server_zk.cleanup_server_trace_history(zkc, par['trace_hist_max'])

    def _driver_pass(self):
        """One iteration of the real driver: the click command
        `treadmill.sproc.trace cleanup --no-lock` with every option given on
        its command line; context.GLOBAL.zk.conn is the archiver's session;
        the loop is left at its time.sleep(interval)."""
        par = self.params
        args = [
            'cleanup', '--no-lock',
            '--interval', str(par.get('interval', 60)),
            '--trace-evictions-max-count', str(par.get('evict_max', 1000)),
            '--trace-service-events-max-count',
            str(par.get('svc_max', 2000)),
            '--trace-batch-size', str(par['trace_batch']),
            '--trace-expire-after', str(par['trace_expire']),
            '--trace-history-max-count', str(par['trace_hist_max']),
            '--finished-batch-size', str(par['finished_batch']),
            '--finished-expire-after', str(par['finished_expire']),
            '--finished-history-max-count', str(par['finished_hist_max']),
        ]
        drv_time = _DriverTime(self.clock)
        saved_time = sproc_trace.time
        saved_conn = context.GLOBAL.zk._conn  # pylint: disable=W0212
        sproc_trace.time = drv_time
        context.GLOBAL.zk.conn = self.archiver
        try:
            sproc_trace.init().main(args=args, prog_name='trace',
                                    standalone_mode=False)
            raise AssertionError('the cleanup command returned')
        except _PassDone:
            pass
        finally:
            sproc_trace.time = saved_time
            context.GLOBAL.zk.conn = saved_conn

    def fingerprint(self):
        """Everything check() and a further run depend on, except the clock:
        node table (data, mtime), what this lineage uploaded / pruned, and the
        in-memory state of the archiver process."""
        nodes = self.tree.nodes
        return (
            tuple(sorted((path, node.data, node.mtime)
                         for path, node in nodes.items())),
            tuple(sorted((fam, name, legit)
                         for fam in FAMILY_ORDER
                         for name, (_blob, legit) in self.pruned[fam].items())),
            tuple(sorted((fam, name) for fam in FAMILY_ORDER
                         for name in self.seen[fam])),
            len(self.prune_errors),
            repr(sorted(module_state().items())),
        )

    # -- oracle -------------------------------------------------------------
    def _download(self, fam, node_name, blob, obj):
        """download_batch() of the real code, memoised on the blob."""
        key = (fam, blob, obj)
        if key not in self.cache:
            meta = FAMILIES[fam]
            self.cache[key] = frozenset(_zk.download_batch(
                self.admin, z.join_zookeeper_path(meta['hist'], node_name),
                meta['table'], obj))
        return self.cache[key]

    def _opened(self, fam, blob):
        key = (fam, blob)
        if key not in self.cache:
            self.cache[key] = open_snapshot(FAMILIES[fam]['table'], blob)
        return self.cache[key]

    def _retrievable_event(self, fam, evt):
        """Is a deleted trace / server-trace event still retrievable?"""
        nodes = self.tree.nodes
        hist = FAMILIES[fam]['hist']
        for node_name in sorted(nodes[hist].children, reverse=True):
            blob = nodes[hist + '/' + node_name].data
            if evt['name'] in self._download(fam, node_name, blob,
                                             evt['object']):
                return 'snapshot'
        # snapshots uploaded by this very lineage of runs which the pruner
        # was then entitled to drop (more than max_count newer ones)
        for node_name, (blob, legit) in self.pruned[fam].items():
            if legit and node_name not in self.base_hist[fam] and any(
                    row[0] == evt['name']
                    for row in self._opened(fam, blob)):
                return 'pruned'
        return None

    def _retrievable_finished(self, rec):
        nodes = self.tree.nodes
        hist = z.FINISHED_HISTORY
        blobs = [(nodes[hist + '/' + name].data, 'snapshot')
                 for name in sorted(nodes[hist].children, reverse=True)]
        blobs.extend((blob, 'pruned')
                     for name, (blob, legit) in self.pruned['finished'].items()
                     if legit and name not in self.base_hist['finished'])
        changed = None
        for blob, how in blobs:
            for name, data, _path in self._opened('finished', blob):
                if name == rec['name']:
                    if data == rec['data']:
                        return how
                    changed = ('changed', data)
        return changed

    def read_trace(self, inst, sorted_listing=True):
        """What `treadmill admin trace --snapshot <inst>` shows: the real
        AppTraceLoop on the fake ZooKeeper with a recording handler. Returns
        [(timestamp, source, instanceid, event_type, event_data)]."""
        delivered = []

        class _Recorder(object):
            def process(self, event, ctx=None):
                delivered.append(tuple(event.to_data()[:5]))

        real_download = _zk.download_batch
        cache = self.cache

        def _memo_download(zkclient, db_node_path, table, name):
            # download_batch is a pure function of the blob: same result,
            # without decompressing the same snapshot hundreds of times
            blob = zkclient.tree.nodes[db_node_path].data
            key = ('dl', blob, table, name)
            if key not in cache:
                cache[key] = list(real_download(zkclient, db_node_path,
                                                table, name))
            return list(cache[key])

        def _no_exit(code):
            raise AssertionError('the reader called sys_exit(%r)' % code)

        from treadmill import utils
        saved_exit = utils.sys_exit
        utils.sys_exit = _no_exit
        _zk.download_batch = _memo_download
        self.reader_sorted = sorted_listing
        try:
            loop = app_zk.AppTraceLoop(self.admin, inst, _Recorder())
            loop.run(snapshot=True)
        finally:
            self.reader_sorted = False
            _zk.download_batch = real_download
            utils.sys_exit = saved_exit
        return delivered

    def _expected_delivery(self, inst):
        """Live events of the instance plus the rows of the surviving
        snapshots, each once, as the 5-tuples the handler sees."""
        nodes = self.tree.nodes
        names = set()
        sources = []
        hist = z.TRACE_HISTORY
        for node_name in sorted(nodes[hist].children):
            blob = nodes[hist + '/' + node_name].data
            mine = [row[0] for row in self._opened('trace', blob)
                    if row[0].startswith(inst + ',')]
            names.update(mine)
            sources.append((node_name,
                            [self._as_delivered(name) for name in mine]))
        shard = z.path.trace(inst)
        if shard in nodes:
            mine = [name for name in nodes[shard].children
                    if name.startswith(inst + ',')]
            names.update(mine)
            sources.append(('live',
                            [self._as_delivered(name) for name in mine]))
        want = []
        for name in sorted(names):
            want.append(self._as_delivered(name))
        return want, sources

    @staticmethod
    def _as_delivered(name):
        obj, stamp, src, etype, edata = name.split(',')
        return (float(stamp), src, obj, etype, edata)

    @staticmethod
    def _overtaken(item, sources):
        """item sits in a later source (newer snapshot / live) than an event
        of the same instance with a later timestamp."""
        seen_later = False
        for _label, items in sources:
            if item in items and seen_later:
                return True
            if any(other[0] > item[0] for other in items):
                seen_later = True
        return False

    def gap_instances(self):
        """Unscheduled instances whose archived events sit on both sides of
        a surviving snapshot that holds none of them."""
        nodes = self.tree.nodes
        hist = z.TRACE_HISTORY
        snaps = sorted(nodes[hist].children)
        where = {}
        for idx, node_name in enumerate(snaps):
            blob = nodes[hist + '/' + node_name].data
            for row in self._opened('trace', blob):
                where.setdefault(row[0].split(',', 1)[0], set()).add(idx)
        return [inst for inst, idxs in sorted(where.items())
                if len(idxs) < max(idxs) - min(idxs) + 1]

    def check(self, stage, clean, stats=None):
        """Raise Violation if the state breaks C18. stage: clean | crash |
        zkerror | recovery (goes into the bucket: the root causes differ)."""
        nodes = self.tree.nodes
        par = self.params
        now = self.clock.peek()
        summary = {'archived': 0, 'pruned_away': 0}

        # pruning never removed one of the max_count newest snapshots
        if self.prune_errors:
            fam, name, existing, max_count = self.prune_errors[0]
            raise Violation(
                'c18.prune.%s.deleted-newer-snapshot' % fam,
                '%s: pruner (max_count=%d) deleted %s although only %d newer '
                'snapshots existed: %r' % (
                    stage, max_count, name,
                    len([o for o in existing if o > name]), existing))

        # 1. nothing lost
        for fam in ('trace', 'server'):
            for evt in self.events[fam]:
                if evt['path'] in nodes:
                    continue
                how = self._retrievable_event(fam, evt)
                if how is None:
                    raise Violation(
                        'c18.%s.event-lost.%s' % (fam, stage),
                        '%s run (%d writes): event %s is neither live nor '
                        'returned by download_batch from any snapshot %r' % (
                            stage, self.nwrites, evt['path'],
                            sorted(nodes[FAMILIES[fam]['hist']].children)))
                summary['archived' if how == 'snapshot'
                        else 'pruned_away'] += 1
        for rec in self.finished:
            if self._fin_live(rec):
                continue
            how = self._retrievable_finished(rec)
            if how is None:
                raise Violation(
                    'c18.finished.record-lost.%s' % stage,
                    '%s run (%d writes): finished record %s is neither live '
                    'nor a row of any snapshot %r' % (
                        stage, self.nwrites, rec['path'],
                        sorted(nodes[z.FINISHED_HISTORY].children)))
            if isinstance(how, tuple):
                raise Violation(
                    'c18.finished.record-data-changed.%s' % stage,
                    '%s run: finished record %s archived with data %r, was '
                    '%r' % (stage, rec['path'], how[1], rec['data']))
            summary['archived' if how == 'snapshot' else 'pruned_away'] += 1

        # 2. nothing archived early
        trace_edge = now - par['trace_expire']
        for evt in self.events['trace']:
            if evt['path'] in nodes:
                continue
            if evt['object'] in self.scheduled:
                raise Violation(
                    'c18.trace.scheduled-instance-event-archived',
                    '%s run: %s was removed from the live trace although '
                    '%s is still scheduled' % (stage, evt['path'],
                                               evt['object']))
            if evt['ts'] >= trace_edge:
                raise Violation(
                    'c18.trace.young-event-archived',
                    '%s run: %s removed from the live trace at age %.6fs < '
                    'expires_after=%s' % (stage, evt['path'],
                                          now - evt['ts'],
                                          par['trace_expire']))
        fin_edge = now - par['finished_expire']
        for rec in self.finished:
            if not self._fin_live(rec) and rec['mtime'] >= fin_edge:
                raise Violation(
                    'c18.finished.young-record-archived',
                    '%s run: %s (modified %.3fs ago) removed although '
                    'expires_after=%s' % (stage, rec['path'],
                                          now - rec['mtime'],
                                          par['finished_expire']))

        # 2b. the product's own reader delivers the union of live and
        #     archived events of every unscheduled instance
        summary['reader_runs'] = 0
        summary['reader_duplicates'] = 0
        for inst in sorted(set(evt['object']
                               for evt in self.events['trace'])):
            if inst in self.scheduled:
                continue        # the reader skips the history while scheduled
            want, sources = self._expected_delivery(inst)
            listing = self.case.get('reader_listing', 'sorted')
            got = self.read_trace(inst, sorted_listing=(listing == 'sorted'))
            summary['reader_runs'] += 1
            missing = [item for item in want if item not in got]
            if missing:
                why = stage
                if listing != 'sorted' and not [
                        item for item in want
                        if item not in self.read_trace(inst, True)]:
                    # delivered when /trace.history is listed in sequence
                    # order: the reader relies on the order of get_children
                    why = 'unsorted-history-listing'
                elif all(self._overtaken(item, sources) for item in missing):
                    # published late: an event of the instance with a later
                    # timestamp was archived before this one arrived
                    why = 'older-than-already-archived'
                    if listing == 'sorted':
                        # stated assumption of the default generator (the
                        # reader drops what is older than the last event it
                        # delivered; every event is still live or in a
                        # snapshot, which is what C18 requires). Reached
                        # only through events within microseconds of the
                        # instant of a pass with expiry 0: the expiry test
                        # reads the clock once per event. Counted, judged
                        # only with VERIF_C18_READER_STRICT=1.
                        summary['reader_overtaken_out_of_domain'] = \
                            summary.get('reader_overtaken_out_of_domain',
                                        0) + 1
                        continue
                raise Violation(
                    'c18.reader.event-not-delivered.%s' % why,
                    '%s run: AppTraceLoop(%s).run(snapshot=True) delivered '
                    '%d of %d events; not delivered: %r (live or a row of a '
                    'snapshot in %r)' % (
                        stage, inst, len(set(got) & set(want)), len(want),
                        missing[:3],
                        sorted(nodes[z.TRACE_HISTORY].children)))
            extra = [item for item in got if item not in want]
            if extra:
                raise Violation(
                    'c18.reader.foreign-event-delivered.%s' % stage,
                    '%s run: AppTraceLoop(%s) delivered %r which is neither '
                    'live nor archived for it' % (stage, inst, extra[:3]))
            summary['reader_duplicates'] += len(got) - len(set(got))

        # 3. after a complete run the survivors are the newest max_count
        if clean:
            for fam in FAMILY_ORDER:
                meta = FAMILIES[fam]
                max_count = par[meta['max']]
                have = sorted(nodes[meta['hist']].children)
                want = sorted(self.seen[fam])[-max_count:]
                if have != want:
                    raise Violation(
                        'c18.prune.%s.survivors-not-newest' % fam,
                        '%s run: after pruning %s to max_count=%d the '
                        'snapshots are %r, the newest %d of all snapshots '
                        'are %r' % (stage, meta['hist'], max_count, have,
                                    max_count, want))
        return summary

    # -- measurements for the non-trivial rule --------------------------------
    def profile(self):
        """Classes of records in the population (relative to the start)."""
        par = self.params
        edge = NOW - par['trace_expire']
        prof = {'archivable': 0, 'old_scheduled': 0, 'young_unscheduled': 0,
                'young_scheduled': 0, 'shards': set(),
                'fin_expired': 0, 'fin_young': 0,
                'server_events': len(self.events['server'])}
        for evt in self.events['trace']:
            old = evt['ts'] < edge - 1
            young = evt['ts'] >= edge + 1
            sched = evt['object'] in self.scheduled
            prof['shards'].add(evt['shard'])
            if old and not sched:
                prof['archivable'] += 1
            elif old and sched:
                prof['old_scheduled'] += 1
            elif young and not sched:
                prof['young_unscheduled'] += 1
            elif young:
                prof['young_scheduled'] += 1
        fedge = NOW - par['finished_expire']
        for rec in self.finished:
            if rec['mtime'] < fedge - 1:
                prof['fin_expired'] += 1
            elif rec['mtime'] >= fedge + 1:
                prof['fin_young'] += 1
        prof['shards'] = len(prof['shards'])
        return prof


def tmp_base():
    """sqlite's commit fsyncs make upload_batch ~8 ms on the disk behind /tmp
    and ~0.6 ms on tmpfs; the enumeration runs it hundreds of times a case."""
    forced = os.environ.get('VERIF_TMP')
    if forced:
        return forced
    if os.path.isdir('/dev/shm') and os.access('/dev/shm', os.W_OK):
        return '/dev/shm'
    return None


class TempDir(object):
    """Per-case scratch directory that also captures the NamedTemporaryFile
    upload_batch/download_batch leave behind when a write raises."""

    def __enter__(self):
        import shutil
        self._shutil = shutil
        self.path = tempfile.mkdtemp(prefix='c18-', dir=tmp_base())
        self.saved = tempfile.tempdir
        tempfile.tempdir = self.path
        return self

    def leftovers(self):
        return len(os.listdir(self.path))

    def __exit__(self, *exc):
        tempfile.tempdir = self.saved
        self._shutil.rmtree(self.path, ignore_errors=True)
        return False
