"""E5: schedule explorer for the presence service on the in-memory ZooKeeper.

One `World` holds a fakezk.Tree, two or three hosts and a "master/admin"
session. Every host runs a real `PresenceResourceService` (harness subclass
that only replaces zkclient / hostname / retry_request) over its own fake
session. The harness plays the part of `ResourceService._run`: it keeps the
request directory of every host (rid -> request data), a FIFO of pending
created/modified/deleted events, and calls `on_create_request` /
`on_delete_request` one at a time per host, exactly as the single threaded
service loop does. Every callback runs in a greenlet that yields to the
harness before EVERY ZooKeeper call (client.op_hook), so the generated case
decides, call by call, which host advances next.

The oracle does not read the service's own `presence` map. It keeps its own
table of claims built from ZooKeeper level traffic only (a create that
succeeded, or a get that showed the caller's own session as ephemeral owner,
inside a create callback) and judges every mutation in the fake's audit log
against it.
"""

import copy
import json
import os
import shutil
import tempfile

os.environ.setdefault('TREADMILL_HOSTNAME', 'verifhost')

import greenlet  # noqa: E402
import kazoo.exceptions  # noqa: E402
import kazoo.retry  # noqa: E402

from pbt import fakezk  # noqa: E402
from pbt.run import Violation  # noqa: E402

from treadmill import presence  # noqa: E402
from treadmill import utils  # noqa: E402
from treadmill.services import presence_service  # noqa: E402
from treadmill.services import _base_service  # noqa: E402

PROID = 'proid'
APP = 'proid.app'
MAX_REQUESTS = 12

# endpoint catalogue: successive containers draw overlapping subsets
ENDPOINTS = (
    {'name': 'http', 'port': 8000},
    {'name': 'ssh', 'port': 22, 'proto': 'tcp'},
    {'port': 9000, 'proto': 'udp'},            # unnamed: name = str(port)
)


DEFAULT_NAMES = ('hosta', 'hostb', 'hostc')
HOSTNAMES = DEFAULT_NAMES

# host name triples of a case (field 'names'); most contain names of which one
# is a proper prefix / suffix / substring of another, so that a comparison by
# startswith / endswith / `in` instead of equality has something to confuse
NAME_SETS = (
    DEFAULT_NAMES,
    ('node1', 'node10', 'node2'),
    ('node10', 'node1', 'node1-b'),
    ('tm-srv', 'tm-srv-b', 'xtm-srv'),
    ('srv', 'tm-srv', 'tm-srv-b'),
    ('node1', 'node11', 'node111'),
)


def name_set(sel):
    """Triple number sel % 6, rotated by (sel // 6) % 3."""
    names = NAME_SETS[sel % len(NAME_SETS)]
    rot = (sel // len(NAME_SETS)) % 3
    return list(names[rot:] + names[:rot])


def host_names(case, stats, used=3):
    """Host names of a case (+ counters on how they relate)."""
    names = tuple(case.get('names') or DEFAULT_NAMES)
    assert len(names) == 3 and len(set(names)) == 3, names
    prefix = substr = False
    for one in names[:used]:
        for two in names[:used]:
            if one != two and two.startswith(one):
                prefix = True
            if one != two and one in two:
                substr = True
    if stats is not None:
        if prefix:
            stats.count('cases_hosts_prefix_related')
        if substr:
            stats.count('cases_hosts_substring_related')
        if not substr:
            stats.count('cases_hosts_unrelated')
    return names


# service directories of a case: a handful of tiny files per case, 40 000
# cases per run - on the disk behind /tmp that costs ~25 ms per case, on tmpfs
# 0.4 ms
_TMP_BASE = '/dev/shm' if (os.path.isdir('/dev/shm') and
                           os.access('/dev/shm', os.W_OK | os.X_OK)) else None


class HarnessError(Exception):
    """Something the harness itself got wrong (exit 2, never a violation)."""


class ProcessExit(BaseException):
    """utils.sys_exit() (os._exit) called by the code under test, e.g. by
    utils.exit_on_unhandled around a watch callback: the service process is
    gone. Its ZooKeeper session is not closed; the supervisor restarts the
    service, which re-attaches to the same session (--zkid) with an empty
    presence map and replays its request directory."""


def _fail_exit(*args, **_kwargs):
    raise ProcessExit(*args)


def _call_watch_func(func, data, stat, event):
    """kazoo's DataWatch passes the event only to callbacks that take it."""
    import inspect
    try:
        params = list(inspect.signature(func).parameters.values())
    except (TypeError, ValueError):
        return func(data, stat, event)
    if any(par.kind == par.VAR_POSITIONAL for par in params):
        return func(data, stat, event)
    npos = len([par for par in params if par.kind in (
        par.POSITIONAL_ONLY, par.POSITIONAL_OR_KEYWORD)])
    if npos >= 3:
        return func(data, stat, event)
    return func(data, stat)


def instance_name(inst):
    return '%s#%010d' % (APP, inst + 1)


def request_id(inst, serial):
    return '%s-%010d-u%04d' % (APP, inst + 1, serial)


def expected_paths(app_name, data):
    """Presence paths of a request, written out by hand (not via z.path)."""
    paths = ['/running/' + app_name]
    proid, _sep, rest = app_name.partition('.')
    for endpoint in data.get('endpoints', []):
        name = endpoint.get('name', str(endpoint['port']))
        proto = endpoint.get('proto', 'tcp')
        paths.append('/endpoints/%s/%s:%s:%s' % (proid, rest, proto, name))
    if data.get('identity_group'):
        ident = data.get('identity')
        if ident is None:
            ident = 9223372036854775807
        paths.append('/identity-groups/%s/%s' % (data['identity_group'],
                                                 ident))
    uniq = []
    for path in paths:
        if path not in uniq:
            uniq.append(path)
    return uniq


class _AtomicDataWatch(object):
    """kazoo DataWatch with the read and the watch registration atomic.

    (fakezk's own _DataWatch reads the node *before* calling op_hook; when the
    hook yields to another session the read is stale and a deletion in the
    window is never reported. ZooKeeper's get+watch is atomic, so this
    replacement yields first and then reads and arms in one go.)
    """

    def __init__(self, client, path, func=None):
        self.client = client
        self.svc = client.owner_svc
        self.path = path
        self.func = func
        self.stopped = False
        if func is not None:
            self._get_data()

    def __call__(self, func):
        self.func = func
        self._get_data()
        return func

    def dead(self):
        return (self.stopped or self.client.expired or
                self.svc is not self.client.owner_svc)

    def _get_data(self, event=None):
        if self.dead():
            return
        if self.client.op_hook is not None:
            self.client.op_hook('watch_get', self.path)
        if self.dead():
            return
        tree = self.client.tree
        node = tree.nodes.get(self.path)
        if self._get_data not in tree.data_watches[self.path]:
            tree.data_watches[self.path].append(self._get_data)
        if node is None:
            data, stat = None, None
        else:
            data, stat = node.data, tree.stat(node)
        host = getattr(self.client, 'host', None)
        try:
            result = _call_watch_func(self.func, data, stat, event)
        except ProcessExit:
            cur = host.current if host is not None else None
            if host is None or (cur is not None and
                                greenlet.getcurrent() is cur.glet):
                raise           # unwinds the callback greenlet, see _start
            host.world.process_exit(host)
            return
        if result is False:
            self.stopped = True
            try:
                tree.data_watches[self.path].remove(self._get_data)
            except ValueError:
                pass


class SimClient(fakezk.Client):
    """One fake session that reports what its reads/creates returned."""

    def __init__(self, tree, observer=None):
        super(SimClient, self).__init__(tree)
        self.observer = observer
        self.owner_svc = None
        self.fault = None
        self.on_fault = None

    def _observe(self, opname, path, outcome):
        if self.observer is not None:
            self.observer(self, opname, path, outcome)

    def arm_fault(self, mode, skip):
        """One-shot ConnectionLoss on the (skip+1)-th next write of this
        session: mode 0 = the request never reaches ZooKeeper, mode 1 = it is
        applied and the reply is lost."""
        self.fault = [mode, skip]

    def _write(self, opname, path, apply):
        flt = self.fault
        if flt is None:
            return apply()
        if flt[1] > 0:
            flt[1] -= 1
            return apply()
        self.fault = None
        if self.on_fault is not None:
            self.on_fault(self, opname, path, flt[0])
        if flt[0] == 0:
            raise kazoo.exceptions.ConnectionLoss()
        try:
            apply()
        except (kazoo.exceptions.NoNodeError,
                kazoo.exceptions.NodeExistsError,
                kazoo.exceptions.NotEmptyError,
                kazoo.exceptions.BadVersionError):
            pass        # the error reply is lost as well
        raise kazoo.exceptions.ConnectionLoss()

    def create(self, path, *args, **kwargs):
        parent = super(SimClient, self)

        def apply():
            return parent.create(path, *args, **kwargs)

        try:
            res = self._write('create', path, apply)
        except kazoo.exceptions.NodeExistsError:
            self._observe('create', path, 'exists')
            raise
        self._observe('create', res, 'ok')
        return res

    def set(self, path, *args, **kwargs):
        parent = super(SimClient, self)
        return self._write('set', path,
                           lambda: parent.set(path, *args, **kwargs))

    def set_acls(self, path, *args, **kwargs):
        parent = super(SimClient, self)
        return self._write('set_acls', path,
                           lambda: parent.set_acls(path, *args, **kwargs))

    def delete(self, path, *args, **kwargs):
        parent = super(SimClient, self)
        return self._write('delete', path,
                           lambda: parent.delete(path, *args, **kwargs))

    def get(self, path, *args, **kwargs):
        try:
            data, stat = super(SimClient, self).get(path, *args, **kwargs)
        except kazoo.exceptions.NoNodeError:
            self._observe('get', path, 'nonode')
            raise
        if stat.ephemeralOwner == self.sid:
            self._observe('get', path, 'own')
        elif stat.ephemeralOwner:
            self._observe('get', path, 'foreign')
        else:
            self._observe('get', path, 'persistent')
        return data, stat

    def DataWatch(self, path, func=None, *_args, **_kwargs):
        # pylint: disable=invalid-name,keyword-arg-before-vararg
        return _AtomicDataWatch(self, fakezk._norm(path), func)


class SimPresenceService(presence_service.PresenceResourceService):
    """The real service; only its process boundary is replaced."""

    def __init__(self, host, zkclient):
        super(SimPresenceService, self).__init__()
        self.hostname = host.name
        self._sim_host = host
        self._sim_zk = zkclient

    @property
    def zkclient(self):
        return self._sim_zk

    def retry_request(self, rsrc_id, *_args, **_kwargs):
        # LinuxBaseResourceServiceImpl.retry_request: drop the reply, touch
        # the request link (ENOENT ignored) -> a "modified" event later on.
        self._sim_host.retry(self, rsrc_id)


class Callback(object):
    """One on_create_request / on_delete_request invocation."""

    def __init__(self, host, kind, rid, inst, serial, paths):
        self.host = host
        self.kind = kind
        self.rid = rid
        self.inst = inst
        self.serial = serial
        self.paths = paths
        self.trace = []       # (op, path) at every yield point
        self.obs = []         # (op, path, outcome) of create/get calls
        self.claimed = []     # presence paths claimed by this callback
        self.done = False
        self.result = None
        self.glet = None
        self.sid = host.client.sid
        self.sleeping = False  # inside KazooRetry's sleep
        self.crashed = False   # the code under test called utils.sys_exit
        self.prev = {}         # path -> (claimant, rid in regs) before us
        self.fault_path = None
        self.faulted = False   # a ConnectionLoss was injected into it
        self.replayed = False  # create event faked at start-up for a request
        #                        that already has a reply (granted earlier)


class Host(object):
    def __init__(self, world, idx):
        self.world = world
        self.idx = idx
        self.name = world.names[idx]
        self.requests = {}     # rid -> data       (the service rsrc dir)
        self.queue = []        # [(kind, rid)]     (pending dirwatch events)
        self.current = None
        self.last_result = {}  # rid -> result of last finished create callback
        self.claims = {}       # path -> rid that claimed it last (oracle's
        self.regs = {}         # path -> [rids that claimed it]   own tables)
        self.ext_deleted = set()
        self.client = None
        self.svc = None
        # the on-disk part of ResourceService: <svc_dir>/resources/<rid> is a
        # symlink to the client's request directory (request.yml, reply.yml);
        # it outlives the service process and its ZooKeeper session
        self.svc_dir = os.path.join(world.root, 'svc%d' % idx)
        self.rsrc_dir = os.path.join(self.svc_dir, _base_service.RSRC_DIR)
        self.new_session()

    def new_session(self):
        self.client = SimClient(self.world.tree, self.world.observe)
        self.client.host = self
        self.client.op_hook = self._hook
        self.client.on_fault = self.world.fault_fired
        self.new_service()

    def new_service(self):
        self.svc = SimPresenceService(self, self.client)
        self.client.owner_svc = self.svc
        # LinuxResourceService._run: impl.initialize(service_dir)
        self.svc.initialize(self.svc_dir)
        self.claims = {}
        self.regs = {}
        self.last_result = {}
        self.wait_on = {}      # rid -> path the last create callback waits for
        self.ext_deleted = set()

    def _hook(self, opname, path):
        cur = self.current
        if cur is not None and greenlet.getcurrent() is cur.glet:
            cur.trace.append((opname, path))
            self.world.main.switch()

    # -- request / reply files (ResourceServiceClient + ResourceService) -----
    def rep_file(self, rid):
        return os.path.join(self.rsrc_dir, rid, _base_service.REP_FILE)

    def put_request(self, rid, data):
        """ResourceServiceClient.put of a new request: request directory with
        request.yml (JSON is YAML), linked into the service's resource dir."""
        req_dir = os.path.join(self.world.root, 'apps', rid)
        os.makedirs(req_dir)
        with open(os.path.join(req_dir, _base_service.REQ_FILE), 'w') as fil:
            fil.write('--- ' + json.dumps(data, sort_keys=True) + '\n...\n')
        os.symlink(req_dir, os.path.join(self.rsrc_dir, rid))

    def del_request(self, rid):
        """ResourceServiceClient.delete: clt_del_request drops the link."""
        try:
            os.unlink(os.path.join(self.rsrc_dir, rid))
        except FileNotFoundError:
            pass

    def write_reply(self, rid, result):
        """ResourceService._on_created: a result other than None is written
        to reply.yml - the request is answered (granted, or _error)."""
        if result is None or not os.path.isdir(
                os.path.join(self.rsrc_dir, rid)):
            return
        with open(self.rep_file(rid), 'w') as fil:
            fil.write('--- ' + json.dumps(result, sort_keys=True) + '\n...\n')

    def drop_reply(self, rid):
        """_linux_base_service._update_request: remove any reply."""
        try:
            os.unlink(self.rep_file(rid))
        except (FileNotFoundError, NotADirectoryError):
            pass

    def retry(self, svc, rid):
        if svc is not self.svc or self.client.expired:
            return
        self.drop_reply(rid)
        if rid not in self.requests:
            return
        self.last_result.pop(rid, None)
        self.queue.append(('create', rid))
        self.world.stats_count('retry_requests')


class World(object):
    """Shared tree + hosts + oracle."""

    def __init__(self, nhosts, stats=None, names=None):
        self.names = tuple(names or DEFAULT_NAMES)
        self.stats = stats
        self.clock = [1000]
        self.tree = fakezk.Tree(lambda: self.clock[0])
        self.tree.queue_watches = True
        self.main = greenlet.getcurrent()
        self.root = tempfile.mkdtemp(prefix='c17-', dir=_TMP_BASE)
        self.master = fakezk.Client(self.tree)      # master + admin actor
        for path in ('/servers', '/server.presence', '/placement',
                     '/scheduled', '/running', '/endpoints',
                     '/identity-groups'):
            self.master.ensure_path(path)
        self.hosts = [Host(self, idx) for idx in range(nhosts)]
        for host in self.hosts:
            self.master.create('/servers/' + host.name, b'{}')
            self.master.ensure_path('/placement/' + host.name)
        self.containers = {}    # rid -> dict(inst, serial, host, data, paths)
        self.by_inst = {}       # inst -> [rid...] in creation order
        self.deleted = set()
        self.serial = 0
        self.audit_pos = len(self.tree.audit)
        self.flags = set()
        self.watches_last = False   # drain policy, see run_schedule
        self.presence_paths = set()
        self.service_sids = {}  # sid -> host
        for host in self.hosts:
            self.service_sids[host.client.sid] = host
        self.saved_exit = utils.sys_exit
        utils.sys_exit = _fail_exit
        # kazoo's real retry helper, only its sleep becomes a schedule point
        self.saved_retry = kazoo.retry.KazooRetry
        world = self

        class _SimRetry(self.saved_retry):
            def __init__(self, *args, **kwargs):
                kwargs.setdefault('sleep_func', world.retry_sleep)
                super(_SimRetry, self).__init__(*args, **kwargs)

        kazoo.retry.KazooRetry = _SimRetry

    # -- bookkeeping ------------------------------------------------------
    def stats_count(self, key, amount=1):
        if self.stats is not None:
            self.stats.count(key, amount)

    def close(self):
        utils.sys_exit = self.saved_exit
        kazoo.retry.KazooRetry = self.saved_retry
        try:
            for host in self.hosts:
                self._kill_current(host)
        finally:
            shutil.rmtree(self.root, ignore_errors=True)

    def retry_sleep(self, seconds):
        """KazooRetry's sleep_func: virtual time passes and the harness gets
        the schedule back, so that other sessions' handlers and watch
        callbacks can run between the failed call and the retry."""
        self.clock[0] += max(1, int(seconds * 1000))
        self.stats_count('retry_sleeps')
        for host in self.hosts:
            cur = host.current
            if cur is not None and greenlet.getcurrent() is cur.glet:
                cur.trace.append(('sleep', None))
                cur.sleeping = True
                self.main.switch()
                cur.sleeping = False
                return

    def fault_fired(self, client, opname, path, mode):
        self.stats_count('faults_fired_%s_%s' % (
            opname, 'reply_lost' if mode else 'request_lost'))
        cur = client.host.current
        if cur is not None and greenlet.getcurrent() is cur.glet:
            cur.faulted = True
            cur.fault_path = path

    def op_fault(self, hostidx, mode, skip):
        host = self.hosts[hostidx % len(self.hosts)]
        host.client.arm_fault(mode % 2, skip)
        self.stats_count('op_fault')

    def observe(self, client, opname, path, outcome):
        host = client.host
        cur = host.current
        if cur is None or greenlet.getcurrent() is not cur.glet:
            return
        cur.obs.append((opname, path, outcome))
        if cur.replayed and outcome == 'foreign' and path in cur.paths:
            # a request granted by an earlier run of the service finds its
            # node owned by somebody else's session when it is replayed
            if 'replay-granted-foreign' not in self.flags:
                self.stats_count('cases_replayed_granted_met_foreign_node')
            self.flags.add('replay-granted-foreign')
        if cur.kind == 'create' and path in cur.paths:
            if outcome in ('ok', 'own'):
                regs = host.regs.setdefault(path, [])
                if path not in cur.prev:
                    cur.prev[path] = (host.claims.get(path), cur.rid in regs)
                host.claims[path] = cur.rid
                if cur.rid not in regs:
                    regs.append(cur.rid)
                host.ext_deleted.discard(path)
                if path not in cur.claimed:
                    cur.claimed.append(path)

    # -- world ops ----------------------------------------------------------
    def op_new(self, inst, hostidx, eps, ident):
        if len(self.containers) >= MAX_REQUESTS:
            self.stats_count('skipped_new_limit')
            return None
        host = self.hosts[hostidx % len(self.hosts)]
        self.serial += 1
        rid = request_id(inst, self.serial)
        endpoints = []
        for idx in sorted(set(eps)):
            endpoint = dict(ENDPOINTS[idx % len(ENDPOINTS)])
            endpoint['real_port'] = 32000 + self.serial
            endpoints.append(endpoint)
        data = {'endpoints': endpoints,
                'vip': {'ip0': '192.168.0.%d' % self.serial}}
        if ident is not None:
            data['identity_group'] = ident[0]
            if ident[1] is not None:
                data['identity'] = ident[1]
        app_name = instance_name(inst)
        paths = expected_paths(app_name, data)
        self.presence_paths.update(paths)
        self.containers[rid] = {'inst': inst, 'serial': self.serial,
                                'host': host, 'data': data, 'paths': paths}
        self.by_inst.setdefault(inst, []).append(rid)
        # what the master does when it (re)places the instance
        for other in self.hosts:
            node = '/placement/%s/%s' % (other.name, app_name)
            if other is not host and node in self.tree.nodes:
                self.master.delete(node)
        self.master.ensure_path('/placement/%s/%s' % (host.name, app_name))
        manifest = {k: v for k, v in data.items() if k != 'vip'}
        payload = json.dumps(manifest, sort_keys=True).encode()
        if '/scheduled/' + app_name in self.tree.nodes:
            self.master.set('/scheduled/' + app_name, payload)
        else:
            self.master.create('/scheduled/' + app_name, payload)
        self._skip_master_audit()
        # presence_client.put(): request dir + "created" event
        host.requests[rid] = data
        host.put_request(rid, data)
        host.queue.append(('create', rid))
        self.stats_count('op_new')
        return rid

    def live(self, inst):
        return [rid for rid in self.by_inst.get(inst, [])
                if rid not in self.deleted]

    def op_del(self, inst, which):
        live = self.live(inst)
        if not live:
            self.stats_count('skipped_del_none')
            return None
        rid = live[which % len(live)]
        self._delete_request(rid)
        self.stats_count('op_del')
        return rid

    def _delete_request(self, rid):
        host = self.containers[rid]['host']
        self.deleted.add(rid)
        host.requests.pop(rid, None)
        host.del_request(rid)
        host.last_result.pop(rid, None)
        host.queue.append(('delete', rid))

    def _kill_current(self, host):
        cur = host.current
        host.current = None
        if cur is not None and cur.glet is not None and not cur.done:
            if not cur.glet.dead:
                cur.glet.throw(greenlet.GreenletExit)
            cur.done = True
        return cur

    def _replay(self, host, order):
        rids = list(host.requests)
        if order % 2:
            rids.reverse()
        host.queue = [('create', rid) for rid in rids]

    def op_expire(self, hostidx, order):
        """Session expiry: ephemerals vanish, the process exits
        (zkutils.exit_on_lost) and comes back with a new session."""
        host = self.hosts[hostidx % len(self.hosts)]
        cur = self._kill_current(host)
        if cur is not None and len(cur.trace) >= 2:
            self.flags.add('expire-mid')
            self.stats_count('expire_mid_callback')
        self.tree.expire(host.client)
        self.check_audit(None)
        self._purge_pending()
        host.new_session()
        self.service_sids[host.client.sid] = host
        self._replay(host, order)
        self.stats_count('op_expire')

    def op_restart(self, hostidx, order):
        """Process restart that re-attaches to the same session (--zkid)."""
        host = self.hosts[hostidx % len(self.hosts)]
        cur = self._kill_current(host)
        if cur is not None and len(cur.trace) >= 2:
            self.stats_count('restart_mid_callback')
        host.new_service()
        self._purge_pending()
        self._replay(host, order)
        self.stats_count('op_restart')

    def process_exit(self, host):
        """The service process of `host` called os._exit (see ProcessExit)."""
        self._kill_current(host)
        host.new_service()
        self._purge_pending()
        self._replay(host, 0)
        self.stats_count('process_exits')

    def op_kill(self, hostidx):
        """Admin blackout: presence.kill_node(<host>) from another session."""
        host = self.hosts[hostidx % len(self.hosts)]
        if host.current is not None:
            # see ASSUMPTIONS: never inside the get->delete window of a
            # callback of the host being killed
            self.stats_count('skipped_kill_busy')
            return
        before = self.tree.dump('/')
        start = len(self.tree.audit)
        presence.kill_node(self.master, host.name)
        for opname, path, _sid, _owner in self.tree.audit[start:]:
            if opname != 'delete':
                raise Violation('c17.kill.unexpected-op',
                                'kill_node(%s) did %s %s' %
                                (host.name, opname, path))
            data = before[path][0].decode()
            named = data.split(':')[0]
            if named != host.name:
                raise Violation(
                    'c17.unregister.foreign-host',
                    'kill_node(%s) deleted %s whose data is %r' %
                    (host.name, path, data))
            owner = self.service_sids.get(before[path][1])
            if owner is not None:
                owner.ext_deleted.add(path)
                if owner.claims.get(path) is not None:
                    self.flags.add('kill-hit')
        self._skip_master_audit()
        self.stats_count('op_kill')

    def _skip_master_audit(self):
        self.audit_pos = len(self.tree.audit)

    def _purge_pending(self):
        keep = []
        for callback, event in self.tree.pending:
            watch = getattr(callback, '__self__', None)
            if isinstance(watch, _AtomicDataWatch) and watch.dead():
                continue
            keep.append((callback, event))
        self.tree.pending = keep

    def _deliver(self, index):
        """Deliver one queued watch event (a schedule point of its own: it
        may come long after the change that caused it)."""
        _callback, event = self.tree.pending[index]
        node = self.tree.nodes.get(event.path)
        if event.type == 'DELETED' and node is not None:
            # the node was deleted AND registered again before the watcher
            # hears about the deletion
            self.stats_count('watch_deliveries_stale')
            self.flags.add('stale-watch')
        self.stats_count('watch_deliveries')
        self.tree.deliver(index)
        self.check_audit(None)

    def op_watch(self, num):
        self._purge_pending()
        if not self.tree.pending:
            self.stats_count('idle_watch')
            return
        self._deliver(num % len(self.tree.pending))
        self.stats_count('op_watch')

    # -- scheduling ---------------------------------------------------------
    def runnable(self):
        return [host for host in self.hosts if host.current or host.queue]

    def _start(self, host):
        while host.queue:
            kind, rid = host.queue.pop(0)
            if kind == 'create' and rid not in host.requests:
                # request dir gone: _on_created drops the invalid request
                self.stats_count('stale_create_event')
                continue
            cont = self.containers[rid]
            cur = Callback(host, kind, rid, cont['inst'], cont['serial'],
                           cont['paths'])
            if kind == 'create':
                data = copy.deepcopy(host.requests[rid])
                svc = host.svc
                if os.path.exists(host.rep_file(rid)):
                    # only a start-up replay meets a reply: a new request has
                    # none and retry_request removes it
                    cur.replayed = True
                    self.stats_count('callbacks_create_replayed_answered')

                def body(svc=svc, rid=rid, data=data):
                    utils.validate(data, svc.PAYLOAD_SCHEMA)
                    return svc.on_create_request(rid, data)
            else:
                svc = host.svc
                newer = [
                    other for other, res in host.last_result.items()
                    if res == {} and other in host.requests and
                    self.containers[other]['inst'] == cont['inst'] and
                    self.containers[other]['serial'] > cont['serial']
                ]
                if newer and any(other in host.regs.get(path, ())
                                 for path in cont['paths']
                                 for other in newer):
                    self.flags.add('overlap-samehost')
                    self.stats_count('delete_old_after_newer_same_host')

                def body(svc=svc, rid=rid):
                    return svc.on_delete_request(rid)

            def run(cur=cur, body=body):
                # ResourceService._on_created/_on_deleted turn any exception
                # of the implementation into an '_error' reply
                try:
                    cur.result = body()
                except (HarnessError, Violation):
                    raise
                except ProcessExit:
                    cur.crashed = True
                except Exception as err:  # pylint: disable=broad-except
                    cur.result = {'_error': {'why': '%s: %s' % (
                        type(err).__name__, err)}}
                if cur.kind == 'create' and not cur.crashed:
                    cur.host.write_reply(cur.rid, cur.result)
                cur.done = True

            cur.glet = greenlet.greenlet(run, parent=self.main)
            host.current = cur
            self.stats_count('callbacks_' + kind)
            return cur
        return None

    def step_host(self, host):
        """Advance one host by one ZooKeeper call."""
        cur = host.current
        if cur is None:
            cur = self._start(host)
            if cur is None:
                return
        for other in self.hosts:
            oth = other.current
            if other is not host and oth is not None and oth.faulted and \
                    not oth.done and 'fault-interleaved' not in self.flags:
                self.flags.add('fault-interleaved')
        cur.glet.switch()
        self.stats_count('zk_steps')
        if cur.glet.dead and not cur.done:
            raise HarnessError('callback greenlet died: %r' % (cur.rid,))
        self.check_audit(cur)
        if cur.crashed:
            host.current = None
            self.process_exit(host)
        elif cur.done:
            host.current = None
            self._finished(cur)
        self._note_overlap()

    def op_step(self, num):
        run = self.runnable()
        if not run:
            self.stats_count('idle_step')
            return
        self.step_host(run[num % len(run)])

    def op_finish(self, num):
        run = self.runnable()
        if not run:
            self.stats_count('idle_step')
            return
        host = run[num % len(run)]
        if host.current is None:
            self.step_host(host)
        guard = 0
        while host.current is not None:
            self.step_host(host)
            guard += 1
            if guard > 500:
                raise HarnessError('callback does not finish')

    def _note_overlap(self):
        active = [host.current for host in self.hosts
                  if host.current is not None and host.current.trace]
        for one in active:
            if one.kind != 'delete':
                continue
            for two in active:
                if (two.kind == 'create' and two.inst == one.inst and
                        two.serial > one.serial and
                        two.host is not one.host):
                    if 'overlap-cross' not in self.flags:
                        self.stats_count('cases_overlap_cross_host')
                    self.flags.add('overlap-cross')

    # -- oracle ---------------------------------------------------------------
    def check_audit(self, cur):
        """Judge every mutation logged since the last call."""
        audit = self.tree.audit
        while self.audit_pos < len(audit):
            opname, path, sid, owner = audit[self.audit_pos]
            self.audit_pos += 1
            host = self.service_sids.get(sid)
            if opname == 'expire' or host is None:
                continue
            where = '%s %s by %s (session %x)' % (opname, path, host.name,
                                                  sid)
            if cur is not None:
                where += ' in %s(%s)' % (cur.kind, cur.rid)
            if opname in ('set', 'delete', 'set_acls') and owner and \
                    owner != sid:
                other = self.service_sids.get(owner)
                raise Violation(
                    'c17.foreign.%s' % opname,
                    '%s: node is owned by session %x (%s)' % (
                        where, owner, other.name if other else '?'))
            if opname == 'create' and path in self.presence_paths and \
                    owner != sid:
                raise Violation(
                    'c17.create.not-own-ephemeral',
                    '%s: ephemeral owner is %x' % (where, owner))
            if opname == 'delete' and path in self.presence_paths:
                if cur is None or cur.kind != 'delete' or \
                        cur.host is not host:
                    raise Violation('c17.delete.outside-delete-request',
                                    where)
                self._judge_delete(host, cur, path, where)

    def _judge_delete(self, host, cur, path, where):
        """Removing a container's presence deletes only its own nodes."""
        regs = host.regs.get(path, [])
        last = host.claims.get(path)
        if last != cur.rid and last in host.requests and \
                self.containers[last]['inst'] != cur.inst:
            # only identity nodes can be shared between instances
            raise Violation(
                'c17.delete.other-instance-identity',
                '%s: the node was last registered (same session) for live '
                'request %s of ANOTHER instance; the service keeps its '
                'registrations per app and does not see the take-over' % (
                    where, last))
        if last != cur.rid and last in host.requests:
            raise Violation(
                'c17.delete.other-container',
                '%s: the node was last registered for live request %s' % (
                    where, last))
        if cur.rid not in regs and any(
                self.containers[other]['inst'] != cur.inst
                for other in regs):
            # the node this container had registered was taken over and
            # later deleted by another instance's request; the present node
            # is a new one registered for another instance only
            raise Violation(
                'c17.delete.other-instance-identity',
                '%s: the node now at this path was registered for %r (another '
                'instance) only; this container\'s own registration was taken '
                'over and removed earlier, the per-app map still lists it' % (
                    where, regs))
        if cur.rid not in regs:
            raise Violation(
                'c17.delete.unregistered',
                '%s: this container never registered the path (registered '
                'for: %r)' % (where, regs))
        for other in regs:
            cont = self.containers[other]
            if (other != cur.rid and other in host.requests and
                    cont['inst'] == cur.inst and
                    cont['serial'] > cur.serial and
                    host.last_result.get(other, 0) == {}):
                raise Violation(
                    'c17.delete.unregisters-newer',
                    '%s: the newer container %s of the same instance is '
                    'live on %s, was told its presence is registered, and '
                    'needs this node (the old request was (re)processed '
                    'after the newer one and took the node over)' % (
                        where, other, host.name))
        host.regs.pop(path, None)
        host.claims.pop(path, None)

    def _finished(self, cur):
        host = cur.host
        if isinstance(cur.result, dict) and '_error' in cur.result:
            self.stats_count('callback_error_replies')
            if cur.kind == 'create':
                # the exception left _safe_create(path) half way: the node it
                # was working on is NOT registered for this request (a get
                # that shows our own session only counts once _safe_create
                # returns; the following set may have failed)
                path = cur.fault_path
                if path is None and cur.trace:
                    path = cur.trace[-1][1]
                if path in cur.prev and host.claims.get(path) == cur.rid:
                    before, was_in = cur.prev[path]
                    if before is None:
                        host.claims.pop(path, None)
                    else:
                        host.claims[path] = before
                    if not was_in and cur.rid in host.regs.get(path, []):
                        host.regs[path].remove(cur.rid)
                    if path in cur.claimed:
                        cur.claimed.remove(path)
                if cur.rid in host.requests:
                    host.last_result[cur.rid] = cur.result
            return
        if cur.kind == 'delete':
            if cur.result is not True:
                raise Violation('c17.delete.result',
                                'on_delete_request(%s) returned %r' %
                                (cur.rid, cur.result))
            return
        complete = all(path in cur.claimed for path in cur.paths)
        if cur.result is None:
            if complete:
                raise Violation(
                    'c17.create.spurious-wait',
                    'on_create_request(%s) on %s returned None although '
                    'every node is its own: %r' % (cur.rid, host.name,
                                                   cur.obs))
            blocked = [obs for obs in cur.obs
                       if obs[0] == 'get' and obs[2] in ('foreign',
                                                         'nonode')]
            if not blocked:
                raise Violation(
                    'c17.create.wait-without-cause',
                    'on_create_request(%s) on %s returned None without '
                    'having seen a foreign or vanished node: %r' % (
                        cur.rid, host.name, cur.obs))
            host.wait_on[cur.rid] = blocked[-1][1]
            self.stats_count('create_returned_wait')
        elif cur.result == {}:
            if not complete:
                missing = [p for p in cur.paths if p not in cur.claimed]
                raise Violation(
                    'c17.create.success-without-node',
                    'on_create_request(%s) on %s reported success but never '
                    'created/owned %r; saw %r' % (cur.rid, host.name,
                                                  missing, cur.obs))
            self.stats_count('create_returned_ok')
        else:
            raise Violation('c17.create.result',
                            'on_create_request(%s) returned %r' %
                            (cur.rid, cur.result))
        if cur.rid in host.requests:
            host.last_result[cur.rid] = cur.result

    def drain(self, limit=4000):
        """Run everything to quiescence, deterministically (round robin)."""
        steps = 0
        while True:
            self._purge_pending()
            progressed = False
            while self.tree.pending and not self.watches_last:
                self._deliver(0)
                self._purge_pending()
                progressed = True
            # a callback inside KazooRetry's sleep (>= 0.1 s) lets everybody
            # else go first: that is the realistic order
            for host in self.hosts:
                if (host.current and not host.current.sleeping) or \
                        (not host.current and host.queue):
                    self.step_host(host)
                    progressed = True
                    steps += 1
            if not progressed:
                for host in self.hosts:
                    if host.current and host.current.sleeping:
                        self.step_host(host)
                        progressed = True
                        steps += 1
                        break
            if not progressed and self.tree.pending:
                # watches_last: events are delivered one at a time, only
                # when no host can do anything else
                self._deliver(0)
                progressed = True
            if not progressed:
                return
            if steps > limit:
                raise Violation(
                    'c17.wait.livelock',
                    'requests are still being retried after %d ZooKeeper '
                    'calls with no outside event' % steps)

    def check_quiescent(self, phase):
        """At quiescence nobody may be waiting for a node that is gone."""
        for host in self.hosts:
            sid = host.client.sid
            # (a) registered nodes of live requests are still there
            for path, rid in sorted(host.claims.items()):
                if rid not in host.requests or path in host.ext_deleted:
                    continue
                node = self.tree.nodes.get(path)
                if node is None or node.owner != sid:
                    raise Violation(
                        'c17.registered.missing',
                        '[%s] %s registered for live request %s on %s is '
                        '%s' % (phase, path, rid, host.name,
                                'gone' if node is None else
                                'owned by %x' % node.owner))
            # (a') the newest container of an instance, once told that its
            #      presence is registered, keeps all its nodes
            for rid in host.requests:
                cont = self.containers[rid]
                if self.by_inst[cont['inst']][-1] != rid or \
                        host.last_result.get(rid, 0) != {}:
                    continue
                for path in cont['paths']:
                    if path in host.ext_deleted or \
                            self._shared_with_other_instance(path, cont):
                        continue
                    node = self.tree.nodes.get(path)
                    if node is None or node.owner != sid:
                        raise Violation(
                            'c17.newest.unregistered',
                            '[%s] %s of the newest container %s (live on '
                            '%s, reply {}) is %s' % (
                                phase, path, rid, host.name,
                                'gone' if node is None else
                                'owned by %x' % node.owner))
            # (b) bounded eventuality
            for rid in host.requests:
                if rid not in host.last_result:
                    raise HarnessError('unprocessed request at quiescence: '
                                       '%s' % rid)
                if host.last_result[rid] is not None:
                    continue
                path = host.wait_on[rid]
                node = self.tree.nodes.get(path)
                if node is None or not node.owner or node.owner == sid:
                    raise Violation(
                        'c17.wait.stuck',
                        '[%s] request %s on %s was told to wait for %s, '
                        'nothing is pending any more, and that node is %s' % (
                            phase, rid, host.name, path,
                            'gone' if node is None else
                            'not owned by another session (owner %x)' %
                            node.owner))
                self.stats_count('quiescent_legit_waits')

    def _shared_with_other_instance(self, path, cont):
        for other in self.containers.values():
            if other['inst'] != cont['inst'] and path in other['paths']:
                return True
        return False

    def blockers(self):
        """Sessions (hosts) some waiting request is blocked by."""
        res = []
        for host in self.hosts:
            for rid in host.requests:
                if host.last_result.get(rid, 0) is not None:
                    continue
                node = self.tree.nodes.get(host.wait_on[rid])
                other = self.service_sids.get(node.owner if node else None)
                if other is not None and other not in res:
                    res.append(other)
        return res

    def finale(self):
        """Quiescence, then retire old containers, then remove blockers."""
        self.drain()
        self.check_quiescent('end of schedule')
        # every container but the newest of its instance is cleaned up
        for inst in sorted(self.by_inst):
            for rid in self.live(inst)[:-1]:
                self._delete_request(rid)
        self.drain()
        self.check_quiescent('old containers retired')
        # whoever still blocks somebody loses its session ("owner is gone")
        for _round in range(2 * len(self.hosts)):
            blocking = self.blockers()
            if not blocking:
                break
            self.stats_count('finale_blocker_expired')
            self.op_expire(blocking[0].idx, 0)
            self.drain()
            self.check_quiescent('blocker expired')


OPS = ('new', 'del', 'exp', 'rst', 'kill', 'wat', 'step', 'fin')


def run_schedule(case, stats):
    """Interpret one kind='sched' case. Returns the set of class flags."""
    world = World(case['hosts'], stats,
                  host_names(case, stats, case['hosts']))
    # two deterministic drain policies: watch events first, or as late as
    # possible (after every host has run dry)
    world.watches_last = bool(len(case['ops']) % 2)
    try:
        for op in case['ops']:
            name = op[0]
            if name == 'new':
                ident = op[4]
                world.op_new(op[1], op[2], op[3],
                             None if ident is None else tuple(ident))
            elif name == 'del':
                world.op_del(op[1], op[2])
            elif name == 'exp':
                world.op_expire(op[1], op[2])
            elif name == 'rst':
                world.op_restart(op[1], op[2])
            elif name == 'kill':
                world.op_kill(op[1])
            elif name == 'wat':
                world.op_watch(op[1])
            elif name == 'step':
                world.op_step(op[1])
            elif name == 'fin':
                world.op_finish(op[1])
            elif name == 'flt':
                world.op_fault(op[1], op[2], op[3])
            else:
                raise HarnessError('unknown op %r' % (op,))
        world.finale()
        return set(world.flags)
    finally:
        world.close()


# ---------------------------------------------------------------------------
# kind = 'unreg': EndpointPresence.unregister_* / kill_node on generated states
# ---------------------------------------------------------------------------



def _endpoint_list(indices, serial):
    res = []
    for idx in sorted(set(indices)):
        endpoint = dict(ENDPOINTS[idx % len(ENDPOINTS)])
        endpoint['real_port'] = 32000 + serial
        res.append(endpoint)
    return res


def run_unregister(case, stats):
    """Build a node table, call the real unregister code, compare tables.

    case: {'kind': 'unreg', 'me': h, 'caller': 'self'|'admin',
           'call': 'running'|'endpoints'|'identity'|'kill',
           'apps': [{'eps': [..], 'ident': [g, n]|None, 'placed': bool,
                     'running': owner|None, 'ep_owner': {idx: owner|None},
                     'ident_owner': owner|None}, ...], 'target': i}
    owner = index into HOSTNAMES.
    """
    HOSTNAMES = host_names(case, stats)  # pylint: disable=invalid-name
    tree = fakezk.Tree(lambda: 1000)
    admin = SimClient(tree)
    sessions = [SimClient(tree) for _ in HOSTNAMES]
    me = case['me'] % len(HOSTNAMES)
    myname = HOSTNAMES[me]
    for path in ('/servers', '/server.presence', '/placement', '/scheduled',
                 '/running', '/endpoints', '/identity-groups'):
        admin.ensure_path(path)
    for name in HOSTNAMES:
        admin.create('/servers/' + name, b'{}')
        admin.ensure_path('/placement/' + name)

    manifests = []
    named = {}        # path -> hostname written in the node
    for inst, app in enumerate(case['apps']):
        app_name = instance_name(inst)
        manifest = {'name': app_name,
                    'endpoints': _endpoint_list(app['eps'], inst + 1)}
        if app['ident'] is not None:
            manifest['identity_group'] = app['ident'][0]
            if app['ident'][1] is not None:
                manifest['identity'] = app['ident'][1]
        manifests.append(manifest)
        paths = expected_paths(app_name, manifest)
        if app['placed']:
            admin.ensure_path('/placement/%s/%s' % (myname, app_name))
            admin.create('/scheduled/' + app_name,
                         json.dumps(manifest, sort_keys=True).encode())
        owner = app['running']
        if owner is not None:
            owner %= len(HOSTNAMES)
            sessions[owner].create(paths[0], HOSTNAMES[owner].encode(),
                                   ephemeral=True, makepath=True)
            named[paths[0]] = HOSTNAMES[owner]
        for pos, endpoint in enumerate(manifest['endpoints']):
            path = paths[1 + pos]
            owner = app['ep_owner'][pos % len(app['ep_owner'])] \
                if app['ep_owner'] else None
            if owner is None or path in named:
                continue
            owner %= len(HOSTNAMES)
            data = '%s:%d' % (HOSTNAMES[owner], 32000 + 10 * owner + pos)
            sessions[owner].create(path, data.encode(), ephemeral=True,
                                   makepath=True)
            named[path] = HOSTNAMES[owner]
        if app['ident'] is not None and app['ident_owner'] is not None:
            path = paths[-1]
            if path not in named:
                owner = app['ident_owner'] % len(HOSTNAMES)
                data = json.dumps({'host': HOSTNAMES[owner],
                                   'app': app_name}, sort_keys=True)
                sessions[owner].create(path, data.encode(), ephemeral=True,
                                       makepath=True)
                named[path] = HOSTNAMES[owner]

    target = case['target'] % len(case['apps'])
    manifest = manifests[target]
    app_name = instance_name(target)
    zkclient = admin if case['caller'] == 'admin' else sessions[me]
    call = case['call']
    paths = expected_paths(app_name, manifest)
    if call == 'running':
        scope = paths[:1]
    elif call == 'endpoints':
        scope = paths[1:1 + len(manifest['endpoints'])]
    elif call == 'identity':
        scope = paths[1 + len(manifest['endpoints']):]
    else:
        scope = []
        for inst, app in enumerate(case['apps']):
            if app['placed']:
                plist = expected_paths(instance_name(inst), manifests[inst])
                scope.extend(plist[:1 + len(manifests[inst]['endpoints'])])

    before = tree.dump('/')
    start = len(tree.audit)
    caller = admin if call == 'kill' else zkclient
    fault = case.get('fault')
    deleted = []      # (path, data at the time of the delete)
    recreated = {}    # path -> host name that re-registered it meanwhile
    lost = []

    def before_write(opname, path, client):
        if opname == 'delete' and client is caller:
            deleted.append((path, tree.nodes[path].data.decode()))

    def on_fault(_client, _opname, path, _mode):
        lost.append(path)

    def retry_sleep(_seconds):
        # between the failed call and the retry the other host's waiting
        # registration runs: the node that went away is re-created under
        # that host's session
        stats.count('unreg_retry_sleeps')
        for path in lost:
            if path in tree.nodes or path not in named:
                continue
            other = (me + 1 + fault[1]) % len(HOSTNAMES)
            if path.startswith('/running/'):
                data = HOSTNAMES[other]
            elif path.startswith('/endpoints/'):
                data = '%s:%d' % (HOSTNAMES[other], 32500)
            else:
                data = json.dumps({'host': HOSTNAMES[other],
                                   'app': app_name}, sort_keys=True)
            sessions[other].create(path, data.encode(), ephemeral=True)
            recreated[path] = HOSTNAMES[other]
            stats.count('unreg_recreated_during_retry')

    saved_retry = kazoo.retry.KazooRetry

    class _SimRetry(saved_retry):
        def __init__(self, *args, **kwargs):
            kwargs.setdefault('sleep_func', retry_sleep)
            super(_SimRetry, self).__init__(*args, **kwargs)

    if fault is not None:
        caller.on_fault = on_fault
        caller.arm_fault(fault[0] % 2, 0)
        stats.count('unreg_fault_armed')
    tree.before_write = before_write
    kazoo.retry.KazooRetry = _SimRetry
    try:
        if call == 'kill':
            presence.kill_node(admin, myname)
        else:
            obj = presence.EndpointPresence(zkclient, manifest,
                                            hostname=myname, appname=app_name)
            getattr(obj, 'unregister_' + call)()
    except (kazoo.exceptions.ConnectionLoss,
            kazoo.retry.RetryFailedError):
        if not lost:
            raise
        stats.count('unreg_connection_loss_propagated')
    finally:
        kazoo.retry.KazooRetry = saved_retry
        tree.before_write = None
        caller.fault = None
    after = tree.dump('/')
    stats.count('unreg_' + call)

    # every delete is judged against what the node said at that moment
    for path, data in deleted:
        if path.startswith('/identity-groups/'):
            host = json.loads(data).get('host')
        else:
            host = data.split(':')[0]
        if path in named and host != myname:
            raise Violation(
                'c17.unregister.foreign-host',
                'unregister %s for %s on %s deleted %s which names %s%s' % (
                    call, app_name, myname, path, host,
                    ' (re-registered by that host after the first delete '
                    'was applied and its reply lost)'
                    if path in recreated else ''))

    for opname, path, _sid, _owner in tree.audit[start:]:
        if opname != 'delete':
            raise Violation('c17.unregister.unexpected-op',
                            'unregister %s on %s did %s %s' % (
                                call, myname, opname, path))
    foreign_in_scope = False
    for path in sorted(before):
        if path in recreated:
            continue
        if path not in named:
            if path not in after or after[path] != before[path]:
                raise Violation('c17.unregister.unrelated',
                                'unregister %s on %s changed %s' % (
                                    call, myname, path))
            continue
        gone = path not in after
        if not gone and after[path] != before[path]:
            raise Violation('c17.unregister.modified',
                            'unregister %s changed %s' % (call, path))
        if path in scope and named[path] != myname:
            foreign_in_scope = True
        if gone and named[path] != myname:
            raise Violation(
                'c17.unregister.foreign-host',
                'unregister %s for %s on %s deleted %s which names %s' % (
                    call, app_name, myname, path, named[path]))
        if gone and path not in scope:
            raise Violation(
                'c17.unregister.other-container',
                'unregister %s for %s on %s deleted %s which is not a node '
                'of that container' % (call, app_name, myname, path))
        if not gone and path in scope and named[path] == myname:
            stats.count('unreg_left_own_node')
        if gone:
            stats.count('unreg_deleted_own')
    if foreign_in_scope:
        stats.count('unreg_foreign_in_scope')
    return foreign_in_scope


# ---------------------------------------------------------------------------
# kind = 'unsched': trace.app.zk._unschedule (directly or through publish)
# ---------------------------------------------------------------------------

TERMINAL = ('aborted', 'killed', 'finished')


def run_unschedule(case, stats):
    """case: {'kind': 'unsched', 'me': h, 'via': 'direct'|'publish',
              'event': str, 'target': i,
              'insts': [{'placed': [hosts], 'scheduled': bool}, ...]}"""
    HOSTNAMES = host_names(case, stats)  # pylint: disable=invalid-name
    from treadmill.trace.app import zk as tazk

    tree = fakezk.Tree(lambda: 1000)
    admin = fakezk.Client(tree)
    node_client = fakezk.Client(tree)
    me = case['me'] % len(HOSTNAMES)
    myname = HOSTNAMES[me]
    for path in ('/placement', '/scheduled', '/finished', '/trace'):
        admin.ensure_path(path)
    for name in HOSTNAMES:
        admin.ensure_path('/placement/' + name)
    for inst, spec in enumerate(case['insts']):
        app_name = instance_name(inst)
        for hostidx in spec['placed']:
            admin.ensure_path('/placement/%s/%s' % (
                HOSTNAMES[hostidx % len(HOSTNAMES)], app_name))
        if spec['scheduled']:
            admin.create('/scheduled/' + app_name, b'{"memory": "1G"}')
    target = case['target'] % len(case['insts'])
    app_name = instance_name(target)
    placed_here = '/placement/%s/%s' % (myname, app_name) in tree.nodes
    placed_else = any(
        '/placement/%s/%s' % (name, app_name) in tree.nodes
        for name in HOSTNAMES if name != myname)
    scheduled = '/scheduled/' + app_name in tree.nodes

    def relevant():
        return {path: val for path, val in tree.dump('/').items()
                if path.startswith('/placement') or
                path.startswith('/scheduled')}

    before = relevant()
    saved = tazk._HOSTNAME
    tazk._HOSTNAME = myname
    try:
        if case['via'] == 'direct':
            tazk._unschedule(node_client, app_name)
            expect_delete = placed_here
        else:
            tazk.publish(node_client, '1578268800.25', app_name,
                         case['event'], 'x.y', 'payload')
            expect_delete = placed_here and case['event'] in TERMINAL
    finally:
        tazk._HOSTNAME = saved
    after = relevant()
    stats.count('unsched_' + case['via'])

    spath = '/scheduled/' + app_name
    for path in before:
        if path == spath:
            continue
        if path not in after or after[path] != before[path]:
            raise Violation('c17.unschedule.other-node',
                            '_unschedule(%s) on %s changed %s' % (
                                app_name, myname, path))
    for path in after:
        if path not in before:
            raise Violation('c17.unschedule.other-node',
                            '_unschedule(%s) on %s created %s' % (
                                app_name, myname, path))
    if scheduled:
        gone = spath not in after
        if gone and not expect_delete:
            raise Violation(
                'c17.unschedule.not-placed-here',
                '%s on %s (%s) deleted %s although /placement/%s/%s %s' % (
                    case['via'], myname, case['event'], spath, myname,
                    app_name, 'exists' if placed_here else
                    'does not exist (placed elsewhere: %s)' % placed_else))
        if not gone and expect_delete:
            raise Violation(
                'c17.unschedule.kept',
                '%s on %s (%s) kept %s although the instance is placed '
                'here' % (case['via'], myname, case['event'], spath))
        if gone:
            stats.count('unsched_deleted')
    if scheduled and placed_else and not placed_here:
        stats.count('unsched_stale_event')
        return True
    return False


# ---------------------------------------------------------------------------
# kind = 'register': EndpointPresence.register_* of a new container (own
# session) while nodes of older containers live on under other sessions
# ---------------------------------------------------------------------------

class _RegClock(object):
    """Stand-in for `time` inside treadmill.presence: sleep() advances the
    virtual clock and lets the harness expire old sessions that are due."""

    def __init__(self, on_advance):
        import time as _time
        self._real = _time
        self.now = 0
        self.sleeps = 0
        self._on_advance = on_advance

    def time(self):
        return 1578268800.0 + self.now

    def sleep(self, seconds):
        self.sleeps += 1
        self.now += seconds
        self._on_advance()

    def __getattr__(self, name):
        return getattr(self._real, name)


def run_register(case, stats):
    """case: {'kind': 'register', 'me': h, 'call': 'register'|'seq'|
              'identity'|'running'|'endpoints', 'eps': [..],
              'ident': [g, n]|None,
              'old': [{'host': h, 'same_port': bool,
                       'end': None | ['t', seconds] | ['op', k]}, ...],
              'held': {'running': j|None, 'ident': j|None,
                       'eps': [j|None, ...]}}
    old[j] is the session of an earlier container (host h) that still owns the
    nodes listed in 'held' and goes away at virtual time `seconds` (checked at
    every time.sleep) or right before the k-th ZooKeeper call of the new
    session, or never."""
    HOSTNAMES = host_names(case, stats)  # pylint: disable=invalid-name
    from treadmill import exc as tm_exc

    tree = fakezk.Tree(lambda: 1000)
    admin = fakezk.Client(tree)
    for path in ('/running', '/endpoints', '/identity-groups'):
        admin.ensure_path(path)
    me = case['me'] % len(HOSTNAMES)
    myname = HOSTNAMES[me]
    app_name = instance_name(0)
    manifest = {'name': app_name, 'endpoints': _endpoint_list(case['eps'], 7)}
    if case['ident'] is not None:
        manifest['identity_group'] = case['ident'][0]
        if case['ident'][1] is not None:
            manifest['identity'] = case['ident'][1]
    paths = expected_paths(app_name, manifest)
    neps = len(manifest['endpoints'])
    run_path = paths[0]
    ep_paths = paths[1:1 + neps]
    id_paths = paths[1 + neps:]

    olds = []
    for spec in case['old']:
        client = fakezk.Client(tree)
        olds.append({'client': client, 'spec': spec,
                     'name': HOSTNAMES[spec['host'] % len(HOSTNAMES)]})
    same_content = False
    foreign_at_start = set()

    def hold(idx, path, data, mine):
        nonlocal same_content
        if idx is None or not olds:
            return
        old = olds[idx % len(olds)]
        old['client'].create(path, data.encode(), ephemeral=True,
                             makepath=True)
        foreign_at_start.add(path)
        if data == mine:
            same_content = True

    held = case['held']
    if held['running'] is not None and olds:
        old = olds[held['running'] % len(olds)]
        hold(held['running'], run_path, old['name'], myname)
    for pos, path in enumerate(ep_paths):
        idx = held['eps'][pos % len(held['eps'])] if held['eps'] else None
        if idx is None or not olds:
            continue
        old = olds[idx % len(olds)]
        port = manifest['endpoints'][pos]['real_port']
        if not old['spec']['same_port']:
            port += 100 + idx
        hold(idx, path, '%s:%d' % (old['name'], port),
             '%s:%d' % (myname, manifest['endpoints'][pos]['real_port']))
    if id_paths and held['ident'] is not None and olds:
        old = olds[held['ident'] % len(olds)]
        hold(held['ident'], id_paths[0],
             json.dumps({'host': old['name'], 'app': app_name},
                        sort_keys=True),
             json.dumps({'host': myname, 'app': app_name}, sort_keys=True))

    mine = fakezk.Client(tree)
    state = {'ops': 0}

    def expire_due(kind):
        for old in olds:
            end = old['spec']['end']
            if end is None or old['client'].expired or end[0] != kind:
                continue
            due = clock.now >= end[1] if kind == 't' \
                else state['ops'] >= end[1]
            if due:
                tree.expire(old['client'])
                stats.count('register_old_session_expired_during_call')

    clock = _RegClock(lambda: expire_due('t'))

    def hook(_opname, _path):
        state['ops'] += 1
        expire_due('op')

    mine.op_hook = hook
    expire_due('t')       # sessions due at t=0 are already gone
    start = len(tree.audit)

    def judge(scope, what):
        """`what` returned normally: its nodes are ours, ephemeral, alive."""
        for path in scope:
            node = tree.nodes.get(path)
            if node is None:
                raise Violation(
                    'c17.register.missing',
                    '%s on %s returned normally at t=%ds but %s does not '
                    'exist' % (what, myname, clock.now, path))
            if not node.owner:
                raise Violation(
                    'c17.register.not-own-ephemeral',
                    '%s on %s returned normally but %s is not ephemeral' % (
                        what, myname, path))
            if node.owner != mine.sid:
                owner = [old for old in olds
                         if old['client'].sid == node.owner]
                raise Violation(
                    'c17.register.adopted-foreign-node',
                    '%s on %s returned normally at t=%ds but %s is owned by '
                    'session %x (%s, still alive: %s), not by the registering '
                    'session %x: it did not wait for the node to go away' % (
                        what, myname, clock.now, path, node.owner,
                        owner[0]['name'] if owner else 'persistent node',
                        bool(owner) and not owner[0]['client'].expired,
                        mine.sid))

    obj = presence.EndpointPresence(mine, manifest, hostname=myname,
                                    appname=app_name)
    call = case['call']
    plan = {
        'register': [('register', id_paths + [run_path] + ep_paths)],
        'seq': [('register_identity', id_paths),
                ('register_running', [run_path]),
                ('register_endpoints', ep_paths)],
        'identity': [('register_identity', id_paths)],
        'running': [('register_running', [run_path])],
        'endpoints': [('register_endpoints', ep_paths)],
    }[call]
    registered = []
    gave_up = None
    saved_time = presence.time
    presence.time = clock
    try:
        for method, scope in plan:
            try:
                getattr(obj, method)()
            except tm_exc.ContainerSetupError as err:
                gave_up = (method, str(err))
                break
            judge(scope, method + '()')
            registered.extend(scope)
    finally:
        presence.time = saved_time
        mine.op_hook = None
    stats.count('register_call_' + call)

    for opname, path, sid, owner in tree.audit[start:]:
        if sid != mine.sid or opname == 'expire':
            continue
        if opname in ('set', 'delete', 'set_acls') and owner and \
                owner != mine.sid:
            raise Violation(
                'c17.register.foreign-%s' % opname,
                'registering session %x did %s %s which is owned by %x' % (
                    mine.sid, opname, path, owner))
        if opname == 'create' and path in paths and owner != mine.sid:
            raise Violation(
                'c17.register.not-own-ephemeral',
                'create %s by the registering session: owner %x' % (
                    path, owner))

    if gave_up is not None:
        # the loop may only give up on a node that another session held for
        # the whole 13 x 5 s
        stats.count('register_gave_up')
        if clock.sleeps < 13:
            raise Violation(
                'c17.register.gave-up-early',
                '%s raised ContainerSetupError(%s) after %d sleeps' % (
                    gave_up[0], gave_up[1], clock.sleeps))
    else:
        stats.count('register_returned')

    # every other session goes away: what was registered must survive
    for old in olds:
        if not old['client'].expired:
            tree.expire(old['client'])
    for path in registered:
        node = tree.nodes.get(path)
        if node is None or node.owner != mine.sid:
            raise Violation(
                'c17.register.lost-after-expiry',
                '%s was reported registered on %s but is gone once the other '
                'sessions expired' % (path, myname))

    waited = clock.sleeps > 0
    if waited:
        stats.count('register_waited')
    if same_content:
        stats.count('register_same_content_foreign_node')
    if waited and gave_up is None:
        stats.count('register_took_over_after_wait')
    scope_all = [p for _m, scope in plan for p in scope]
    return bool(waited or
                (same_content and foreign_at_start & set(scope_all)))
