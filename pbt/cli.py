"""Entry point (keeps pbt.run importable under its own name)."""
import sys

from pbt.run import main

if __name__ == '__main__':
    sys.exit(main())
