"""Virtual clock installed in the modules under test in place of `time`.

The clock is an integer number of microseconds. time() returns it as a float
and advances it by 2us, so successive reads (and int(time()*1e6)) are strictly
increasing, as on a real machine. Everything else is delegated to the real
time module (mktime, tzname, ...).
"""

import time as _real_time

# Monday 2020-01-06 00:00:00 UTC
EPOCH0 = 1578268800


class VClock(object):
    """Stand-in for the time module."""

    def __init__(self, start=EPOCH0):
        self.us = int(start * 1000000)

    def time(self):
        now = self.us / 1000000.0
        self.us += 2
        return now

    def peek(self):
        return self.us / 1000000.0

    def sleep(self, seconds):
        self.us += max(0, int(seconds * 1000000))

    def advance(self, seconds):
        self.us += max(0, int(seconds * 1000000))

    def monotonic(self):
        return self.time()

    def __getattr__(self, name):
        return getattr(_real_time, name)


class Installed(object):
    """Context manager replacing `time` in the given modules."""

    def __init__(self, clock, modules):
        self.clock = clock
        self.modules = modules
        self.saved = []

    def __enter__(self):
        for mod in self.modules:
            self.saved.append((mod, mod.time))
            mod.time = self.clock
        return self.clock

    def __exit__(self, *exc):
        for mod, orig in self.saved:
            mod.time = orig
        self.saved = []
        return False
