"""Hypothesis strategies for E1/E2 cases (topologies, allocations, op lists)."""

from hypothesis import strategies as st

LEVELS = ('server', 'rack', 'pod', 'cell')

DAY = 24 * 3600


def vec(lo, hi):
    return st.lists(st.integers(lo, hi), min_size=3, max_size=3)


def trait_mask(nbits=3):
    # bit 0 is traits.INVALID in the loader; E1 uses bits 1..nbits
    return st.integers(0, (1 << nbits) - 1).map(lambda v: v << 1)


@st.composite
def server_spec(draw, nparts, cap_hi=16):
    return {
        'cap': draw(vec(2, cap_hi)),
        'part': draw(st.integers(0, nparts - 1)),
        'traits': draw(st.one_of(st.just(0), trait_mask())),
        'age': draw(st.sampled_from([0, 0, 3600, 5 * DAY, 19 * DAY])),
    }


@st.composite
def topology(draw, nparts, max_pods=3, max_racks=3, max_servers=3):
    pods = []
    if draw(st.integers(0, 2)) == 0:
        # a third of the cells are small: capacity pressure, limits that
        # bind, and the same server hit twice in a cycle are common there
        max_pods, max_racks, max_servers = 1, min(2, max_racks), \
            min(2, max_servers)
    for _p in range(draw(st.integers(1, max_pods))):
        racks = []
        for _r in range(draw(st.integers(1, max_racks))):
            racks.append(draw(st.lists(server_spec(nparts),
                                       min_size=0 if racks else 1,
                                       max_size=max_servers)))
        pods.append(racks)
    return pods


@st.composite
def affinities(draw, limits=True, dense=False):
    affs = []
    for idx in range(draw(st.integers(1, 3))):
        lim = {}
        if limits:
            for level in LEVELS:
                # dense: limits on half of the levels and mostly tight ones
                if draw(st.integers(0, 1 if dense else 3)) == 0:
                    lim[level] = draw(st.sampled_from([1, 1, 2, 3])) \
                        if dense else draw(st.integers(1, 3))
        affs.append({'name': 'aff%d' % idx, 'limits': lim})
    return affs


@st.composite
def allocations(draw, nparts, rich=False):
    """One default-like allocation per partition plus optional sub trees."""
    allocs = []
    for part in range(nparts):
        allocs.append({
            'part': part, 'path': ['_default', 'pr%d' % part],
            'reserved': None, 'rank': 100, 'adj': 0, 'maxutil': None,
            'traits': 0,
        })
    extra = draw(st.integers(0, 3 if rich else 2))
    for idx in range(extra):
        depth = draw(st.integers(1, 3))
        path = ['t%d' % draw(st.integers(0, 1)) for _ in range(depth - 1)]
        path.append('a%d' % idx)
        allocs.append({
            'part': draw(st.integers(0, nparts - 1)),
            'path': path,
            'reserved': draw(st.one_of(st.none(), vec(0, 12))),
            'rank': draw(st.sampled_from([100, 100, 99, 50, 0, 110])),
            'adj': draw(st.sampled_from([0, 0, 10, 20])),
            'maxutil': draw(st.sampled_from(
                [None, None, None, 0.5, 1.0, 1.5, 3.0])),
            'traits': draw(st.one_of(st.just(0), st.just(0), trait_mask())),
        })
    return allocs


def app_op(ngroups, lease=True, traits=True, demand_hi=8):
    leases = st.sampled_from([0, 0, 0, 3600, DAY, 6 * DAY, 30 * DAY]) \
        if lease else st.just(0)
    return st.tuples(
        st.just('app'),
        st.integers(0, 7),                     # allocation index
        st.integers(0, 2),                     # affinity index
        vec(0, demand_hi),
        st.sampled_from([0, 0, 1, 1, 1, 5, 50, 100]),
        leases,
        st.sampled_from([None, 0, 0, 30, 600, 3600, DAY]),
        st.one_of(st.none(), st.none(), st.integers(0, max(0, ngroups - 1)))
        if ngroups else st.none(),
        st.one_of(st.just(0), st.just(0), st.just(0), trait_mask())
        if traits else st.just(0),
        st.sampled_from([False, False, False, True]),
    ).map(list)


def op_strategies(nparts, ngroups, profile):
    """Map op kind -> strategy producing that op as a list."""
    idx = st.integers(0, 63)
    ops_app_e1 = app_op(ngroups, lease=False, traits=False,
                        demand_hi=profile.get('demand_hi', 8))
    ops = {
        'app': app_op(ngroups, lease=profile.get('lease', True),
                      traits=profile.get('traits', True),
                      demand_hi=profile.get('demand_hi', 8)),
        'rm': st.tuples(st.just('rm'), idx).map(list),
        'clone': st.tuples(st.just('clone'), idx,
                           st.sampled_from([1, 5, 50, 100, 100]),
                           st.sampled_from([[0, 0, 0], [0, 0, 0], [1, 0, 0],
                                            [1, 1, 1], [0, 2, 0]])).map(list),
        'prio': st.tuples(st.just('prio'), idx,
                          st.sampled_from([0, 1, 5, 50, 100])).map(list),
        'move': st.tuples(st.just('move'), idx, st.integers(0, 7)).map(list),
        'srv': st.tuples(st.just('srv'), st.integers(0, 8),
                         server_spec(nparts)).map(list),
        'rmsrv': st.tuples(st.just('rmsrv'), idx).map(list),
        'readd': st.tuples(st.just('readd'), idx,
                           st.integers(0, 8)).map(list),
        'down': st.tuples(st.just('down'), idx).map(list),
        'up': st.tuples(st.just('up'), idx).map(list),
        'fdown': st.tuples(st.just('fdown'), idx).map(list),
        'freeze': st.tuples(st.just('freeze'), idx,
                            st.lists(idx, max_size=2)).map(list),
        'unfreeze': st.tuples(st.just('unfreeze'), idx).map(list),
        'bl': st.tuples(st.just('bl'), idx, st.booleans()).map(list),
        'renew': st.tuples(st.just('renew'), idx).map(list),
        # the reboot slot of a server is assigned again (presence change)
        'reslot': st.tuples(st.just('reslot'), idx, st.sampled_from(
            [None, 0, 0, 1, 1, 2, 5, 7, 20])).map(list),
        'idg': st.tuples(st.just('idg'), st.integers(0, max(0, ngroups - 1)),
                         st.integers(0, 4)).map(list),
        'rmidg': st.tuples(st.just('rmidg'),
                           st.integers(0, max(0, ngroups - 1))).map(list),
        'strat': st.tuples(st.just('strat'), st.integers(0, 12),
                           st.integers(0, 2),
                           st.sampled_from(['pack', 'spread'])).map(list),
        'adv': st.tuples(st.just('adv'), st.sampled_from(
            [1, 10, 29, 31, 599, 601, 3599, 3601, DAY, 3 * DAY, 8 * DAY,
             22 * DAY])).map(list),
        'adv_ret': st.tuples(st.just('adv_ret'), idx, st.sampled_from(
            [-5, -1, 1, 5, 100])).map(list),
        'tick': st.just(['tick']),
        'cycle': st.just(['cycle']),
        # macro: a server with instances fails, a cycle runs, the clock moves
        # relative to a retention timeout, another cycle runs
        'downseq': st.tuples(idx, idx, st.sampled_from([-5, -1, 1, 5, 100]))
        .map(lambda t: ['macro', [['down', t[0]], ['cycle'],
                                  ['adv_ret', t[1], t[2]], ['cycle']]]),
        # macro: a server is frozen with instances marked, and un-frozen
        # again before any cycle ran
        'freezeflip': st.tuples(idx, st.lists(idx, min_size=1, max_size=2))
        .map(lambda t: ['macro', [['freeze', t[0], t[1]],
                                  ['unfreeze', t[0]]]]),
        # capacity pressure: low-priority instances sized to the free room
        'fill': st.tuples(st.just('fill'), st.integers(0, 2),
                          st.integers(1, 2)).map(list),
        # macro: the cell is filled up, then two instances of the shape of
        # one running instance arrive with a high priority in one cycle
        'fillclone2': st.tuples(st.integers(0, 2), st.integers(1, 2), idx,
                                st.sampled_from([50, 100]))
        .map(lambda t: ['macro', [['fill', t[0], t[1]], ['cycle'],
                                  ['clone', t[2], t[3], [0, 0, 0]],
                                  ['clone', t[2], t[3], [0, 0, 0]],
                                  ['cycle']]]),
        # macro: the cell is filled up, then a member of an identity group in
        # an allocation with a utilisation cap is outranked inside its
        # allocation by same-shape arrivals (over the cap and under pressure
        # in one cycle)
        'capsqueeze': st.tuples(st.integers(0, 2), st.integers(1, 2), idx,
                                st.sampled_from([50, 100]), st.booleans())
        .map(lambda t: ['macro', [['fill', t[0], t[1]], ['cycle'],
                                  ['capclone', t[2], t[3]]] +
                        ([['capclone', t[2], t[3]]] if t[4] else []) +
                        [['cycle']]]),
        # macro: a loaded server is frozen and same-shape instances of high
        # priority arrive (pressure on whatever still sits there)
        'freezepress': st.tuples(idx, idx, idx, st.sampled_from([50, 100]))
        .map(lambda t: ['macro', [['lfreeze', t[0], []],
                                  ['clone', t[1], t[3], [0, 0, 0]],
                                  ['clone', t[2], t[3], [0, 0, 0]],
                                  ['cycle']]]),
        # macro: an instance on a server that is not up (frozen / down) has
        # its allocation changed
        'notupmove': st.tuples(idx, st.booleans(), idx, st.integers(0, 7))
        .map(lambda t: ['macro', [['lfreeze', t[0], []] if t[1] else
                                  ['down', t[0]],
                                  ['xmove', t[2], t[3]], ['cycle']]]),
        # macro: a loaded server is frozen (nobody named), time passes, then
        # it goes down
        'freezedown': st.tuples(idx, st.sampled_from(
            [1, 31, 601, 3601, DAY]), st.sampled_from([-5, -1, 1, 5]), idx)
        .map(lambda t: ['macro', [['lfreeze', t[0], []], ['cycle'],
                                  ['adv', t[1]], ['fdown', t[0]], ['cycle'],
                                  ['adv_ret', t[3], t[2]], ['cycle']]]),
        # macro: a renewal is requested early, while the lease still runs
        'renewearly': st.tuples(idx, st.sampled_from([0, 60, 3600]))
        .map(lambda t: ['macro', [['cycle'], ['adv', t[1]] if t[1] else
                                  ['tick'], ['renew', t[0]], ['cycle'],
                                  ['renew', t[0]], ['cycle']]]),
        # macro: two instances of the shape of running ones arrive with a
        # high priority in the same cycle
        'clone2': st.tuples(idx, st.one_of(st.none(), idx),
                            st.sampled_from([50, 100]))
        .map(lambda t: ['macro', [['clone', t[0], t[2], [0, 0, 0]],
                                  ['clone', t[0] if t[1] is None else t[1],
                                   t[2], [0, 0, 0]],
                                  ['cycle']]]),
        # macro: a server is frozen, work goes on, it is un-frozen
        'freezework': st.tuples(idx, ops_app_e1, idx)
        .map(lambda t: ['macro', [['freeze', t[0], []], t[1], ['cycle'],
                                  ['rm', t[2]], ['cycle'],
                                  ['unfreeze', t[0]]]]),
        # macro: the reboot time of the servers passes and a renewal is
        # requested for a running instance
        'renewold': st.tuples(st.sampled_from([3 * DAY, 22 * DAY, 22 * DAY]),
                              idx)
        .map(lambda t: ['macro', [['adv', t[0]], ['renew', t[1]],
                                  ['cycle']]]),
        # macro: a server is frozen with an instance named, removed before
        # any cycle, and later another server is frozen without naming anyone
        'stalemark': st.tuples(st.integers(0, 15).map(lambda v: 4 * v),
                               st.lists(idx, min_size=1, max_size=2), idx)
        .map(lambda t: ['macro', [['freeze', t[0], t[1]], ['rmsrv', t[0]],
                                  ['cycle'], ['freeze', t[2], []],
                                  ['cycle']]]),
        # macro: a server with instances is removed, one of the instances
        # that lost its server is blacklisted before the next cycle
        'orphanbl': st.tuples(idx, st.integers(0, 31).map(lambda v: 2 * v + 1))
        .map(lambda t: ['macro', [['rmsrv', t[0]], ['bl', t[1], True],
                                  ['cycle']]]),
        # macro: the largest server of a rack fails, a smaller one joins the
        # rack, work lands on what was left (the aggregates of the rack and
        # of everything above it go down, up and down again)
        'rackshift': st.tuples(idx, st.integers(0, 2), st.integers(0, 3),
                               st.booleans())
        .map(lambda t: ['macro', [['downbig', t[0]]] +
                        ([['cycle']] if t[3] else []) +
                        [['srvsmall', t[0], t[1]], ['appbig', t[0], t[2]],
                         ['cycle']]]),
        # ... or its identity group shrinks before the next cycle
        'orphanidg': st.tuples(idx, st.integers(0, max(0, ngroups - 1)),
                               st.integers(0, 2))
        .map(lambda t: ['macro', [['rmsrv', t[0]], ['idg', t[1], t[2]],
                                  ['cycle']]]),
        # ... or unscheduled before the next cycle
        'orphanrm': st.tuples(idx, st.integers(0, 31).map(lambda v: 2 * v + 1))
        .map(lambda t: ['macro', [['rmsrv', t[0]], ['rm', t[1]],
                                  ['cycle']]]),
    }
    if not ngroups:
        ops.pop('idg')
        ops.pop('rmidg')
        ops.pop('orphanidg')
    return ops


def flatten(ops):
    out = []
    for op in ops:
        if op[0] == 'macro':
            out.extend(op[1])
        else:
            out.append(op)
    return out


DEFAULT_WEIGHTS = {
    'app': 10, 'clone': 2, 'rm': 2, 'prio': 1, 'move': 1, 'srv': 1, 'rmsrv': 1,
    'readd': 1, 'down': 2, 'up': 2, 'downseq': 0, 'freezeflip': 0,
    'orphanbl': 0, 'orphanrm': 0, 'rackshift': 0, 'capsqueeze': 0, 'orphanidg': 0, 'stalemark': 0, 'renewearly': 0,
    'clone2': 0, 'freezedown': 0, 'fdown': 0, 'fill': 0, 'fillclone2': 0, 'freezepress': 0, 'notupmove': 0, 'freezework': 0, 'renewold': 0, 'freeze': 1, 'unfreeze': 1, 'bl': 1,
    'renew': 1, 'reslot': 1, 'idg': 1, 'rmidg': 1, 'strat': 1, 'adv': 2, 'adv_ret': 1,
    'tick': 1, 'cycle': 8,
}


@st.composite
def cell_case(draw, profile=None):
    """A full E1 case."""
    profile = profile or {}
    nparts = draw(st.integers(1, profile.get('max_parts', 2)))
    ngroups = draw(st.integers(0, 2)) if profile.get('groups', True) else 0
    case = {
        't0': draw(st.sampled_from([0, 3600 * 5, DAY * 3 + 7200])),
        'topo': draw(topology(nparts,
                              max_pods=profile.get('max_pods', 2),
                              max_racks=profile.get('max_racks', 2),
                              max_servers=profile.get('max_servers', 3))),
        'affs': draw(affinities(limits=profile.get('limits', True),
                                dense=profile.get('dense_limits', False))),
        'allocs': draw(allocations(nparts, rich=profile.get('rich_allocs',
                                                            False))),
        'groups': [draw(st.integers(0, 4)) for _ in range(ngroups)],
    }
    strategies = op_strategies(nparts, ngroups, profile)
    weights = dict(DEFAULT_WEIGHTS)
    weights.update(profile.get('weights', {}))
    # swarm: each case enables a random subset of the optional op kinds
    optional = [k for k in strategies if k not in ('app', 'cycle')]
    enabled = draw(st.sets(st.sampled_from(sorted(optional)),
                           min_size=min(2, len(optional))))
    forced = set(profile.get('force', ()))
    pool = []
    for kind in sorted(strategies):
        if kind in ('app', 'cycle') or kind in enabled or kind in forced:
            pool.extend([kind] * weights.get(kind, 1))
    one_op = st.sampled_from(pool).flatmap(lambda kind: strategies[kind])
    pre_lo, pre_hi = profile.get('pre', (2, 14))
    pre = draw(st.lists(strategies['app'], min_size=pre_lo, max_size=pre_hi))
    ops = draw(st.lists(one_op, min_size=profile.get('min_ops', 4),
                        max_size=profile.get('max_ops', 40)))
    ops = pre + [['cycle']] + flatten(ops)
    ops.append(['cycle'])
    case['ops'] = ops
    return case


# ===================================================================== E2
PROIDS = ['pra', 'prb', 'prc']
BL_PATTERNS = ['pra.*', 'prb.aff0', 'prc.aff1', '*.aff2', 'pr?.aff0',
               '*.aff0', 'pr[ab].*']
TRAIT_NAMES = ['ta', 'tb', 'tc']


@st.composite
def e2_server_spec(draw, nparts, up=True):
    return {
        'cap': draw(vec(2, 16)),
        'part': draw(st.integers(0, nparts - 1)),
        'traits': draw(st.one_of(st.just(0), trait_mask())),
        'age': draw(st.sampled_from([0, 0, 3600, 5 * DAY, 19 * DAY])),
        'style': draw(st.integers(0, 7)),
        'up': draw(st.sampled_from([True, True, True, True, False]))
        if not up else True,
        # a self-detected trait that is not in the published /traits list;
        # only servers of the initial topology may carry it (see E2 notes)
        'tx': draw(st.sampled_from([False, False, True])) if not up
        else False,
        'ty': draw(st.sampled_from([False, False, False, True])) if not up
        else False,
    }


@st.composite
def e2_allocs(draw, nparts):
    allocs = []
    for idx in range(draw(st.integers(0, 3))):
        name = draw(st.sampled_from(['ten%d/a%d', 'ten%d:a%d'])) % (
            draw(st.integers(0, 1)), idx)
        assigns = []
        for _ in range(draw(st.integers(1, 2))):
            proid = draw(st.sampled_from(PROIDS))
            pat = draw(st.sampled_from(
                ['%s.*', '%s.aff0', '%s.aff1*', '%s.aff[12]']))
            assigns.append([pat % proid,
                            draw(st.sampled_from([0, 1, 1, 10, 100]))])
        allocs.append({
            'name': name,
            'part': draw(st.integers(0, nparts - 1)),
            'reserved': draw(st.one_of(st.none(), vec(0, 12))),
            'rank': draw(st.sampled_from([100, 100, 99, 50, 0])),
            'adj': draw(st.sampled_from([0, 0, 10, 20])),
            'maxutil': draw(st.sampled_from(
                [None, None, None, 0.5, 1.0, 1.5, 3.0])),
            'traits': draw(st.sampled_from(
                [0, 0, 0, 1, 2, 4, 3, 8, 8, 9, 16, 24])),
            'assign': assigns,
            'style': draw(st.integers(0, 7)),
        })
    return allocs


def e2_op_strategies(nparts, ngroups, profile):
    idx = st.integers(0, 63)
    lease = st.sampled_from([None, None, None, '1h', '1d', '6d', '30d']) \
        if profile.get('lease', True) else st.none()
    traits = st.sampled_from(
        [[], [], [], ['ta'], ['tb'], ['ta', 'tb'], ['nosuch'], ['tx'],
         ['ta', 'tx'], ['ty'], ['tx', 'ty']]) \
        if profile.get('traits', True) else st.just([])
    group = st.one_of(st.none(), st.none(),
                      st.integers(0, max(0, ngroups - 1))) \
        if ngroups else st.none()
    ops_app_placeholder = st.tuples(
        st.just('app'), st.sampled_from(PROIDS), st.integers(0, 2),
        vec(0, 2), st.just(None), st.none(), st.none(), group,
        st.just([]), st.just(False), st.just(1), st.integers(0, 7)).map(list)
    ops = {
        'app': st.tuples(
            st.just('app'), st.sampled_from(PROIDS), st.integers(0, 2),
            vec(0, profile.get('demand_hi', 8)),
            st.sampled_from([None, None, 0, 1, 5, 50, 100]),
            lease,
            st.sampled_from(profile.get(
                'retention', [None, '0s', '30s', '10m', '1h', '1d'])),
            group, traits,
            st.sampled_from([False, False, False, True]),
            st.sampled_from([1, 1, 1, 2, 3]),
            st.integers(0, 7)).map(list),
        'rm': st.tuples(st.just('rm'), idx).map(list),
        'finish': st.tuples(st.just('finish'), idx).map(list),
        'rmlast': st.just(['rmlast']),
        'prio': st.tuples(st.just('prio'), idx,
                          st.sampled_from([0, 1, 5, 50, 100])).map(list),
        'srv': st.tuples(st.just('srv'), st.integers(0, 8),
                         e2_server_spec(nparts, up=False).map(
                             lambda sp: dict(sp, tx=False, ty=False))).map(list),
        'rmsrv': st.tuples(st.just('rmsrv'), idx).map(list),
        'down': st.tuples(st.just('down'), idx).map(list),
        'up': st.tuples(st.just('up'), idx, st.one_of(
            st.none(), st.none(), e2_server_spec(nparts))).map(list),
        'reboot': st.tuples(st.just('reboot'), idx, st.one_of(
            st.none(), e2_server_spec(nparts))).map(list),
        'resize': st.tuples(st.just('resize'), idx, vec(2, 16),
                            st.integers(0, 7)).map(list),
        'shave': st.tuples(st.just('shave'), idx, st.integers(0, 2),
                           st.sampled_from([1, 1, 2, 3])).map(list),
        'repart': st.tuples(st.just('repart'), idx,
                            st.integers(0, 2)).map(list),
        'reparent': st.tuples(st.just('reparent'), idx,
                              st.integers(0, 8)).map(list),
        'state': st.tuples(st.just('state'), idx,
                           st.sampled_from(['frozen', 'frozen', 'up', 'down']),
                           st.lists(idx, max_size=2)).map(list),
        'allocs': st.tuples(st.just('allocs'), e2_allocs(nparts)).map(list),
        'idg': st.tuples(st.just('idg'), st.integers(0, max(0, ngroups - 1)),
                         st.integers(0, 4)).map(list),
        'rmidg': st.tuples(st.just('rmidg'),
                           st.integers(0, max(0, ngroups - 1))).map(list),
        'bl': st.tuples(st.just('bl'), st.lists(st.sampled_from(BL_PATTERNS),
                                                max_size=2)).map(list),
        # macro: entries are added to the blacklist, a cycle runs, then some
        # are cleared while others (possibly matching the same instances)
        # stay
        'blchurn': st.tuples(
            st.lists(st.sampled_from(BL_PATTERNS), min_size=1, max_size=2),
            st.lists(st.sampled_from(BL_PATTERNS), min_size=1, max_size=2))
        .map(lambda t: ['macro', [['bl', t[0] + t[1]], ['cycle'],
                                  ['bl', t[0]], ['cycle']]]),
        'blackout': st.tuples(st.just('blackout'), idx,
                              st.booleans()).map(list),
        'cellev': st.tuples(st.just('cellev'), st.integers(0, 3),
                            st.booleans()).map(list),
        'cellrm': st.tuples(st.just('cellrm'), st.integers(0, 3)).map(list),
        # macro: a node goes down, the master notices, and it comes back
        # rebuilt with the same capacity but other traits
        'retrait': st.tuples(idx, trait_mask(), st.booleans())
        .map(lambda t: ['macro', [['down', t[0]], ['cycle'],
                                  ['uptrait', t[0], t[1]]] +
                        ([['cycle']] if t[2] else [])]),
        # macro: a server is deleted while no master handles the event, then
        # the start-up of the next master is crashed at every write
        'rmsrvcrashrestart': st.tuples(idx, st.booleans())
        .map(lambda t: ['macro', [['cycle'], ['rmsrv', t[0]]] +
                        ([['down', t[0]]] if t[1] else []) +
                        [['crashrestart']]]),
        # macro: the operator freezes two servers in a row (one delivery),
        # then work arrives
        'stateburst': st.tuples(idx, idx, ops_app_placeholder,
                                ops_app_placeholder)
        .map(lambda t: ['macro', [['cycle'], ['state', t[0], 'frozen', []],
                                  ['state', t[1], 'frozen', []], ['cycle'],
                                  t[2], t[3], ['cycle']]]),
        # macro: a burst of admin events (more than the master's batch size
        # of 20) reaches the master in one delivery
        'evburst': st.lists(st.tuples(idx, vec(1, 16), st.integers(0, 7)),
                            min_size=21, max_size=26)
        .map(lambda ts: ['macro', [['resize', t[0], t[1], t[2]] for t in ts] +
                         [['cycle']]]),
        # macro: a loaded server bounces (same record) while its instances
        # are within their retention, new instances (leased / schedule-once)
        # are placed, then a new master starts: the server holds records on
        # both sides of its presence node
        'bounceplace': st.tuples(idx, st.booleans(), ops_app_placeholder,
                                 ops_app_placeholder,
                                 st.sampled_from(['1h', '1d', '6d']))
        .map(lambda t: ['macro', [['down', t[0]]] +
                        ([['cycle']] if t[1] else []) +
                        [['uptrait', t[0], None], ['cycle'],
                         t[2][:5] + [t[4]] + t[2][6:],
                         t[3][:9] + [True] + t[3][10:],
                         ['cycle'], ['restart'], ['cycle']]]),
        # macro: instances are stopped (or finish) while no master handles
        # the event, then a new master starts on the stale records
        'rmrestart': st.tuples(st.lists(idx, min_size=1, max_size=3),
                               st.booleans())
        .map(lambda t: ['macro', [['cycle']] +
                        [['finish' if t[1] else 'rm', i] for i in t[0]] +
                        [['restart'], ['cycle']]]),
        # macro: the record of a loaded server is pointed at a rack nobody
        # defined (update_server_parent does not validate), work goes on
        'badparent': st.tuples(idx, ops_app_placeholder, st.booleans())
        .map(lambda t: ['macro', [['reparent', t[0], 8], ['cycle'], t[1],
                                  ['cycle']] +
                        ([['restart'], ['cycle']] if t[2] else [])]),
        # ... then a publication step is crashed
        'badparentcrash': st.tuples(idx, ops_app_placeholder)
        .map(lambda t: ['macro', [['reparent', t[0], 8], ['ev'], ['ev'],
                                  t[1], ['crashcycle']]]),
        # a rack is re-defined under another pod
        'rebucket': st.tuples(st.just('rebucket'), st.integers(0, 8),
                              st.integers(0, 3)).map(list),
        # macro: ... after work has been placed, and more work follows
        'rebucketwork': st.tuples(st.integers(0, 8), st.integers(0, 3),
                                  ops_app_placeholder)
        .map(lambda t: ['macro', [['cycle'], ['rebucket', t[0], t[1]],
                                  ['cycle'], t[2], ['cycle']]]),
        # the definition of a rack is deleted under its servers
        'rmbucket': st.tuples(st.just('rmbucket'),
                              st.integers(0, 8)).map(list),
        # macro: ... then work arrives and a new master starts
        'rmbucketrestart': st.tuples(st.integers(0, 8), ops_app_placeholder,
                                     st.booleans())
        .map(lambda t: ['macro', [['rmbucket', t[0]], t[1], ['cycle']] +
                        ([['down', t[0]], ['cycle']] if t[2] else []) +
                        [['restart'], ['cycle']]]),
        # macro: ... then a publication step is crashed
        'rmbucketcrash': st.tuples(st.integers(0, 8), ops_app_placeholder)
        .map(lambda t: ['macro', [['rmbucket', t[0]], t[1],
                                  ['crashcycle']]]),
        'partsched': st.tuples(st.just('partsched'), st.integers(0, 3),
                               st.integers(0, 5)).map(list),
        # macro: a new master starts while an instance has placement records
        # under two servers
        'dupstart': st.tuples(idx, idx)
        .map(lambda t: ['macro', [['cycle'], ['duprecord', t[0], t[1]],
                                  ['restart'], ['cycle']]]),
        'running': st.tuples(st.just('running'), idx).map(list),
        'renew': st.tuples(st.just('renew'), idx).map(list),
        'adv': st.tuples(st.just('adv'), st.sampled_from(
            [1, 10, 29, 31, 301, 599, 601, 3599, 3601, DAY, 3 * DAY, 8 * DAY,
             22 * DAY])).map(list),
        'adv_ret': st.tuples(st.just('adv_ret'), idx, st.sampled_from(
            [-5, -1, 1, 5, 100])).map(list),
        'tickreboots': st.just(['tickreboots']),
        'checkreboot': st.just(['checkreboot']),
        'integrity': st.just(['integrity']),
        'enq': st.just(['enq']),
        'proc': st.just(['proc']),
        'ev': st.just(['ev']),
        'sched': st.just(['sched']),
        'cycle': st.just(['cycle']),
        'restart': st.just(['restart']),
        'downseq': st.tuples(idx, idx, st.sampled_from([-5, -1, 1, 5, 100]))
        .map(lambda t: ['macro', [['down', t[0]], ['cycle'],
                                  ['adv_ret', t[1], t[2]], ['cycle']]]),
        'downrestart': st.tuples(idx, idx, st.sampled_from([1, 5, 100]))
        .map(lambda t: ['macro', [['down', t[0]], ['cycle'], ['restart'],
                                  ['adv_ret', t[1], t[2]], ['cycle']]]),
        'freezeflip': st.tuples(idx, st.lists(idx, min_size=1, max_size=2))
        .map(lambda t: ['macro', [['state', t[0], 'frozen', t[1]],
                                  ['state', t[0], 'up', []]]]),
        # macro: a cycle runs between an admin deleting a server and the
        # master handling the event, with a fresh instance to place
        'rmsrvrace': st.tuples(ops_app_placeholder, idx)
        .map(lambda t: ['macro', [t[0], ['ev'], ['ev'], ['rmsrv', t[1]],
                                  ['sched']]]),
        # a server flaps with a changed record, then fails again much later
        'flap': st.tuples(st.just('flap'), idx, e2_server_spec(nparts),
                          st.sampled_from([3601, 86401, 90000])).map(list),
        # macro: a server bounces and is moved to another rack
        'bouncemove': st.tuples(idx, st.integers(0, 8))
        .map(lambda t: ['macro', [['reboot', t[0], None],
                                  ['reparent', t[0], t[1]], ['cycle']]]),
        # macro: churn, then the group is resized while no master looks, and
        # a new master starts
        'idgrestart': st.tuples(idx, ops_app_placeholder, st.integers(0, 1),
                                st.integers(0, 3))
        .map(lambda t: ['macro', [['rm', t[0]], t[1], ['cycle'],
                                  ['idg', t[2], t[3]], ['restart'],
                                  ['cycle']]]),
        # macro: allocations change, then a publication step is crashed
        'allocscrash': e2_allocs(nparts)
        .map(lambda a: ['macro', [['allocs', a], ['crashcycle']]]),
        # macro: instances with a lease are running when the reboot schedule
        # of their partition changes and a new master starts
        'leasesched': st.tuples(ops_app_placeholder,
                                st.sampled_from(['1h', '1d', '6d']),
                                st.integers(1, 3), st.integers(0, 3),
                                st.integers(0, 5),
                                st.sampled_from([[], [8 * DAY],
                                                 [8 * DAY, 3 * DAY],
                                                 [8 * DAY, 8 * DAY],
                                                 [8 * DAY, 8 * DAY, 3 * DAY]]))
        .map(lambda t: ['macro', [['adv', d] for d in t[5]] +
                        [t[0][:5] + [t[1]] + t[0][6:10] + [t[2]] +
                         t[0][11:], ['cycle'],
                         ['partsched', t[3], t[4]], ['restart']]]),
        # macro: a bucket leaves the cell and comes back
        'cellbounce': st.tuples(st.integers(0, 3), st.integers(0, 3))
        .map(lambda t: ['macro', [['cellrm', t[0]], ['cycle'],
                                  ['cellev', t[1], True], ['cycle']]]),
        # macro: allocations are configured, instances run, then the same
        # allocations (same names) move to other partitions / change traits
        'allocrepart': st.tuples(e2_allocs(nparts), st.integers(1, 2),
                                 st.booleans())
        .map(lambda t: ['macro', [
            ['allocs', t[0]], ['cycle'],
            ['allocs', [dict(a, part=(a['part'] + t[1]) % nparts,
                             traits=0 if t[2] else a['traits'])
                        for a in t[0]]],
            ['cycle']]]),
        # macro: a bucket leaves the cell, then a publication step is crashed
        'cellrmcrash': st.integers(0, 3)
        .map(lambda p: ['macro', [['cellrm', p], ['crashcycle']]]),
        # macro: two requests about one placed instance race through
        # different watches (priority change, then delete)
        'priorm': st.tuples(idx, st.sampled_from([0, 5, 50]))
        .map(lambda t: ['macro', [['prio', t[0], t[1]], ['rmlast']]]),
        # macro: a loaded server shrinks so that not everything fits any more
        'shrink': st.tuples(idx, vec(0, 3), st.integers(0, 7))
        .map(lambda t: ['macro', [['resize', t[0], t[1], t[2]]] +
                        [[extra] for extra in profile.get('after_shrink',
                                                          ['cycle'])]]),
        'stalemark': st.tuples(idx, st.lists(idx, min_size=1, max_size=2),
                               idx)
        .map(lambda t: ['macro', [['state', t[0], 'frozen', t[1]],
                                  ['rmsrv', t[0]], ['cycle'],
                                  ['state', t[2], 'frozen', []],
                                  ['cycle']]]),
    }
    if not ngroups:
        ops.pop('idg')
        ops.pop('rmidg')
    for extra in profile.get('extra_ops', ()):
        ops[extra] = st.just([extra])
    return ops


E2_WEIGHTS = {
    'app': 10, 'rm': 2, 'rmlast': 1, 'finish': 1, 'prio': 1, 'srv': 1, 'rmsrv': 1,
    'down': 2, 'up': 2, 'downseq': 0, 'downrestart': 0, 'freezeflip': 0,
    'stalemark': 0, 'rmsrvrace': 0, 'priorm': 0, 'shrink': 0, 'flap': 0,
    'bouncemove': 0, 'idgrestart': 0, 'allocscrash': 0, 'blchurn': 0,
    'dupstart': 0, 'cellrmcrash': 0, 'cellbounce': 0, 'partsched': 0,
    'leasesched': 0, 'allocrepart': 0,
    'reboot': 1, 'resize': 1, 'shave': 1, 'repart': 1, 'reparent': 1,
    'state': 1, 'allocs': 1, 'idg': 1, 'rmidg': 1, 'bl': 1, 'blackout': 1,
    'cellev': 1, 'cellrm': 0, 'rmbucket': 0, 'rmbucketrestart': 0,
    'rmbucketcrash': 0, 'badparent': 0, 'badparentcrash': 0, 'rmrestart': 0, 'evburst': 0, 'retrait': 0, 'rebucket': 0,
    'bounceplace': 0, 'rebucketwork': 0, 'rmsrvcrashrestart': 0,
    'stateburst': 0, 'running': 1, 'adv': 2, 'adv_ret': 1, 'tickreboots': 1,
    'checkreboot': 1, 'integrity': 1, 'enq': 1, 'proc': 1, 'ev': 3,
    'sched': 3, 'cycle': 6, 'restart': 1,
}


@st.composite
def master_case(draw, profile=None):
    """A full E2 case."""
    profile = profile or {}
    nparts = draw(st.integers(1, profile.get('max_parts', 2)))
    ngroups = draw(st.integers(0, 2)) if profile.get('groups', True) else 0
    pods = []
    for _p in range(draw(st.integers(1, profile.get('max_pods', 2)))):
        racks = []
        for _r in range(draw(st.integers(1, profile.get('max_racks', 2)))):
            racks.append(draw(st.lists(
                e2_server_spec(nparts, up=False).map(
                    lambda sp: dict(sp, up=True)
                    if sp.get('tx') or sp.get('ty') else sp),
                min_size=0 if racks else profile.get('min_servers', 1),
                max_size=profile.get('max_servers', 3))))
        pods.append(racks)
    case = {
        'engine': 'e2',
        't0': draw(st.sampled_from([0, 3600 * 5, DAY * 3 + 7200])),
        'unit': draw(st.sampled_from(profile.get('units', [1, 1, 1024]))),
        'order': draw(st.integers(0, 3)),
        'nparts': nparts,
        'topo': pods,
        'affs': draw(affinities(limits=profile.get('limits', True),
                                dense=profile.get('dense_limits', False))),
        'allocs': draw(e2_allocs(nparts)),
        'groups': [draw(st.integers(0, 4)) for _ in range(ngroups)],
    }
    strategies = e2_op_strategies(nparts, ngroups, profile)
    weights = dict(E2_WEIGHTS)
    weights.update(profile.get('weights', {}))
    core = ('app', 'cycle', 'ev', 'sched')
    optional = [k for k in strategies if k not in core]
    enabled = draw(st.sets(st.sampled_from(sorted(optional)), min_size=3))
    forced = set(profile.get('force', ()))
    pool = []
    for kind in sorted(strategies):
        if kind in core or kind in enabled or kind in forced:
            pool.extend([kind] * weights.get(kind, 1))
    one_op = st.sampled_from(pool).flatmap(lambda kind: strategies[kind])
    pre_lo, pre_hi = profile.get('pre', (1, 8))
    pre = draw(st.lists(strategies['app'], min_size=pre_lo, max_size=pre_hi))
    ops = draw(st.lists(one_op, min_size=profile.get('min_ops', 4),
                        max_size=profile.get('max_ops', 30)))
    case['ops'] = pre + [['cycle']] + flatten(ops)
    return case


def tagged(e1_profile, e2_profile, e2_share=3):
    """one_of(E1 case, E2 case); e2_share out of 10 cases are E2."""
    e1 = cell_case(e1_profile).map(lambda c: dict(c, engine='e1'))
    e2 = master_case(e2_profile)
    return st.integers(0, 9).flatmap(
        lambda k: e2 if k < e2_share else e1)
