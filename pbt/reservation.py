"""E7 - reservation API (treadmill.api.allocation) against an integer model.

Three independent pieces live here:

* ``FakeLdap`` - an in-memory directory implementing the handful of
  ``treadmill.admin._ldap.Admin`` methods that the object layer uses (get,
  paged_search, create, update, delete, dn).  The REAL object layer
  (``_ldap.CellAllocation`` / ``_ldap.Partition`` with their to_entry /
  from_entry conversions, defaults and ``_id`` reconstruction) and the REAL
  exception translation (``treadmill.admin.WrappedAdmin``) sit on top of it, so
  the API under test sees exactly the record shapes the LDAP backend gives it.
* ``Model`` - the reference: plain integer arithmetic over bytes and cpu
  percent with its own parser for the schema-valid spellings.  It shares no code
  with treadmill.utils.
* ``cases`` - the Hypothesis strategy.  It carries a copy of the model while it
  draws a sequence, so every request can be aimed at the current head-room
  (exact fit, one unit over, ...) of the partition and of the limited traits the
  request carries.
"""

import copy
import re

from hypothesis import strategies as st

K = 1024
_SCALE = {'K': K, 'M': K * K, 'G': K * K * K}
_BYTES_RE = re.compile(r'^(\d+)([KkMmGg])$')
_CPU_RE = re.compile(r'^(\d+)%$')

DIMS = ('cpu', 'memory', 'disk')
DEFAULT_PARTITION = '_default'
TRAITS = ('a', 'b', 'c', 'd')


# --------------------------------------------------------------------------
# reference arithmetic
# --------------------------------------------------------------------------

def parse_bytes(text):
    """'12G' -> bytes.  Only the spellings the JSON schema / CLI allow."""
    match = _BYTES_RE.match(text)
    if not match:
        raise AssertionError('harness: not a schema-valid size: %r' % (text,))
    return int(match.group(1)) * _SCALE[match.group(2).upper()]


def parse_cpu(text):
    match = _CPU_RE.match(text)
    if not match:
        raise AssertionError('harness: not a schema-valid cpu: %r' % (text,))
    return int(match.group(1))


def amounts(rec):
    """(cpu %, memory bytes, disk bytes) of a record holding spellings."""
    return {
        'cpu': parse_cpu(rec['cpu']),
        'memory': parse_bytes(rec['memory']),
        'disk': parse_bytes(rec['disk']),
    }


class Model(object):
    """What has been promised, as integers."""

    def __init__(self):
        # (cell, partition) -> {'cap': {dim: int}, 'limits': {trait: {dim: int}}}
        self.partitions = {}
        # 'tenant/alloc/cell' -> {'cell', 'partition', 'amt': {dim: int},
        #                         'traits': [..], 'raw': {...}}
        self.rsv = {}

    def clone(self):
        return copy.deepcopy(self)

    def add_partition(self, part):
        self.partitions[(part['cell'], part['name'])] = {
            'cap': amounts(part),
            'limits': {lim['trait']: amounts(lim)
                       for lim in part.get('limits', [])},
        }

    def put(self, rid, cell, rec):
        self.rsv[rid] = {
            'cell': cell,
            'partition': rec['partition'],
            'amt': amounts(rec),
            'traits': sorted(set(rec.get('traits', []))),
            'raw': {dim: rec[dim] for dim in DIMS},
        }

    def headroom(self, cell, partition, traits, exclude):
        """Free capacity per scope for a reservation `exclude` that would sit
        in (cell, partition) carrying `traits`: [(scope, {dim: free})]."""
        part = self.partitions.get((cell, partition))
        if part is None:
            part = {'cap': {'cpu': 0, 'memory': 0, 'disk': 0}, 'limits': {}}
        others = [
            rsv for rid, rsv in sorted(self.rsv.items())
            if rid != exclude and rsv['cell'] == cell and
            rsv['partition'] == partition
        ]
        scopes = []
        free = dict(part['cap'])
        for rsv in others:
            for dim in DIMS:
                free[dim] -= rsv['amt'][dim]
        scopes.append(('partition', free))
        for trait in sorted(set(traits)):
            if trait not in part['limits']:
                continue
            free = dict(part['limits'][trait])
            for rsv in others:
                if trait in rsv['traits']:
                    for dim in DIMS:
                        free[dim] -= rsv['amt'][dim]
            scopes.append(('trait:' + trait, free))
        return scopes

    def misfits(self, cell, partition, traits, amt, exclude):
        """[(scope, dim, want, free)] for everything that does not fit."""
        out = []
        for scope, free in self.headroom(cell, partition, traits, exclude):
            for dim in DIMS:
                if amt[dim] > free[dim]:
                    out.append((scope, dim, amt[dim], free[dim]))
        return out

    def sharers(self, cell, partition, traits, exclude):
        """Limited traits of the request that another reservation carries."""
        part = self.partitions.get((cell, partition))
        if part is None:
            return []
        found = []
        for trait in sorted(set(traits)):
            if trait not in part['limits']:
                continue
            for rid, rsv in self.rsv.items():
                if rid != exclude and rsv['cell'] == cell and \
                        rsv['partition'] == partition and \
                        trait in rsv['traits']:
                    found.append(trait)
                    break
        return found


# --------------------------------------------------------------------------
# fake directory under the real object layer
# --------------------------------------------------------------------------

class _Standard(object):
    """connection.extend.standard of the stand-in."""

    def __init__(self, conn):
        self._conn = conn

    def paged_search(self, search_base, search_filter,
                     search_scope='SUBTREE', dereference_aliases=None,
                     attributes=None, paged_size=100,
                     paged_criticality=False, generator=True, **_kwargs):
        assert generator
        return self._generate(search_base, search_filter, search_scope,
                              attributes)

    def _generate(self, search_base, search_filter, search_scope,
                  attributes):
        # ldap3.extend.standard.PagedSearch.paged_search_generator: the
        # search runs when the generator is first advanced; the connection
        # does not raise (raise_exceptions=False), the outcome is left in
        # connection.result; entries are handed out with responses.pop().
        conn = self._conn
        conn.search(search_base, search_filter, search_scope,
                    attributes=attributes)
        responses = list(conn.response)
        while responses:
            yield responses.pop()
        conn.response = None


class _Extend(object):
    def __init__(self, conn):
        self.standard = _Standard(conn)


class FakeConnection(object):
    """In-memory stand-in for the ldap3.Connection that treadmill.admin
    opens (sync strategy, raise_exceptions=False, return_empty_attributes=
    False): dn -> {attribute: [str values]}.

    Semantics kept: an operation never raises, its outcome is in `.result`
    (0 success, 32 noSuchObject, 68 entryAlreadyExists, 16 noSuchAttribute);
    BASE / SUBTREE scope; filters are (attr=value), (attr=*) and (&...) of
    those; an equality or presence clause on an attribute the entry does not
    have is simply false; attribute names and values compare ignoring case;
    asking for an attribute returns its ';option' subtypes too.
    """

    raise_exceptions = False

    def __init__(self):
        self.entries = {}
        self.result = None
        self.response = None
        self.extend = _Extend(self)
        self.ops = 0

    def _done(self, code, description, dn, kind):
        self.result = {'result': code, 'description': description, 'dn': dn,
                       'message': '', 'type': kind, 'referrals': None,
                       'controls': {}}
        return code == 0

    @staticmethod
    def _clauses(search_filter):
        text = str(search_filter)
        clauses = re.findall(r'\(([^()=&]+)=([^()]*)\)', text)
        rebuilt = ''.join('(%s=%s)' % kv for kv in clauses)
        if len(clauses) > 1:
            rebuilt = '(&%s)' % rebuilt
        if rebuilt != text:
            raise AssertionError('harness: unsupported filter %r' % text)
        return clauses

    @staticmethod
    def _values(entry, attr):
        """Values of `attr` (any option subtype), None if absent."""
        found = None
        for key, values in entry.items():
            if key.split(';')[0].lower() == attr.lower():
                found = (found or []) + list(values)
        return found

    def _matches(self, entry, clauses):
        for attr, value in clauses:
            have = self._values(entry, attr)
            if have is None:
                return False            # absent attribute matches nothing
            if value == '*':
                continue
            if value.lower() not in [v.lower() for v in have]:
                return False
        return True

    def search(self, search_base, search_filter, search_scope='SUBTREE',
               dereference_aliases=None, attributes=None, **_kwargs):
        self.ops += 1
        clauses = self._clauses(search_filter)
        self.response = []
        # (the ou= containers are not materialised: a SUBTREE search under
        # an empty container succeeds with no entries)
        if search_scope == 'BASE':
            if search_base not in self.entries:
                return self._done(32, 'noSuchObject', search_base,
                                  'searchResDone')
            cands = [search_base]
        else:
            cands = sorted(
                dn for dn in self.entries
                if dn == search_base or dn.endswith(',' + search_base))
        wanted = None
        if attributes is not None and '*' not in attributes:
            wanted = set(attr.lower() for attr in attributes)
        for dn in cands:
            entry = self.entries[dn]
            if not self._matches(entry, clauses):
                continue
            attrs = {
                key: list(values) for key, values in entry.items()
                if wanted is None or key.split(';')[0].lower() in wanted
            }
            self.response.append({'dn': dn, 'attributes': attrs,
                                  'raw_attributes': attrs,
                                  'type': 'searchResEntry'})
        return self._done(0, 'success', '', 'searchResDone')

    def add(self, dn, object_class=None, attributes=None):
        self.ops += 1
        if dn in self.entries:
            return self._done(68, 'entryAlreadyExists', dn, 'addResponse')
        entry = {}
        for key, values in (attributes or {}).items():
            if not isinstance(values, (list, tuple)):
                values = [values]
            if not values:
                raise AssertionError('harness: add with empty %r' % key)
            entry[key] = [str(v) for v in values]
        self.entries[dn] = entry
        return self._done(0, 'success', '', 'addResponse')

    def modify(self, dn, changes):
        import ldap3
        self.ops += 1
        if dn not in self.entries:
            return self._done(32, 'noSuchObject', dn, 'modifyResponse')
        entry = dict(self.entries[dn])
        for attr, mods in changes.items():
            for kind, values in mods:
                keys = [k for k in entry if k.lower() == attr.lower()]
                if kind == ldap3.MODIFY_DELETE:
                    if not keys:
                        return self._done(16, 'noSuchAttribute', dn,
                                          'modifyResponse')
                    for key in keys:
                        del entry[key]
                elif kind in (ldap3.MODIFY_ADD, ldap3.MODIFY_REPLACE):
                    for key in keys:
                        del entry[key]
                    if values:
                        entry[attr] = [str(v) for v in values]
                else:
                    raise AssertionError('harness: modify op %r' % (kind,))
        self.entries[dn] = entry
        return self._done(0, 'success', '', 'modifyResponse')

    def delete(self, dn):
        self.ops += 1
        if dn not in self.entries:
            return self._done(32, 'noSuchObject', dn, 'delResponse')
        del self.entries[dn]
        return self._done(0, 'success', '', 'delResponse')

    def unbind(self):
        pass


class Directory(object):
    """The real admin stack (AdminLdapBackend -> WrappedAdmin -> _ldap.Admin
    and the _ldap object classes) over FakeConnection."""

    def __init__(self):
        from treadmill.admin import ldapbackend
        self.conn = FakeConnection()
        self.backend = ldapbackend.AdminLdapBackend('ldap://verif',
                                                    'dc=verif')
        admin = self.backend._ldap_conn      # pylint: disable=W0212
        admin.ldap = admin.write_ldap = self.conn
        self.cell_alloc = self.backend.cell_allocation()
        self.partition = self.backend.partition()


# --------------------------------------------------------------------------
# spellings
# --------------------------------------------------------------------------

def spellings(kib):
    """Every (number, unit) spelling of `kib` KiB."""
    out = [(kib, 'K')]
    if kib % K == 0:
        out.append((kib // K, 'M'))
        if kib % (K * K) == 0:
            out.append((kib // (K * K), 'G'))
    return out


@st.composite
def spell_bytes(draw, kib):
    num, unit = draw(st.sampled_from(spellings(kib)))
    if draw(st.integers(0, 3)) == 0:
        unit = unit.lower()
    text = '%d%s' % (num, unit)
    if draw(st.integers(0, 19)) == 0:
        text = '0' + text
    return text


def spell_cpu(pct):
    return '%d%%' % pct


# --------------------------------------------------------------------------
# generator
# --------------------------------------------------------------------------

GIB_K = K * K          # one GiB in KiB
MIB_K = K              # one MiB in KiB


@st.composite
def _capacity(draw, scale=1.0):
    """(cpu %, memory KiB, disk KiB) of a partition or a limit."""
    cpu = draw(st.sampled_from([0, 100, 400, 1000, 2400, 5000]))
    mem = draw(st.sampled_from([0, 1, 4, 16, 64, 200])) * GIB_K
    disk = draw(st.sampled_from([0, 1, 10, 100, 500])) * GIB_K
    if draw(st.integers(0, 3)) == 0:
        # not a round number of GiB
        mem += draw(st.integers(1, 2047)) * draw(st.sampled_from([1, MIB_K]))
        disk += draw(st.integers(1, 2047)) * draw(st.sampled_from([1, MIB_K]))
        cpu += draw(st.integers(0, 99))
    return {'cpu': int(cpu * scale), 'memory': int(mem * scale),
            'disk': int(disk * scale)}


@st.composite
def _spell_rec(draw, amt):
    return {
        'cpu': spell_cpu(amt['cpu']),
        'memory': draw(spell_bytes(amt['memory'])),
        'disk': draw(spell_bytes(amt['disk'])),
    }


def _to_kib(free_bytes):
    return free_bytes // K


@st.composite
def _aimed_amounts(draw, scopes, mode):
    """Amounts (cpu %, KiB, KiB) aimed at the tightest head-room."""
    # tightest free value per dimension over all scopes that apply
    tight = {}
    for dim in DIMS:
        tight[dim] = min(free[dim] for _scope, free in scopes)
    room = {
        'cpu': tight['cpu'],
        'memory': _to_kib(tight['memory']),
        'disk': _to_kib(tight['disk']),
    }
    amt = {}
    if mode == 'zero':
        return {'cpu': 0, 'memory': 0, 'disk': 0}
    if mode == 'random':
        got = draw(_capacity())
        return got
    binding = draw(st.sampled_from(DIMS))
    for dim in DIMS:
        top = max(0, room[dim])
        if dim == binding and mode in ('exact', 'over'):
            val = top
            if mode == 'over':
                if room[dim] < 0:
                    val = 0
                else:
                    step = 1
                    if dim != 'cpu':
                        step = draw(st.sampled_from([1, 1, MIB_K, GIB_K]))
                    val = top + step
        elif mode == 'near' and dim == binding:
            # within 10 % below the head-room
            lo = top - top // 10
            val = draw(st.integers(lo, top))
        else:
            val = draw(st.integers(0, top))
            if dim != 'cpu' and val > 4 * MIB_K and draw(st.booleans()):
                # round to MiB / GiB so that all three units get spelled
                unit = GIB_K if val > 4 * GIB_K and draw(st.booleans()) \
                    else MIB_K
                val -= val % unit
        amt[dim] = val
    return amt


def rsv_id(tenant, alloc, cell):
    return '%s/%s/%s' % (tenant, alloc, cell)


ALLOC_NAMES = [('t1', 'dev'), ('t1:s', 'dev'), ('t1', 'prod'),
               ('t1:s', 'prod'), ('t1:s:u', 'dev'), ('t2', 'dev'),
               ('t2:x', 'dev'), ('t2', 'uat'), ('t3', 'qa'), ('t3', 'prod'),
               ('t3:s', 'qa'), ('t4', 'dev')]


def related(one, two):
    """'ten/alloc/cell' ids of the same cell whose allocations have the same
    name and whose tenants lie on one path of the tenant tree (t1 and t1:s)."""
    ten1, alloc1, cell1 = one.split('/')
    ten2, alloc2, cell2 = two.split('/')
    if (alloc1, cell1) != (alloc2, cell2) or ten1 == ten2:
        return False
    path1, path2 = ten1.split(':'), ten2.split(':')
    short = min(len(path1), len(path2))
    return path1[:short] == path2[:short]


@st.composite
def cases(draw, max_ops=8):
    model = Model()
    cells = ['c1'] if draw(st.integers(0, 3)) else ['c1', 'c2']

    # ---- partitions -------------------------------------------------------
    partitions = []
    part_names = draw(st.sampled_from([
        ['_default'], ['_default', 'p1'], ['p1'], ['_default', 'p1', 'p2'],
    ]))
    for cell in cells:
        for name in part_names:
            cap = draw(_capacity())
            part = dict(draw(_spell_rec(cap)), cell=cell, name=name)
            limits = []
            if draw(st.integers(0, 4)):
                ntraits = draw(st.integers(1, 3))
                for trait in draw(st.permutations(TRAITS))[:ntraits]:
                    frac = draw(st.sampled_from([0.25, 0.5, 0.5, 1.0, 1.5]))
                    lim = {
                        'cpu': int(cap['cpu'] * frac),
                        'memory': int(cap['memory'] * frac),
                        'disk': int(cap['disk'] * frac),
                    }
                    limits.append(dict(draw(_spell_rec(lim)), trait=trait))
            part['limits'] = limits
            partitions.append(part)
            model.add_partition(part)

    def limited(cell, pname):
        part = model.partitions.get((cell, pname))
        return sorted(part['limits']) if part else []

    def draw_traits(cell, pname, prefer=()):
        lim = limited(cell, pname)
        picked = set()
        for trait in TRAITS:
            weight = 1
            if trait in lim:
                weight = 4
            if trait in prefer:
                weight += 3
            if draw(st.integers(0, 9)) < weight:
                picked.add(trait)
        order = draw(st.permutations(sorted(picked)))
        return list(order)

    free_names = list(ALLOC_NAMES)

    def pick_name(cell):
        """A fresh (tenant, alloc), half of the time one whose allocation
        has the same name as one already reserved in this cell by a parent
        or sub tenant."""
        twins = [
            idx for idx, (tenant, alloc) in enumerate(free_names)
            if any(related(rsv_id(tenant, alloc, cell), rid)
                   for rid in model.rsv)
        ]
        if twins and draw(st.booleans()):
            return free_names.pop(draw(st.sampled_from(twins)))
        return free_names.pop(draw(st.integers(0, len(free_names) - 1)))

    # ---- reservations written behind the API's back ------------------------
    existing = []
    for _ in range(draw(st.integers(0, 4))):
        if not free_names:
            break
        cell = draw(st.sampled_from(cells))
        tenant, alloc = pick_name(cell)
        pname = draw(st.sampled_from(part_names))
        traits = draw_traits(cell, pname)
        rid = rsv_id(tenant, alloc, cell)
        scopes = model.headroom(cell, pname, traits, rid)
        mode = draw(st.sampled_from(
            ['under', 'under', 'under', 'near', 'random', 'zero']))
        amt = draw(_aimed_amounts(scopes, mode))
        rec = dict(draw(_spell_rec(amt)), partition=pname, traits=traits,
                   rank=draw(st.sampled_from([100, 100, 50, 0])))
        existing.append({'id': rid, 'rsrc': rec})
        model.put(rid, cell, rec)

    # ---- requests ----------------------------------------------------------
    ops = []
    nops = draw(st.integers(1, max_ops))
    for _ in range(nops):
        known = sorted(model.rsv)
        roll = draw(st.integers(0, 99))
        if roll < 8 and known:
            rid = draw(st.sampled_from(known))
            ops.append({'op': 'delete', 'id': rid})
            del model.rsv[rid]
            continue
        is_update = roll < 45 and bool(known)
        cell = draw(st.sampled_from(cells))
        rsrc = {}
        if is_update:
            if draw(st.integers(0, 19)) == 0 and free_names:
                tenant, alloc = free_names[0]      # not there
                rid = rsv_id(tenant, alloc, cell)
                old = None
            else:
                rid = draw(st.sampled_from(known))
                old = model.rsv[rid]
                cell = old['cell']
            # partition: CLI always re-sends it; it may move the reservation
            if old is not None and draw(st.integers(0, 4)):
                pname = old['partition']
            else:
                pname = draw(st.sampled_from(part_names + ['ghost']))
            send_partition = draw(st.integers(0, 14)) != 0
            # traits: the CLI never sends them on update
            old_traits = old['traits'] if old else []
            if draw(st.integers(0, 9)) < 6:
                traits = None
                eff_traits = old_traits
            else:
                traits = draw_traits(cell, pname or DEFAULT_PARTITION,
                                     prefer=old_traits)
                eff_traits = traits
                if not traits:
                    # LdapObject.update cannot clear a list attribute (an
                    # empty list is skipped by _dict_2_entry): out of domain
                    traits = None
                    eff_traits = old_traits
            eff_part = pname
            if not send_partition:
                eff_part = old['partition'] if old else pname
            elif draw(st.integers(0, 11)) == 0:
                # explicit "partition": null (schema: string or null): the
                # attribute is dropped, the record reads back as _default
                pname = None
                eff_part = DEFAULT_PARTITION
        else:
            if draw(st.integers(0, 11)) == 0 and known:
                rid = draw(st.sampled_from(known))   # create over existing
                cell = model.rsv[rid]['cell']
            elif free_names:
                tenant, alloc = pick_name(cell)
                rid = rsv_id(tenant, alloc, cell)
            else:
                rid = draw(st.sampled_from(known))
                cell = model.rsv[rid]['cell']
            old = model.rsv.get(rid)
            roll2 = draw(st.integers(0, 19))
            if roll2 == 0:
                pname = 'ghost'
            else:
                pname = draw(st.sampled_from(part_names))
            send_partition = not (pname == DEFAULT_PARTITION and
                                  draw(st.integers(0, 2)) == 0)
            eff_part = pname
            if DEFAULT_PARTITION in part_names and \
                    draw(st.integers(0, 9)) == 0:
                # key present with JSON null instead of omitted / named
                send_partition = True
                pname = None
                eff_part = DEFAULT_PARTITION
            # aim at traits other reservations of that partition carry
            carried = set()
            for orid, rsv in model.rsv.items():
                if orid != rid and rsv['cell'] == cell and \
                        rsv['partition'] == eff_part:
                    carried.update(rsv['traits'])
            traits = draw_traits(cell, eff_part, prefer=carried)
            if not traits and draw(st.booleans()):
                traits = None
            eff_traits = traits or []

        if is_update and old is not None and draw(st.integers(0, 5)) == 0:
            # re-send exactly what is stored (same spellings, same
            # partition) and change only the traits / rank: still a request
            # that has to fit
            mode = 'same'
            pname = eff_part = old['partition']
            send_partition = True
            traits = draw_traits(cell, pname, prefer=limited(cell, pname))
            if traits:
                eff_traits = traits
            else:
                traits = None
                eff_traits = old['traits']
            rsrc.update(old['raw'])
        else:
            scopes = model.headroom(cell, eff_part, eff_traits, rid)
            mode = draw(st.sampled_from(
                ['exact', 'exact', 'over', 'over', 'near', 'near', 'under',
                 'random', 'zero']))
            amt = draw(_aimed_amounts(scopes, mode))
            rsrc.update(draw(_spell_rec(amt)))
        if send_partition:
            rsrc['partition'] = pname
        if traits is not None:
            rsrc['traits'] = traits
        extra = draw(st.integers(0, 7))
        if extra == 0:
            rsrc['rank'] = draw(st.sampled_from([0, 50, 100]))
        elif extra == 1:
            rsrc['max_utilization'] = draw(st.sampled_from([0, 1, 2.5]))
        elif extra == 2:
            rsrc['rank_adjustment'] = draw(st.sampled_from([0, 10]))
        ops.append({'op': 'update' if is_update else 'create',
                    'id': rid, 'rsrc': rsrc, 'aim': mode})

        # advance the generator's copy of the model the way the reference
        # decides (the check recomputes this on its own from the case)
        if is_update and old is None:
            continue
        if not is_update and old is not None:
            continue
        fits = not model.misfits(cell, eff_part, eff_traits,
                                 amounts(rsrc), rid)
        if fits:
            merged = {'partition': eff_part, 'traits': eff_traits}
            merged.update({dim: rsrc[dim] for dim in DIMS})
            model.put(rid, cell, merged)

    return {'partitions': partitions, 'existing': existing, 'ops': ops}
